"""C18 — Logbook and statistics record every entry once, in order, chapters aligned (deap/tools/support.py).

Drives deap.tools.Logbook / Statistics / MultiStatistics through operation histories, evaluates the
property statement on what the implementation did (independent reference on plain Python lists), and
writes the histories with the observed outcomes/states as Coq terms for the correspondence check
against coq/Model/C18_Logbook.v.
"""
import copy
import itertools
import os
import pickle
import re

import vlib
from vlib import cz, czl, cbool, copt, clist

# ----------------------------------------------------------------------------
# tie (T): regenerate coq/Gen/C18_gen.v from the working tree (harness/c18_py2coq.py)
# ----------------------------------------------------------------------------
GEN = os.path.join(vlib.COQ, "Gen", "C18_gen.v")
METHOD_OF = {"record": "Logbook.record", "select": "Logbook.select", "pop": "Logbook.pop", "delitem": "Logbook.__delitem__",
             "stream": "Logbook.stream", "st_register": "Statistics.register", "st_compile": "Statistics.compile",
             "ms_compile": "MultiStatistics.compile", "ms_register": "MultiStatistics.register"}


def _typechecks(txt):
    """does the regenerated text compile?  -> (ok, line number of the first error or None)"""
    import subprocess
    import tempfile
    d = tempfile.mkdtemp(prefix="c18gen_")
    try:
        fn = os.path.join(d, "C18_gen_probe.v")
        with open(fn, "w") as f:
            f.write(txt)
        p = subprocess.run(["timeout", "300", "coqc", "-Q", vlib.COQ, "DV", "-w", "none", fn], cwd=d,
                           stdout=subprocess.PIPE, stderr=subprocess.STDOUT, text=True)
        if p.returncode == 0:
            return True, None
        m = re.search(r'line (\d+), characters', p.stdout)
        return ("Error" not in p.stdout), (int(m.group(1)) if m else None)   # killed without a Coq error: no verdict
    finally:
        import shutil
        shutil.rmtree(d, ignore_errors=True)


def regen(repo=None):
    """Returns (ok, message, status) -- status: method key -> None (translated) | Refuse (placeholder = hand model's
    form of the method); ok is False when nothing could be translated.  A regenerated definition that does not
    type-check counts as a refusal of that method."""
    import c18_py2coq
    repo = repo or vlib.REPO
    forced = tuple(x for x in os.environ.get("C18_FORCE_REFUSE", "").split(",") if x)
    extra = {}
    try:
        txt, status = c18_py2coq.translate_repo(repo, forced)
        if os.path.exists(os.path.join(vlib.COQ, "Model", "C18_GenRt.vo")):
            for _ in range(len(status)):
                ok, line = _typechecks(txt)
                if ok:
                    break
                # find the definition the error is in, refuse it, translate again
                lines = txt.split("\n")[:line or 0]
                keys = [k for k in c18_py2coq.ORDER
                        if any(l.startswith(c18_py2coq.FUNCS[k][6].split(" (")[0].split(" {")[0] + " ") for l in lines)]
                bad = keys[-1] if keys else None
                if bad is None or bad in extra:
                    raise RuntimeError("regenerated text does not compile (line %s)" % line)
                extra[bad] = c18_py2coq.Refuse("FunctionDef", "the regenerated definition does not type-check")
                txt, status = c18_py2coq.translate_repo(repo, forced + tuple(extra))
                for k, v in extra.items():
                    status[k] = v
    except Exception as e:  # noqa  (a translator crash is a refusal of everything: fail closed)
        r = c18_py2coq.Refuse("Module", "translator error %s: %s" % (type(e).__name__, e))
        txt, status = c18_py2coq.translate_source("\x00")     # all placeholders
        status = {k: r for k in status}
    with vlib.BuildLock():
        os.makedirs(os.path.dirname(GEN), exist_ok=True)
        old = open(GEN).read() if os.path.exists(GEN) else None
        if old != txt:
            with open(GEN, "w") as f:
                f.write(txt)
    done = [METHOD_OF[k] for k, v in status.items() if v is None]
    refused = ["%s (%s)" % (METHOD_OF[k], v) for k, v in status.items() if v is not None]
    msg = "regenerated: %s" % (", ".join(done) or "nothing")
    if refused:
        msg += "; translator refused: " + "; ".join(refused)
    return bool(done), msg, status


def tie_T(run):
    """Regenerate, re-prove `regenerated = hand model` and the theorems on the regenerated definitions.
    Returns (check function of the correspondence, requires, translated-but-not-proved flag)."""
    ok, msg, status = regen()
    refused = {k: v for k, v in status.items() if v is not None}
    done = [METHOD_OF[k] for k, v in status.items() if v is None]
    run.extra_cov["regenerated_functions"] = done
    run.extra_cov["translator_refused"] = {METHOD_OF[k]: str(v) for k, v in refused.items()}
    for k, v in refused.items():
        run.notes.append("tie: correspondence-only (translator refused %s at line %s in %s: %s)"
                         % (v.node, v.line, METHOD_OF[k], v.why))
    if not ok:
        run.extra_cov["tie"] = "correspondence-only (%s)" % msg
        return "check", [], False
    gen_ok = run.build_props(props="Props/C18_gen.v", extra=["Corr/C18_gen.v"])
    if gen_ok:
        run.notes.append("tie: regenerated (%s)" % ", ".join(done))
        run.extra_cov["tie"] = ("translation (regenerated methods proved equal to the hand model: %s) + correspondence%s"
                                % (", ".join(done), "; correspondence-only for " + ", ".join(
                                    sorted(METHOD_OF[k] for k in refused)) if refused else ""))
        run.trusted.append("translator harness/c18_py2coq.py and its signature table (source text -> coq/Gen/C18_gen.v) with "
                           "the run-time vocabulary coq/Model/C18_GenRt.v (state-and-exception monad, list.pop / list.append / "
                           "self.chapters / slice.indices primitives, the unmodelled text self.__str__); the regenerated methods "
                           "are proved equal to the hand model (Proofs/C18_gen_equiv.v) and evaluated against the implementation "
                           "on every run")
        return "check_both", ["From DV Require Import Corr.C18_gen."], False
    run.extra_cov["tie"] = "translator succeeded but the regenerated definitions are no longer (provably) the model"
    try:        # keep the offending text for the replay
        with open(os.path.join(run.rundir, "C18_gen.v.broken"), "w") as f:
            f.write(open(GEN).read())
    except OSError:
        pass
    return "check", [], True

# ----------------------------------------------------------------------------
# names <-> integer codes (the model's `name`)
# ----------------------------------------------------------------------------
NAMES = sorted(["a", "age", "avg", "b", "cnt", "fit", "id", "m", "mx", "s", "size", "sm", "x", "y", "pr", "af"])
CODE = {n: i for i, n in enumerate(NAMES)}
CODE["scale"] = 100
CODE["default"] = 101
ERRS = {"IndexError", "ValueError", "KeyError"}
SIG_HEADER = "C18.header_again_after_full_drain"


def code(n):
    return cz(CODE[n])


class Unprintable(Exception):
    pass


def zint(v):
    if type(v) is not int:
        raise Unprintable(repr(v))
    return cz(v)


def cvalue(v):
    if isinstance(v, dict):
        return "(VDict %s)" % cdict(v)
    return "(VInt %s)" % zint(v)


def cdict(d):
    return clist(["(%s, %s)" % (code(k), cvalue(v)) for k, v in d.items()])


def centry(e):
    if not isinstance(e, dict):
        raise Unprintable(repr(e))
    return clist(["(%s, %s)" % (code(k), zint(v)) for k, v in sorted(e.items(), key=lambda kv: CODE[kv[0]])])


def cnames(ns):
    return clist([code(n) for n in ns])


def cop(op):
    k = op[0]
    if k == "record":
        return "(ORecord %s)" % cdict(op[1])
    if k == "select":
        return "(OSelect %s %s)" % (cnames(op[1]), cnames(op[2]))
    if k == "stream":
        return "OStream"
    if k == "print":
        return "OPrint"
    if k == "pop":
        return "(OPop %s)" % copt(op[1], cz)
    if k == "delitem":
        return "(ODelItem %s)" % cz(op[1])
    if k == "delslice":
        return "(ODelSlice %s %s %s)" % (copt(op[1], cz), copt(op[2], cz), copt(op[3], cz))
    if k == "pickle":
        return "OPickle"
    if k == "header":
        return "(OSetHeader %s)" % copt(op[1], cnames)
    if k == "logh":
        return "(OSetLogHeader %s)" % cbool(op[1])
    raise ValueError(op)


def parse_text(text):
    """stream / str text -> (ids of the delivered records, header block present).
    Every record carries a unique integer in the first column ('id')."""
    if not isinstance(text, str):
        raise Unprintable(repr(text))
    if text == "":
        return [], False
    ids, header = [], False
    for line in text.split("\n"):
        first = line.split("\t")[0].strip()
        if re.fullmatch(r"-?\d+", first):
            ids.append(int(first))
        else:
            header = True
    return ids, header


def cout(o):
    k = o[0]
    if k == "none":
        return "ONone"
    if k == "raise":
        return "(OErr %s)" % (o[1] if o[1] in ERRS else "OtherError")
    if k == "sel":
        r = o[1]
        col = lambda c: clist([copt(v, zint) for v in c])
        if isinstance(r, list):
            return "(OSel (Sel1 %s))" % col(r)
        if isinstance(r, tuple):
            return "(OSel (SelN %s))" % clist([col(c) for c in r])
        raise Unprintable(repr(r))
    if k == "text":
        ids, h = parse_text(o[1])
        return "(txt %s %s)" % (czl(ids), cbool(h))
    if k == "item":
        e = o[1]
        return "(itm %s %s)" % (zint(e.get("id", 999)), centry(e))
    raise ValueError(o)


def ids_of(lb):
    return [e.get("id", 999) if isinstance(e, dict) else 998 for e in list.__iter__(lb)]


def skel(lb):
    return (ids_of(lb), lb.buffindex, sorted(((CODE[k], skel(c)) for k, c in lb.chapters.items()), key=lambda x: x[0]))


def cshape(shape):
    """{chapter: [sub-chapters]} -> the model's chapter-name tree"""
    return "(Sh %s)" % clist(["(%s, Sh %s)" % (code(c), clist(["(%s, Sh [])" % code(x) for x in subs]))
                              for c, subs in shape.items()])


def cskel(s):
    return "(mkot %s %s %s)" % (czl(s[0]), zint(s[1]), clist(["(%s, %s)" % (cz(k), cskel(c)) for k, c in s[2]]))


def dump(lb):
    return {"recs": [dict(e) for e in list.__iter__(lb)], "buff": lb.buffindex,
            "header": None if lb.header is None else list(lb.header), "logh": lb.log_header,
            "collen": lb.columns_len,
            "chapters": {k: dump(c) for k, c in lb.chapters.items()}}


def cdump(d):
    recs = clist(["(R %s %s)" % (zint(e.get("id", 999)), centry(e)) for e in d["recs"]])
    chs = clist(["(%s, %s)" % (code(k), cdump(c)) for k, c in sorted(d["chapters"].items(), key=lambda kv: CODE[kv[0]])])
    return "(LB %s %s %s %s %s)" % (recs, zint(d["buff"]), chs, copt(d["header"], cnames), cbool(bool(d["logh"])))


BAD_CASE = "(CHist None [] [(ONone, mkot [] 0 [])] new_lb)"       # a term on which check is false


# ----------------------------------------------------------------------------
# the property statement on plain lists (independent of the Coq model)
# ----------------------------------------------------------------------------
def expected_entries(infos, inherited=None, path=()):
    """chapter path -> the entry a record must leave there: the dictionary's own scalar fields plus
    the scalar fields of the enclosing record."""
    eff = dict(infos)
    eff.update(inherited or {})
    scal = {k: v for k, v in eff.items() if not isinstance(v, dict)}
    out = {path: scal}
    for k, v in eff.items():
        if isinstance(v, dict):
            out.update(expected_entries(v, scal, path + (k,)))
    return out


class Ref(object):
    def __init__(self, uniform):
        self.uniform = uniform
        self.ids = []          # records that must be in the logbook, in order
        self.exp = {}          # id -> {path: entry}
        self.delivered = []    # ids delivered by stream so far
        self.headers = 0
        self.paths = None      # chapter paths of the (uniform) records


def walk(lb, path=()):
    yield path, lb
    for k, c in lb.chapters.items():
        for x in walk(c, path + (k,)):
            yield x


class Shared(object):
    """The caller's long-lived dictionaries, one object per chapter path, reused for every record() call.
    value(path, content, mode) brings the object to `content` the way callers do -- 'clear': cleared and
    refilled; 'keep': only updated -- and returns it; nested dictionaries are long-lived objects too.
    The generators run the same procedure on shadow objects to know what an unmodified object holds, so the
    `content` they emit is exactly what the caller passes unless record() changed the caller's object."""

    def __init__(self):
        self.objs = {}

    def value(self, path, content, mode):
        obj = self.objs.setdefault(path, {})
        if mode == "clear":
            obj.clear()
        for k, v in content.items():
            if isinstance(v, dict):
                obj[k] = self.value(path + (k,), v, mode)
            else:
                obj[k] = v
        return obj

    def kwargs(self, infos, mode):
        return {k: (self.value((k,), v, mode) if isinstance(v, dict) else v) for k, v in infos.items()}


class Driver(object):
    """Runs one history on a fresh Logbook; collects outcomes, skeletons, violations."""

    def __init__(self, tools, uniform=True):
        self.tools = tools
        self.lb = tools.Logbook()
        self.ref = Ref(uniform)
        self.viol = []         # (what, signature)
        self.nrec = 0
        self.cut = False       # a chapter of different length raised during a deletion (outside the hypothesis)
        self.shared = Shared()  # the dictionaries the caller keeps passing to record()
        self.reuse = None       # history-wide default for record operations without an explicit mode

    def record_args(self, op):
        mode = op[2] if len(op) > 2 else self.reuse
        if mode is None:
            return copy.deepcopy(op[1])
        return self.shared.kwargs(op[1], mode)

    def bad(self, what, signature=None):
        self.viol.append((what, signature))

    # -- state clauses: order, content, alignment ------------------------------
    def check_state(self):
        lb, ref = self.lb, self.ref
        if ids_of(lb) != ref.ids:
            self.bad("logbook does not hold exactly the entered, not deleted records in entry order: %r, expected %r" % (ids_of(lb), ref.ids))
            return
        for e, i in zip(list.__iter__(lb), ref.ids):
            if dict(e) != ref.exp[i][()]:
                self.bad("record %d is stored as %r, expected %r" % (i, dict(e), ref.exp[i][()]))
        if not (0 <= lb.buffindex <= len(lb)):
            self.bad("buffindex %r outside 0..len" % (lb.buffindex,))
        if ref.uniform and ref.paths is not None:
            seen = set()
            for path, c in walk(lb):
                seen.add(path)
                if path == ():
                    continue
                if not isinstance(c, self.tools.Logbook):
                    self.bad("chapter %r is not a Logbook" % (path,))
                if ids_of(c) != ref.ids:
                    self.bad("chapter %s is not aligned with the logbook: holds %r, logbook %r" % ("/".join(path), ids_of(c), ref.ids))
                    continue
                for e, i in zip(list.__iter__(c), ref.ids):
                    want = ref.exp[i].get(path)
                    if dict(e) != want:
                        self.bad("chapter %s entry of record %d is %r, expected %r (own fields + the record's scalar fields)" % ("/".join(path), i, dict(e), want))
            if seen != ref.paths:
                self.bad("chapters %r, expected %r" % (sorted(seen), sorted(ref.paths)))

    # -- one operation -----------------------------------------------------------
    def do(self, op):
        lb, ref = self.lb, self.ref
        k = op[0]
        before = dump(lb)
        out = None
        try:
            if k == "record":
                args = self.record_args(op)
                snapshot = copy.deepcopy(args)
                if snapshot != op[1]:
                    self.bad("record() was given %r for the intended %r: an earlier record() call changed the caller's dictionaries" % (snapshot, op[1]))
                try:
                    lb.record(**args)
                finally:
                    if args != snapshot:
                        self.bad("record() modified the dictionaries passed to it: %r became %r" % (snapshot, args))
                out = ("none",)
            elif k == "select":
                target = lb
                for n in op[1]:
                    if n not in target.chapters:      # never touch a missing defaultdict key
                        raise KeyError(n)
                    target = target.chapters[n]
                out = ("sel", target.select(*op[2]))
            elif k == "stream":
                out = ("text", lb.stream)
            elif k == "print":
                out = ("text", str(lb))
            elif k == "pop":
                out = ("item", lb.pop() if op[1] is None else lb.pop(op[1]))
            elif k == "delitem":
                del lb[op[1]]
                out = ("none",)
            elif k == "delslice":
                del lb[slice(op[1], op[2], op[3])]
                out = ("none",)
            elif k == "pickle":
                if op[1] == "deepcopy":
                    new = copy.deepcopy(lb)
                else:
                    new = pickle.loads(pickle.dumps(lb, op[1]))
                if new is lb:
                    self.bad("pickle round trip returned the same object")
                self.lb = new
                out = ("none",)
            elif k == "header":
                lb.header = None if op[1] is None else list(op[1])
                out = ("none",)
            elif k == "logh":
                lb.log_header = op[1]
                out = ("none",)
            else:
                raise ValueError(op)
        except Exception as e:  # noqa
            out = ("raise", type(e).__name__)
        self.oracle(op, out, before)
        return out

    # -- the statement, clause by clause -----------------------------------------
    def oracle(self, op, out, before):
        ref, k = self.ref, op[0]
        lb = self.lb
        raised = out[1] if out[0] == "raise" else None
        if k == "record":
            i = op[1]["id"]
            if raised:
                self.bad("record raised %s" % raised)
                return
            ref.ids.append(i)
            ref.exp[i] = expected_entries(op[1])
            if ref.uniform:
                if ref.paths is None:
                    ref.paths = set(ref.exp[i])
            self.nrec += 1
        elif k == "select":
            path, names = tuple(op[1]), op[2]
            if raised:
                if not (raised == "KeyError" and path):
                    self.bad("select raised %s" % raised)
            elif ref.uniform or not path:
                cols = [[ref.exp[i][path].get(n) for i in ref.ids] for n in names]
                want = cols[0] if len(names) == 1 else tuple(cols)
                if out[1] != want or type(out[1]) is not type(want):
                    self.bad("select%r on chapter %r returned %r, expected %r" % (tuple(names), path, out[1], want))
        elif k in ("stream", "print"):
            if raised:
                if ref.ids:
                    self.bad("%s raised %s although the logbook holds records" % (k, raised))
            else:
                try:
                    got, header = parse_text(out[1])
                except Unprintable:
                    self.bad("%s returned %r" % (k, out[1]))
                    got, header = [], False
                if k == "print":
                    if got != ref.ids:
                        self.bad("str(logbook) shows records %r, logbook holds %r" % (got, ref.ids))
                else:
                    pending = [i for i in ref.ids if i not in ref.delivered]
                    for i in got:
                        if i in ref.delivered:
                            self.bad("stream delivered record %d a second time" % i)
                        elif i not in ref.ids:
                            self.bad("stream delivered record %d which is not in the logbook" % i)
                    if [i for i in got if i in pending] != pending:
                        self.bad("stream delivered %r, the records not yet read are %r" % (got, pending))
                    if header:
                        ref.headers += 1
                        if ref.headers > 1:
                            drained = not (set(ref.delivered) & set(ref.ids))
                            self.bad("stream delivered the header a second time", SIG_HEADER if drained else None)
                    ref.delivered += [i for i in got if i not in ref.delivered]
        elif k in ("pop", "delitem", "delslice"):
            tmp = list(ref.ids)
            want_exc, item = None, None
            try:
                if k == "pop":
                    item = tmp.pop(0) if op[1] is None else tmp.pop(op[1])      # "defaults to the first element"
                elif k == "delitem":
                    del tmp[op[1]]
                else:
                    del tmp[slice(op[1], op[2], op[3])]
            except Exception as e:  # noqa
                want_exc = type(e).__name__
            if not ref.uniform and raised and not want_exc:
                # chapters of different lengths: outside the hypothesis.  The half-done state depends on the
                # order of the chapters dict, which is no part of the property: the history is cut before this operation.
                # With at most one chapter per level there is no order, and the half-done state is compared.
                self.cut = max(len(c.chapters) for _, c in walk(lb)) > 1
                ref.ids = ids_of(lb)
                return
            if want_exc:
                if raised != want_exc:
                    self.bad("%r on %d records: expected %s, got %r" % (op, len(ref.ids), want_exc, out))
                elif dump(lb) != before:
                    self.bad("%r raised %s but changed the logbook" % (op, raised))
            else:
                if raised:
                    self.bad("%r on %d records raised %s" % (op, len(ref.ids), raised))
                    ref.ids = tmp
                    return
                ref.ids = tmp
                if k == "pop" and (not isinstance(out[1], dict) or out[1] != ref.exp[item][()]):
                    self.bad("pop returned %r, expected record %d" % (out[1], item))
        elif k == "pickle":
            if raised:
                self.bad("pickle round trip raised %s" % raised)
            else:
                after = dump(lb)
                if after != before:
                    self.bad("logbook differs after the pickle round trip: %r -> %r" % (before, after))
                for path, c in walk(lb):
                    if type(c) is not self.tools.Logbook:
                        self.bad("after the pickle round trip chapter %r is a %s" % (path, type(c).__name__))
        elif k in ("header", "logh"):
            if raised:
                self.bad("setting %s raised %s" % (k, raised))
        self.check_state()


def run_history(tools, ops, uniform=True, reuse=None):
    """-> (operations actually used, list of (out, skeleton) per op, final dump, per-step violations)"""
    d = Driver(tools, uniform)
    d.reuse = reuse
    steps, viols = [], []
    for i, op in enumerate(ops):
        n0 = len(d.viol)
        o = d.do(op)
        if d.cut:
            return run_history(tools, ops[:i], uniform, reuse)
        steps.append((o, skel(d.lb)))
        viols.append(d.viol[n0:])
    return list(ops), steps, dump(d.lb), viols


# ----------------------------------------------------------------------------
# operation alphabets for the exhaustive part; record templates are shifted by the record number
# ----------------------------------------------------------------------------
def shift(v, n):
    if isinstance(v, dict):
        return {k: shift(x, n) for k, x in v.items()}
    return v + n


def alphabet(kind):
    if kind == "flat":          # no chapters
        recs = [{"id": 0, "x": 20}, {"id": 0, "y": 40}]
        chsel = ("select", [], ["y"])
        shape = {}
    elif kind == "two":         # two chapters
        recs = [{"id": 0, "x": 20, "fit": {"m": 40}, "size": {"m": 60, "s": 80}},
                {"id": 0, "fit": {"m": 40, "s": 50}, "size": {"m": 60}}]
        chsel = ("select", ["fit"], ["m", "s"])
        shape = {"fit": [], "size": []}
    elif kind == "sub":         # sub-chapters (record / select / print only, per the quantifier; deletion is exercised anyway)
        recs = [{"id": 0, "x": 20, "fit": {"a": {"m": 40}, "b": {"m": 50, "s": 55}, "s": 60}},
                {"id": 0, "fit": {"a": {"m": 40, "s": 45}, "b": {"m": 50}}, "x": 30}]
        chsel = ("select", ["fit", "b"], ["s"])
        shape = {"fit": ["a", "b"]}
    elif kind == "three":
        recs = [{"id": 0, "age": {"m": 10}, "fit": {"m": 40}, "size": {"s": 80}},
                {"id": 0, "x": 20, "size": {"m": 60}, "fit": {"s": 50}, "age": {"m": 10, "s": 15}}]
        chsel = ("select", ["age"], ["m"])
        shape = {"age": [], "fit": [], "size": []}
    else:
        raise ValueError(kind)
    ops = [("record", recs[0]), ("record", recs[1]),
           ("select", [], ["x"]), ("select", [], ["id", "x"]), ("select", [], ["id", "id"]), chsel,
           ("stream",),
           ("pop", None), ("pop", -1), ("pop", 1),
           ("delitem", 0), ("delitem", -2),
           ("delslice", 1, 3, None), ("delslice", None, None, -2), ("delslice", 2, 0, -1),
           ("pickle", 2)]
    return ops, shape


SMALL = [0, 1, 3, 5, 6, 7, 9, 10, 11, 12, 14]    # reduced alphabet (indices) for the deepest thorough scope


def trie_cases(run, tools, kind, depth, subset=None, prefix_len=2, reuse=None):
    """All histories of exactly `depth` operations over the alphabet (their prefixes are all shorter
    histories), grouped by their first prefix_len operations into one CTrie case each."""
    alpha, shape = alphabet(kind)
    if subset is not None:
        alpha = [alpha[i] for i in subset]
    calpha = clist([cop(o) for o in alpha])
    nA = len(alpha)
    terms, cases = [], []
    prefix_len = min(prefix_len, depth)
    for prefix in itertools.product(range(nA), repeat=prefix_len):
        items = []
        prev = None
        ok = True
        for rest in itertools.product(range(nA), repeat=depth - prefix_len):
            path = prefix + rest
            ops, nrec = [], 0
            for kx in path:
                o = alpha[kx]
                if o[0] == "record":
                    o = ("record", shift(o[1], nrec))
                    nrec += 1
                ops.append(o)
            _, steps, _, viols = run_history(tools, ops, True, reuse)
            first_new = 0
            if prev is not None:
                while first_new < depth and prev[first_new] == path[first_new]:
                    first_new += 1
            prev = path
            case = {"kind": "exhaustive/" + kind, "ops": [repr(o) for o in ops]}
            run.note_case(("trie", kind, subset is not None, path), nontrivial=nrec > 0,
                          sample=case if (len(run.samples) < 6 and sum(path) % 211 == 7) else None)
            for dpt in range(first_new, depth):
                for what, sig in viols[dpt]:
                    run.oracle_violation(what, {"kind": "exhaustive/" + kind, "ops": [repr(o) for o in ops[:dpt + 1]]},
                                         signature=sig, observed=[repr(s) for s in steps[:dpt + 1]])
                try:
                    items.append("T %d %d %s %s" % (dpt, path[dpt], cout(steps[dpt][0]), cskel(steps[dpt][1])))
                except Unprintable:
                    ok = False
        if ok:
            terms.append("CTrie (Some %s) %s %s" % (cshape(shape), calpha, clist(["(%s)" % i for i in items])))
        else:
            terms.append(BAD_CASE)
        cases.append({"kind": "exhaustive/" + kind, "prefix": [repr(alpha[i]) for i in prefix], "depth": depth})
    return terms, cases


# ----------------------------------------------------------------------------
# random histories
# ----------------------------------------------------------------------------
def rand_shape(rng):
    nch = rng.choice([0, 1, 1, 2, 2, 3])
    chapters = rng.sample(["fit", "size", "age"], nch)
    shape = {}
    for c in chapters:
        shape[c] = rng.sample(["a", "b"], rng.choice([1, 2])) if rng.random() < 0.3 else []
    return shape


def rand_infos(rng, uid, shape, uniform):
    infos = {"id": uid}
    if rng.random() < 0.5:
        infos["x"] = rng.randint(0, 9)
    if rng.random() < 0.3:
        infos["y"] = rng.randint(0, 9)

    def chapter_dict(subs, depth=0):
        d = {}
        for f in ("m", "s"):
            if rng.random() < 0.7:
                d[f] = rng.randint(0, 9)
        if rng.random() < 0.08:
            d[rng.choice(["x", "id"])] = rng.randint(50, 59)      # collides with a scalar of the record: the record's wins
        for sname in subs:
            if uniform or rng.random() < 0.7:
                d[sname] = chapter_dict([], depth + 1)
        return d
    for c, subs in shape.items():
        if uniform or rng.random() < 0.7:
            infos[c] = chapter_dict(subs)
    if not uniform and rng.random() < 0.1 and shape:
        # a dictionary under a name that is a scalar of the enclosing record: overwritten by the scalar
        c = rng.choice(list(shape))
        if isinstance(infos.get(c), dict) and "x" in infos:
            infos[c]["x"] = {"m": 1}
    items = list(infos.items())
    if rng.random() < 0.3:
        rng.shuffle(items)
    return dict(items)


def rand_index(rng, n):
    r = rng.random()
    if r < 0.8 and n > 0:
        return rng.randint(-n, n - 1)
    return rng.randint(-n - 2, n + 1)


def rand_bound(rng, n):
    return rng.choice([None, None, rng.randint(-n - 2, n + 2)])


def rand_history(rng, uniform):
    shape = rand_shape(rng)
    length = rng.randint(0, 12)
    reuse_hist = rng.random() < 0.45      # the caller passes the same dictionary objects to successive record() calls
    sim = Shared()
    ops, n, nrec = [], 0, 0         # n: number of records currently in the logbook (of the reference)
    ref = []
    if rng.random() < 0.25:
        ops.append(("header", rng.choice([["id"], ["id", "x"], ["id"] + list(shape), ["id", "m"], []])))
    if rng.random() < 0.1:
        ops.append(("logh", False))
    while len(ops) < length:
        r = rng.random()
        if r < 0.38 or (n == 0 and r < 0.6):
            infos = rand_infos(rng, nrec, shape, uniform)
            mode = rng.choice(["keep", "keep", "clear", None]) if reuse_hist else None
            if mode is not None:
                infos = copy.deepcopy(sim.kwargs(infos, mode))      # what the unmodified shared objects hold
            ops.append(("record", infos, mode))
            ref.append(nrec)
            nrec += 1
        elif r < 0.46:
            names = rng.sample(["id", "x", "y", "m", "s"], rng.choice([0, 1, 1, 2, 3]))
            if names and rng.random() < 0.25:
                # the same name asked for twice (or three times): one chronological column per ARGUMENT
                names = names + [rng.choice(names) for _ in range(rng.choice([1, 1, 2]))]
                rng.shuffle(names)
            path = []
            if uniform and shape and nrec > 0 and rng.random() < 0.5:
                c = rng.choice(list(shape))
                path = [c]
                if shape[c] and rng.random() < 0.5:
                    path.append(rng.choice(shape[c]))
            ops.append(("select", path, names))
        elif r < 0.60:
            ops.append(("stream",) if uniform else ("select", [], ["id"]))
        elif r < 0.63:
            ops.append(("print",) if uniform else ("select", [], ["x", "id"]))
        elif r < 0.73:
            i = rng.choice([None, rand_index(rng, len(ref))])
            ops.append(("pop", i))
            try:
                ref.pop(0 if i is None else i)
            except IndexError:
                pass
        elif r < 0.82:
            i = rand_index(rng, len(ref))
            ops.append(("delitem", i))
            try:
                del ref[i]
            except IndexError:
                pass
        elif r < 0.92:
            a, b = rand_bound(rng, len(ref)), rand_bound(rng, len(ref))
            c = rng.choice([None, None, 1, 2, 3, -1, -1, -2, -3, 0 if rng.random() < 0.3 else 1])
            ops.append(("delslice", a, b, c))
            try:
                del ref[slice(a, b, c)]
            except ValueError:
                pass
        elif r < 0.97:
            ops.append(("pickle", rng.choice([0, 1, 2, 3, 4, 5, "deepcopy"])))
        elif r < 0.985:
            ops.append(("header", rng.choice([None, ["id"], ["id", "x", "y"], ["id"] + list(shape)])))
        else:
            ops.append(("logh", rng.random() < 0.5))
        n = len(ref)
    return ops, shape


def rand_history_wide(rng):
    """Beyond the sizes of the regular generators (used only after the tie (T) broke: a regenerated definition that
    is no longer the model may differ from it only on long logbooks / far-away indices): 30..70 records with streams
    in between, then pops / deletions / slices over the whole index range and more streams."""
    shape = rand_shape(rng)
    ops, ref, nrec = [], [], 0
    for _ in range(rng.randint(30, 70)):
        ops.append(("record", rand_infos(rng, nrec, shape, True), None))
        ref.append(nrec)
        nrec += 1
        if rng.random() < 0.04:
            ops.append(("stream",))
    for _ in range(rng.randint(6, 16)):
        r = rng.random()
        if r < 0.3:
            ops.append(("stream",))
        elif r < 0.55:
            i = rand_index(rng, len(ref))
            ops.append(("pop", i))
            try:
                ref.pop(i)
            except IndexError:
                pass
        elif r < 0.75:
            i = rand_index(rng, len(ref))
            ops.append(("delitem", i))
            try:
                del ref[i]
            except IndexError:
                pass
        elif r < 0.9:
            a, b = rand_bound(rng, len(ref)), rand_bound(rng, len(ref))
            c = rng.choice([None, 1, 2, 7, -1, -3])
            if len(range(*slice(a, b, c).indices(len(ref)))) > 8:
                continue
            ops.append(("delslice", a, b, c))
            del ref[slice(a, b, c)]
        else:
            ops.append(("record", rand_infos(rng, nrec, shape, True), None))
            ref.append(nrec)
            nrec += 1
    ops.append(("stream",))
    return ops, shape


def hist_case(run, tools, ops, uniform, kind, terms, cases, sample=False, shape=None):
    ops, steps, fin, viols = run_history(tools, ops, uniform)
    case = {"kind": kind, "uniform_chapters": uniform, "ops": [repr(o) for o in ops]}
    run.note_case((kind, repr(ops)), nontrivial=any(o[0] == "record" for o in ops), sample=case if sample else None)
    for i, vs in enumerate(viols):
        for what, sig in vs:
            run.oracle_violation(what, {"kind": kind, "uniform_chapters": uniform, "ops": [repr(o) for o in ops[:i + 1]]},
                                 signature=sig, observed=[repr(s) for s in steps[:i + 1]])
    try:
        term = "CHist %s %s %s %s" % ("(Some %s)" % cshape(shape) if (uniform and shape is not None) else "None",
                                      clist([cop(o) for o in ops]),
                                   clist(["(%s, %s)" % (cout(o), cskel(s)) for o, s in steps]), cdump(fin))
    except Unprintable:
        term = BAD_CASE
    terms.append(term)
    cases.append(case)
    return viols


# ----------------------------------------------------------------------------
# statistics
# ----------------------------------------------------------------------------
def probe(tag):
    def f(*a, **k):
        return ("call", tag, a, k)
    return f


FUNS = {
    "FSum": sum,
    "FLen": len,
    "FMaxD": lambda values: max(values, default=0),
    "FAffine": lambda a, b, values: a * sum(values) + b,
    "FScaleMax": lambda values, scale=1, default=0: scale * max(values, default=default),
}
KEYS = {"KLen": len, "KSum": sum}


def key_fn(k):
    if k[0] == "KItem":
        import operator
        return operator.itemgetter(k[1])
    return KEYS[k[0]]


def ckey(k):
    return "(KItem %d%%nat)" % k[1] if k[0] == "KItem" else k[0]


def rand_reg(rng):
    """-> (name, coq fn, python callable, args, kwargs)"""
    nm = rng.choice(["avg", "cnt", "mx", "sm", "pr", "af"])
    f = rng.choice(["FProbe", "FProbe", "FSum", "FLen", "FMaxD", "FAffine", "FScaleMax"])
    args, kwargs = [], {}
    if f == "FProbe":
        tag = rng.randint(0, 9)
        args = [rng.randint(-3, 3) for _ in range(rng.choice([0, 0, 1, 2]))]
        kwargs = {k: rng.randint(-3, 3) for k in rng.sample(["scale", "default", "x"], rng.choice([0, 0, 1, 2]))}
        return nm, "(FProbe %s)" % cz(tag), probe(tag), args, kwargs
    if f == "FAffine":
        args = [rng.randint(-3, 3), rng.randint(-3, 3)]
    if f == "FScaleMax":
        kwargs = {k: rng.randint(-3, 3) for k in rng.sample(["scale", "default"], rng.choice([0, 1, 2]))}
    return nm, f, FUNS[f], args, kwargs


def ints(seq):
    for x in seq:
        zint(x)
    return list(seq)


def cres(v):
    if isinstance(v, tuple) and len(v) == 4 and v[0] == "call":
        _, tag, a, k = v
        if not a or type(a[-1]) is not tuple:
            raise Unprintable(repr(v))
        return "(RCall %s %s %s %s)" % (cz(tag), czl(ints(a[:-1])),
                                        clist(["(%s, %s)" % (code(n), zint(x)) for n, x in sorted(k.items(), key=lambda kv: CODE[kv[0]])]),
                                        czl(ints(a[-1])))
    return "(RInt %s)" % zint(v)


def csrec(r):
    if not isinstance(r, dict):
        raise Unprintable(repr(r))
    return clist(["(%s, %s)" % (code(n), cres(v)) for n, v in r.items()])


def rand_data(rng, minlen):
    return [[rng.randint(-5, 9) for _ in range(rng.randint(minlen, 4))] for _ in range(rng.randint(0, 5))]


def stats_cases(run, tools, n, terms, cases):
    rng = run.rng
    for it in range(n):
        multi = rng.random() < 0.5
        keyspecs = [rng.choice([("KLen",), ("KSum",), ("KItem", 0), ("KItem", 1)]) for _ in range(3)]
        minlen = 1 + max([k[1] for k in keyspecs if k[0] == "KItem"] + [-1])
        ident = (not multi) and rng.random() < 0.1       # Statistics() with the default identity key
        names, keyof = [], {}
        if multi:
            names = rng.sample(["fit", "size", "age"], rng.randint(0, 3))
            obj = tools.MultiStatistics(**{nm: tools.Statistics(key_fn(k)) for nm, k in zip(names, keyspecs)})
            keyof = dict(zip(names, keyspecs))
        elif ident:
            obj = tools.Statistics()
            keyspecs[0] = None
        else:
            obj = tools.Statistics(key_fn(keyspecs[0]))
        registered = {}      # name -> (callable, args, kwargs): what the statement says compile must apply
        order = []
        ops, obs, sops = [], [], []
        bad = []
        for _ in range(rng.randint(1, 7)):
            if rng.random() < 0.55 or not registered:
                nm, cf, pf, args, kwargs = rand_reg(rng)
                obj.register(nm, pf, *args, **kwargs)
                registered[nm] = (pf, args, kwargs)
                order.append(nm)
                sops.append("(SRegister %s %s %s %s)" % (code(nm), cf, czl(args), clist(["(%s, %s)" % (code(k), cz(v)) for k, v in kwargs.items()])))
                ops.append(("register", nm, cf, args, kwargs))
            else:
                data = rand_data(rng, minlen)
                if ident:
                    data = [sum(x) for x in data]       # identity key: the data are the values (model: singleton lists, key item 0)
                try:
                    got = obj.compile(copy.deepcopy(data))
                except Exception as e:  # noqa
                    bad.append("compile raised %s" % type(e).__name__)
                    got = None
                ops.append(("compile", data))
                if ident:
                    sops.append("(SCompile %s)" % clist([czl([x]) for x in data]))
                else:
                    sops.append("(SCompile %s)" % clist([czl(x) for x in data]))
                obs.append(got)

                def want_for(k):
                    values = tuple(data) if k is None else tuple(key_fn(k)(e) for e in data)
                    return {nm: pf(*(list(a) + [values]), **kw) for nm, (pf, a, kw) in registered.items()}
                if got is not None:
                    if multi:
                        want = {nm: want_for(keyof[nm]) for nm in names}
                        if got != want:
                            bad.append("MultiStatistics.compile returned %r, expected one record per statistics object: %r" % (got, want))
                        elif len({id(v) for v in got.values()}) != len(got):
                            bad.append("MultiStatistics.compile shares one record between names")
                    else:
                        want = want_for(keyspecs[0])
                        if got != want:
                            bad.append("Statistics.compile returned %r, expected %r" % (got, want))
        case = {"kind": "multistatistics" if multi else "statistics", "keys": repr(keyof if multi else keyspecs[0]),
                "ops": [repr(o) for o in ops]}
        run.note_case(("stats", it, repr(ops)), nontrivial=any(o[0] == "compile" for o in ops), sample=case if it < 2 else None)
        for b in bad:
            run.oracle_violation(b, case, observed=[repr(o) for o in obs])
        try:
            if multi:
                fields = clist(["(%s, %s)" % (code(nm), cnames(obj[nm].fields)) for nm in names])
                if obj.fields != sorted(names):
                    run.oracle_violation("MultiStatistics.fields is not the sorted list of names", case, observed=obj.fields)
                if any(o is None for o in obs):
                    raise Unprintable("exception")
                term = "CMulti %s %s %s %s" % (clist(["(%s, %s)" % (code(nm), ckey(keyof[nm])) for nm in names]), clist(sops),
                                               clist([clist(["(%s, %s)" % (code(nm), csrec(r)) for nm, r in o.items()]) for o in obs]), fields)
            else:
                if any(o is None for o in obs):
                    raise Unprintable("exception")
                if obj.fields != order:
                    run.oracle_violation("Statistics.fields is not the list of registered names", case, observed=obj.fields)
                term = "CStats %s %s %s %s" % (ckey(keyspecs[0] or ("KItem", 0)), clist(sops), clist([csrec(o) for o in obs]), cnames(obj.fields))
        except Unprintable:
            term = BAD_CASE
        terms.append(term)
        cases.append(case)


def statslog_cases(run, tools, n, terms, cases):
    """for g, pop in enumerate(pops): logbook.record(id=g, **mstats.compile(pop)) -- as the algorithms do"""
    rng = run.rng
    for it in range(n):
        names = rng.sample(["fit", "size", "age"], rng.randint(0, 3))
        keyspecs = [rng.choice([("KLen",), ("KSum",), ("KItem", 0)]) for _ in names]
        ms = tools.MultiStatistics(**{nm: tools.Statistics(key_fn(k)) for nm, k in zip(names, keyspecs)})
        regs, sops = {}, []
        for _ in range(rng.randint(0, 4)):
            while True:
                nm, cf, pf, args, kwargs = rand_reg(rng)
                if not cf.startswith("(FProbe"):
                    break
            ms.register(nm, pf, *args, **kwargs)
            regs[nm] = (pf, args, kwargs)
            sops.append("(SRegister %s %s %s %s)" % (code(nm), cf, czl(args), clist(["(%s, %s)" % (code(k), cz(v)) for k, v in kwargs.items()])))
        # generations: (extra scalar fields, population); "reuse" = the dictionary returned by the previous compile is
        # passed to record() again (same objects), with other scalar fields
        gens = []
        for _ in range(rng.randint(0, 5)):
            extra = {k: rng.randint(0, 9) for k in ("x", "y") if rng.random() < 0.5}
            reuse = bool(gens) and rng.random() < 0.4
            gens.append((extra, gens[-1][1] if reuse else rand_data(rng, 1), reuse))
        pops = [g[1] for g in gens]
        lb = tools.Logbook()
        bad = []
        try:
            rec = None
            for g, (extra, pop, reuse) in enumerate(gens):
                if not reuse:
                    rec = ms.compile(copy.deepcopy(pop))
                snapshot = copy.deepcopy(rec)
                lb.record(id=g, **extra, **rec)
                if rec != snapshot:
                    bad.append("record() modified the dictionary returned by MultiStatistics.compile: %r became %r" % (snapshot, rec))
        except Exception as e:  # noqa
            bad.append("record(**compile(...)) raised %s" % type(e).__name__)
        case = {"kind": "statistics->logbook", "names": names, "keys": repr(keyspecs), "registered": sorted(regs),
                "generations": [{"extra": e, "population": p, "compile_result_reused": r} for e, p, r in gens]}
        run.note_case(("statslog", it, repr(case)), nontrivial=bool(pops) and bool(names), sample=case if it < 1 else None)
        if not bad:
            tops = [dict(id=g, **e) for g, (e, _, _) in enumerate(gens)]
            if [dict(e) for e in list.__iter__(lb)] != tops:
                bad.append("logbook holds %r, expected %r" % (list(lb), tops))
            if pops and sorted(lb.chapters) != sorted(names):
                bad.append("chapters %r, expected %r" % (sorted(lb.chapters), sorted(names)))
            for nm, k in zip(names, keyspecs):
                want = []
                for g, (extra, pop, _) in enumerate(gens):
                    values = tuple(key_fn(k)(e) for e in pop)
                    ent = {f: pf(*(list(a) + [values]), **kw) for f, (pf, a, kw) in regs.items()}
                    ent.update(extra)
                    ent["id"] = g
                    want.append(ent)
                if pops and [dict(e) for e in list.__iter__(lb.chapters[nm])] != want:
                    bad.append("chapter %s holds %r, expected one compiled record per generation: %r" % (nm, list(lb.chapters[nm]), want))
                if pops:
                    for f in ("x", "y"):
                        col = [w.get(f) for w in want]
                        if lb.chapters[nm].select(f) != col:
                            bad.append("chapters[%r].select(%r) returned %r, expected %r (None where the record lacks the name)" % (nm, f, lb.chapters[nm].select(f), col))
        for b in bad:
            run.oracle_violation(b, case, observed=repr(dump(lb)))
        try:
            term = "CStatsLog %s %s %s %s %s" % (code("id"), clist(["(%s, %s)" % (code(nm), ckey(k)) for nm, k in zip(names, keyspecs)]),
                                                clist(sops),
                                                clist(["(%s, %s)" % (clist(["(%s, %s)" % (code(k), cz(v)) for k, v in e.items()]), clist([czl(x) for x in p]))
                                                       for e, p, _ in gens]), cdump(dump(lb)))
        except Unprintable:
            term = BAD_CASE
        terms.append(term)
        cases.append(case)


# ----------------------------------------------------------------------------
WITNESS = [("record", {"id": 0}), ("stream",), ("delitem", 0), ("record", {"id": 1}), ("stream",)]


def load_corpus():
    """corpus/C18_*.json: {"name", "shape": {chapter: [sub-chapters]}, "ops": [[kind, args...], ...]} (uniform histories);
    a record operation is ["record", {..}, mode] with mode null / "keep" / "clear" (see class Shared)."""
    import glob
    import json
    import os
    out = []
    here = os.path.dirname(os.path.dirname(os.path.abspath(__file__)))
    for f in sorted(glob.glob(os.path.join(here, "corpus", "C18_*.json"))):
        for h in json.load(open(f)):
            out.append((h["name"], h["shape"], [tuple(o) for o in h["ops"]]))
    return out


def _r(i, **kw):
    d = {"id": i}
    d.update(kw)
    return ("record", d)


# corpus: the histories on which the unchanged tree failed before the fix commits (they must stay repaired),
# plus hand-written deep ones; (name, chapter tree, operations)
CORPUS = [
    ("defect-a slice deletion raised TypeError", {"fit": []},
     [_r(0, fit={"m": 0}), _r(1, fit={"m": 10}), _r(2, fit={"m": 20}), _r(3, fit={"m": 30}), ("stream",),
      ("delslice", 0, 2, None), ("stream",), ("select", ["fit"], ["m"]), ("delslice", None, None, -1), ("stream",)]),
    ("defect-b pop(-1) behind the streamed prefix", {},
     [_r(0), _r(1), ("stream",), _r(2), ("pop", -1), ("stream",), _r(3), ("stream",), ("pop", -3), ("stream",)]),
    ("defect-b failing negative pop changed buffindex", {},
     [_r(0), _r(1), ("stream",), ("pop", -7), ("stream",), _r(2), ("stream",)]),
    ("defect-c pop left the chapters alone", {"fit": ["a"], "size": []},
     [_r(0, fit={"a": {"m": 1}, "s": 2}, size={"m": 3}), _r(1, fit={"a": {"m": 4}, "s": 5}, size={"m": 6}),
      _r(2, fit={"a": {"m": 7}, "s": 8}, size={"m": 9}), ("pop", 0), ("select", ["fit", "a"], ["m", "id"]),
      ("pop", None), ("stream",), ("delitem", -1), ("print",)]),
    ("deep tree, slices, pickle", {"fit": ["a", "b"], "age": []},
     [_r(i, x=i * i, fit={"a": {"m": i}, "b": {"m": -i, "s": 1}}, age={"s": 2 * i}) for i in range(5)] +
     [("stream",), ("delslice", -1, None, -2), ("pickle", 0), _r(5, fit={"a": {}, "b": {}}, age={}), ("stream",),
      ("delslice", 3, 0, -1), ("pickle", "deepcopy"), ("print",), ("select", ["fit", "b"], ["s", "x"]), ("stream",)]),
]


def main(run):
    from deap import tools
    run.rule = ("exhaustive: every operation history of length <= 4 (quick) / <= 5 (thorough, reduced alphabet at length 5) over a 15-operation "
                "alphabet (two record shapes with optional fields, select of one/several names at the top and in a chapter, stream, pop()/pop(-1)/pop(1), "
                "del log[0]/log[-2], del log[1:3]/log[::-2]/log[2:0:-1], pickle round trip), for logbooks with two chapters; the same for no chapters, "
                "three chapters and sub-chapters at length 3 (quick) / 4 (thorough); random histories of length 0..12 with 0..3 chapters, sub-chapters, "
                "explicit/default headers, log_header off, colliding field names, in- and out-of-range indices, all slice shapes incl. step 0, pickle "
                "protocols 0..5 and deepcopy; 15% of the random histories use different chapter names per record (no stream there). "
                "A corpus runs first: the known-finding witness, the histories on which the unchanged tree failed before the fix commits, a deep tree. "
                "Every history generated with uniform chapter names is also checked against the theorems' hypothesis (uniformb). "
                "Statistics/MultiStatistics: random register/compile sequences with frozen positional and keyword arguments and call-recording functions; "
                "generation loops logbook.record(id=g, **mstats.compile(pop)). "
                "A case is one history (distinct by its operation list); non-trivial = at least one record entered / one compile.")
    run.trusted += ["Coq 8.16.1 kernel and vm_compute",
                    "hand-written model coq/Model/C18_Logbook.v tied by correspondence (harness/c18.py): after every operation the outcome, "
                    "record ids and buffindex of the logbook and of every chapter are compared, and the full state at the end of random histories",
                    "column formatting of Logbook.__txt__ is not modelled: the stream text is parsed back to (record ids, header present) through the "
                    "unique integer in the first column",
                    "CPython list.pop / slice.indices / sorted / dict order / pickle of list subclasses as modelled in coq/Base/PyList.v and the model",
                    "the Python reference in harness/c18.py (plain lists) used as implementation-level oracle"]
    run.assumptions += ["every record of a history feeds the same chapter names (as MultiStatistics.compile produces)",
                        "record values are integers or dictionaries; keyword names are strings",
                        "a stream call on an empty logbook raises and delivers nothing (DESIGN Appendix B item 10)"]
    import time
    phases = {}
    t0 = time.time()
    run.build_props()
    # ---- tie (T): regenerate Gen/C18_gen.v from the working tree, re-prove `regenerated = model` and the theorems
    gen_check, gen_reqs, gen_unproved = tie_T(run)
    phases["build"] = round(time.time() - t0, 1)
    rng = run.rng

    # ---- known finding: replay the witness on the implementation on every run ----
    _, steps, _, viols = run_history(tools, WITNESS)
    seen = False
    for i, vs in enumerate(viols):
        for what, sig in vs:
            seen = seen or sig == SIG_HEADER
            run.oracle_violation(what, {"kind": "witness", "ops": [repr(o) for o in WITNESS[:i + 1]]}, signature=sig,
                                 observed=[repr(s) for s in steps[:i + 1]])
    run.extra_cov["known_finding_witness_reproduced"] = seen
    if not seen:
        run.notes.append("the witness of %s no longer shows a second header (defect repaired?)" % SIG_HEADER)

    # ---- exhaustive histories ----
    terms, cases = [], []
    d_main = run.scale(4, 5)
    t, c = trie_cases(run, tools, "two", 4)
    terms += t
    cases += c
    if run.thorough:
        t, c = trie_cases(run, tools, "two", 5, subset=SMALL)
        terms += t
        cases += c
    n_two = len(terms)
    for kind in ("flat", "sub", "three"):
        # sub / three: the caller keeps one dictionary object per chapter (and sub-chapter), cleared and refilled
        t, c = trie_cases(run, tools, kind, run.scale(3, 4), prefix_len=run.scale(1, 2),
                          reuse=None if kind == "flat" else "clear")
        terms += t
        cases += c
    phases["exhaustive_python"] = round(time.time() - t0 - phases["build"], 1)
    t1 = time.time()
    # the regenerated definitions are evaluated next to the hand model on the smaller exhaustive groups, on all
    # random histories and on all statistics cases (check_both); the large two-chapter trie uses the hand model alone
    nbig = n_two
    run.correspond("exhaustive", "C18", terms[:nbig], cases[:nbig], shard=max(1, (nbig + 15) // 16))
    run.correspond("exhaustive_small", "C18", terms[nbig:], cases[nbig:], check=gen_check, requires=gen_reqs,
                   shard=max(1, (len(terms) - nbig + 7) // 8))
    gen_evaluated = len(terms) - nbig if gen_check != "check" else 0
    phases["exhaustive_coq"] = round(time.time() - t1, 1)
    t1 = time.time()

    # ---- random histories ----
    terms, cases = [], []
    hist_case(run, tools, WITNESS, True, "witness", terms, cases, shape={})
    for name, shape, ops in CORPUS + load_corpus():
        hist_case(run, tools, ops, True, "corpus: " + name, terms, cases, shape=shape)
    for it in range(run.scale(600, 12000)):
        uniform = rng.random() < 0.85
        ops, shape = rand_history(rng, uniform)
        hist_case(run, tools, ops, uniform, "random", terms, cases, sample=it < 3, shape=shape)
    run.correspond("random", "C18", terms, cases, check=gen_check, requires=gen_reqs)
    gen_evaluated += len(terms) if gen_check != "check" else 0
    if gen_unproved:
        # translated but not provably the model: do the regenerated definitions at least agree with the implementation?
        diag_terms, diag_cases = list(terms), list(cases)
        # the regenerated definitions are no longer provably the model: search beyond the regular sizes for an
        # input on which the implementation leaves the property / the model
        terms, cases = [], []
        for it in range(run.scale(120, 600)):
            ops, shape = rand_history_wide(rng)
            hist_case(run, tools, ops, True, "wide search after the tie (T) broke", terms, cases, shape=shape)
        run.correspond("wide", "C18", terms, cases, shard=20)
        run.notes.append("tie (T) broke: %d long histories (30..70 records, full index range) searched in addition" % len(terms))
        diag_terms += terms
        diag_cases += cases
        ok_, out = vlib.make_targets(["Corr/C18_gen.vo"])
        if ok_:
            traces, ndis = run.traces, len(run.disagreements)
            try:
                bad = run.correspond("diagnosis_regenerated", "C18", diag_terms, diag_cases, check="check_gen",
                                     requires=["From DV Require Import Corr.C18_gen."], shard=40)
                errs = run.corr_groups.get("diagnosis_regenerated", {}).get("errors")
                ng = None if errs else len(bad)
            except Exception as e:  # noqa
                ng = None
                run.notes.append("diagnosis step failed: %r" % (e,))
            finally:
                run.traces = traces
                del run.disagreements[ndis:]
                run.corr_groups.pop("diagnosis_regenerated", None)
            run.notes.append("diagnosis: the regenerated definitions (not provably equal to the model) disagree with the "
                             "implementation on %s of %d random / long histories" % (ng, len(diag_terms)))
            run.extra_cov["regenerated_vs_implementation"] = {"sampled": len(diag_terms), "disagree": ng}
        else:
            run.notes.append("diagnosis: the regenerated definitions do not compile: " + out[-400:])
    phases["random"] = round(time.time() - t1, 1)
    t1 = time.time()

    # ---- statistics ----
    terms, cases = [], []
    stats_cases(run, tools, run.scale(300, 4000), terms, cases)
    statslog_cases(run, tools, run.scale(150, 2000), terms, cases)
    run.correspond("statistics", "C18", terms, cases, check=gen_check, requires=gen_reqs)
    gen_evaluated += len(terms) if gen_check != "check" else 0
    run.extra_cov["cases_also_evaluated_on_regenerated_definitions"] = gen_evaluated
    phases["statistics"] = round(time.time() - t1, 1)
    run.extra_cov["phase_seconds"] = phases
