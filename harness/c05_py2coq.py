"""Fail-closed translator: assignCrowdingDist / selNSGA2 / sortNondominated of deap/tools/emo.py -> Gallina.

Tie (T) of property C05 (DESIGN.md 2.3).  The working-tree source of deap/tools/emo.py is parsed with Python's
`ast`; the bodies of the functions in FUNCS are compiled, statement by statement, into the monad `M o A` of
coq/Model/C05_GenRt.v (exceptions + the `fitness.crowding_dist` attribute table), generic in the arithmetic
record `numops` of the hand model, and written to coq/Gen/C05_gen.v (never committed).
coq/Proofs/C05_gen_equiv.v then proves, for every argument and every attribute table, that a regenerated
definition that returns normally returns what the hand model says (and leaves the attributes the model says), and
coq/Props/C05_gen.v restates the C05 theorems on the regenerated definitions.  A semantic change of the source
breaks a proof obligation; a construct outside the grammar makes the translator REFUSE that function (class
Refuse): it then gets the hand model as a placeholder and the check falls back to the correspondence tie for it.

Grammar (everything else is refused)
  function     def f(<exactly the parameters of FUNCS, with exactly the defaults listed there>): no decorators
  statements   docstring | pass | x = e | a, b = e1, e2 | l[i] = e | l[i] op= e | d[key] op= e | x op= e  (op in + - *)
               | l.sort(key=K[, reverse=True/False]) | l.append(e) | l.extend(e)     (l a list the function created)
               | d[key].append(e) (d a defaultdict(list) the function created) | l[-1].append(e) | l[-1].extend(e) (l a list
                 of lists the function created)
               | x.fitness.crowding_dist = e | f(args) for a translated function f without result
               | if c: ... [elif/else]  (c a comparison / and / or / not: no truthiness of lists or numbers)
               | for <targets> in <iterable>: ... (no else, no break) | continue (in a for)
               | while c: ... (FUNCS gives the fuel; no break / continue; running out of fuel is an exception)
               | raise <Name>(<message>) | return | return e   (not inside a loop)
  iterables    range(n) | enumerate(it) | zip(it, it[, it]) | a list-valued expression
               (a list / dictionary the loop body modifies may only be iterated through a slice copy)
  expressions  names, 0.0, float("inf"), non-negative int literals, negated int literals, 'standard' / 'log' only
               in `nd == '...'`; x.fitness.values, x.fitness.crowding_dist, x.fitness (a dictionary key); t[0] t[1] ... on
               tuples; l[i] l[-c] l[a:b] on lists; d[key] on defaultdicts; (e1, e2[, e3]); [e] * n; [] ; [[]];
               [e for <targets> in <iterable>] (effect-free e); + - * / typed as in `arith`, float(v) only as n * float(v);
               == != < <= > >= on integers, == != < > on values, < > on distances; not / and / or on booleans;
               len min max; list(chain(*e)); list(e); list(d.keys()); sorted(e, key=K[, reverse=...]);
               K = lambda x: <expression> | attrgetter("fitness.crowding_dist"); defaultdict(list) | defaultdict(int);
               sortNondominated(e, e) / sortLogNondominated(e, e) (parameters of the regenerated selNSGA2);
               a.dominates(b) on fitnesses (property C01's subject: C04's nd_dom).
Types        ind | V (objective value) | D (crowding distance) | nat (len, range, literals) | int (any integer) |
             bool | nd | fit (the weighted-values tuple of a fitness: dictionary key) | list T | tuples | defaultdict fit -> T.
             An empty list display has an unknown element type until its first append / extend (unification).
Effects (subscripts, attribute reads/writes, calls) are sequenced in Python's evaluation order: operands left to
right, the right-hand side before the target of an assignment, the old value of an augmented target first.
Aliasing: a list / dictionary the function mutates must be a fresh local (list display, comprehension, list(...),
sorted(...), slice, [x]*n, defaultdict(...)); its name may only be used as subscript / slice / len / iteration /
method-call base and as the returned value, so no second reference to it can exist; `a = b ; b = <fresh>` is a move;
`x = l[-1]` on a list of lists the function mutates is refused.  A defaultdict read inserts the key: reads are translated
as pure lookups with the default, and list(d.keys()) is refused inside loops and once d may have been read; len(d),
`in d`, iteration over d are outside the grammar.
"""
import ast
import os

EMO = ("deap", "tools", "emo.py")

IND, V, VF, D, NAT, INT, BOOL, UNIT, ND, FIT = "ind", "V", "Vf", "D", "nat", "int", "bool", "unit", "nd", "fit"


def TL(t):
    return ("list", t)


def TT(*ts):
    return ("tup", tuple(ts))


def is_list(t):
    return isinstance(t, tuple) and t[0] == "list"


def is_tup(t):
    return isinstance(t, tuple) and t[0] == "tup"


def TD(t):
    return ("ddict", t)


def is_ddict(t):
    return isinstance(t, tuple) and t[0] == "ddict"


def unify(a, b):
    """most specific common type; None (inside a type) = not yet known (an empty list display); raises ValueError"""
    if a is None:
        return b
    if b is None:
        return a
    if isinstance(a, tuple) and isinstance(b, tuple) and a[0] == b[0]:
        if a[0] in ("list", "ddict"):
            return (a[0], unify(a[1], b[1]))
        if a[0] == "tup" and len(a[1]) == len(b[1]):
            return ("tup", tuple(unify(x, y) for x, y in zip(a[1], b[1])))
    if a == b:
        return a
    raise ValueError((a, b))


def same_type(a, b):
    try:
        unify(a, b)
        return True
    except ValueError:
        return False


class Refuse(Exception):
    def __init__(self, node, why):
        self.node = type(node).__name__ if not isinstance(node, str) else node
        self.line = getattr(node, "lineno", None)
        self.why = why
        Exception.__init__(self, "%s at line %s: %s" % (self.node, self.line, why))


def refuse(node, why):
    raise Refuse(node, why)


def coqtype(t, rep="c05"):
    if t == IND:
        return "ind (V o)" if rep == "c05" else "C04_NDSort.ind"
    if t == FIT:
        return "C04_NDSort.wvals"
    if t in (V, VF):
        return "V o"
    if t == D:
        return "D o"
    if t == NAT:
        return "nat"
    if t == INT:
        return "Z"
    if t == BOOL:
        return "bool"
    if t == UNIT:
        return "unit"
    if t == ND:
        return "nd_choice"
    if is_list(t):
        return "list (%s)" % coqtype(t[1], rep)
    if is_tup(t):
        return " * ".join("(%s)" % coqtype(x, rep) for x in t[1])
    raise Refuse("Module", "type %r has no Coq counterpart" % (t,))


def proj(x, n, j):
    """component j of an n-tuple (left-nested pairs)"""
    t = x
    for _ in range(n - 1 - j):
        t = "(fst %s)" % t
    if j > 0:
        t = "(snd %s)" % t
    return t


def tup(vs):
    return "tt" if not vs else vs[0] if len(vs) == 1 else "(%s)" % ", ".join(vs)


# ---- signature table (trusted) ---------------------------------------------------------------------------
# name, parameters (python name, type), defaults {name: constant}, result type, placeholder (hand model)
SORTER = ([TL(IND), INT], TL(TL(IND)))
# + representation of an individual ("c05": record with fitness.values, "c04": (uid, wvalues) as in property C04's
#   model of the sorters), fuel of a `while` (a python expression over the locals, or None)
FUNCS = [
    ("assignCrowdingDist", [("individuals", TL(IND))], {}, UNIT,
     "model_assignCrowdingDist o v_individuals", "c05", None),
    ("selNSGA2", [("individuals", TL(IND)), ("k", INT), ("nd", ND)], {"nd": "standard"}, TL(IND),
     "model_selNSGA2 o p_sortNondominated p_sortLogNondominated v_individuals v_k v_nd", "c05", None),
    ("sortNondominated", [("individuals", TL(IND)), ("k", INT), ("first_front_only", BOOL)], {"first_front_only": False},
     TL(TL(IND)), "lift (C04_NDSort.sort_nd v_individuals v_k v_first_front_only)", "c04", "len(fits)"),
]
# callables a translated function may call: name -> (argument types, result type, coq head, monadic?)
PARAM_FUNCS = {"sortNondominated": SORTER, "sortLogNondominated": SORTER}
ND_NAMES = {"standard": "NdStandard", "log": "NdLog"}
EXPECTED = {"chain": ("from", "itertools", "chain"), "attrgetter": ("from", "operator", "attrgetter"),
            "defaultdict": ("from", "collections", "defaultdict")}
# builtins the translation gives a fixed meaning to (a call of any other name is refused anyway)
BUILTINS = ("len", "float", "sorted", "list", "int", "range", "zip", "enumerate", "min", "max", "Exception", "IndexError",
            "ValueError", "TypeError")
EXC_NAMES = ("Exception", "IndexError", "ValueError", "TypeError")


class Var(object):
    def __init__(self, t, mut=False):
        self.t, self.mut = t, mut


def cn(name):
    return "v_" + name


class FnTr(object):
    """Translator of one function body."""

    def __init__(self, fname, rettype, known, counter=None, rep="c05", fuel=None):
        self.fname, self.rettype, self.known = fname, rettype, known
        self.rep, self.fuel = rep, fuel
        self.pure_reads = set()             # defaultdicts that were read (a read inserts the key: keys() is refused after it)
        self.env = {}                       # python name -> Var, insertion ordered
        self.counter = counter if counter is not None else [0]
        self.in_loop = False
        self.cont = None

    def sub(self, in_loop=None):
        t = FnTr(self.fname, self.rettype, self.known, self.counter, self.rep, self.fuel)
        t.pure_reads = self.pure_reads
        t.env = dict((k, Var(v.t, v.mut)) for k, v in self.env.items())
        t.in_loop = self.in_loop if in_loop is None else in_loop
        t.cont = self.cont
        return t

    def temp(self, p="t"):
        self.counter[0] += 1
        return "%s%d" % (p, self.counter[0])

    def effect(self, binds, m):
        x = self.temp()
        binds.append(("bind", x, m))
        return x

    # ---- coercions -----------------------------------------------------------------------------------
    @staticmethod
    def to_int(v, t, node):
        if t == INT:
            return v
        if t == NAT:
            return "%s%%Z" % v if v.isdigit() else "(Z.of_nat %s)" % v
        refuse(node, "an integer is expected, found %s" % (t,))

    def nat(self, e, binds):
        v, t = self.expr(e, binds)
        if t != NAT:
            refuse(e, "a natural number (length / index / range) is expected, found %s" % (t,))
        return v

    # ---- expressions: (pure text, type); effects are appended to binds in evaluation order ---------------
    def expr(self, e, binds, allow_mut=False):
        if isinstance(e, ast.Constant):
            v = e.value
            if isinstance(v, bool):
                refuse(e, "boolean constant")
            if isinstance(v, int):
                if v < 0:
                    refuse(e, "negative constant")
                return str(v), NAT
            if isinstance(v, float):
                if v == 0.0 and str(v) == "0.0":
                    return "(dzero o)", D
                refuse(e, "float constant %r (only 0.0)" % (v,))
            refuse(e, "constant %r" % (v,))
        if isinstance(e, ast.Name):
            if not isinstance(e.ctx, ast.Load):
                refuse(e, "name in store context")
            if e.id in self.env:
                var = self.env[e.id]
                if var.mut and not allow_mut:
                    refuse(e, "the mutable list %s is used as a value (a second reference to it would exist)" % e.id)
                return cn(e.id), var.t
            refuse(e, "unknown name %s" % e.id)
        if isinstance(e, ast.Attribute):
            return self.attribute(e, binds)
        if isinstance(e, ast.UnaryOp):
            if isinstance(e.op, ast.Not):
                v, t = self.expr(e.operand, binds)
                if t != BOOL:
                    refuse(e, "`not` of a %s (truthiness is outside the grammar)" % (t,))
                return "(negb %s)" % v, BOOL
            if isinstance(e.op, ast.USub) and isinstance(e.operand, ast.Constant) and type(e.operand.value) is int \
                    and e.operand.value > 0:
                return "(-%d)%%Z" % e.operand.value, INT
            refuse(e, "unary operator %s" % type(e.op).__name__)
        if isinstance(e, ast.BinOp):
            if isinstance(e.op, ast.Mult) and isinstance(e.left, ast.List):
                if len(e.left.elts) != 1 or isinstance(e.left.elts[0], ast.Starred):
                    refuse(e, "list display")
                x, tx = self.expr(e.left.elts[0], binds)
                if tx not in (D, V, NAT, INT, BOOL):
                    refuse(e, "[x] * n with x of type %s (the copies would share one object)" % (tx,))
                n = self.nat(e.right, binds)
                return "(repeat %s %s)" % (x, n), TL(tx)
            a = self.expr(e.left, binds)
            b = self.expr(e.right, binds)
            return self.arith(e, e.op, a, b)
        if isinstance(e, ast.Compare):
            if len(e.ops) != 1:
                refuse(e, "chained comparison")
            return self.compare(e, e.ops[0], e.left, e.comparators[0], binds)
        if isinstance(e, ast.BoolOp):
            vs = []
            for j, x in enumerate(e.values):
                n = len(binds)
                vs.append(self.expr(x, binds))
                if j > 0 and len(binds) != n:
                    refuse(x, "effects in a short-circuited operand of and/or")
            if any(t != BOOL for _, t in vs):
                refuse(e, "and/or on non-boolean operands (truthiness is outside the grammar)")
            f = "andb" if isinstance(e.op, ast.And) else "orb"
            out = vs[-1][0]
            for v, _ in reversed(vs[:-1]):
                out = "(%s %s %s)" % (f, v, out)
            return out, BOOL
        if isinstance(e, ast.Subscript):
            if not isinstance(e.ctx, ast.Load):
                refuse(e, "subscript in store context")
            return self.subscript(e, binds)
        if isinstance(e, ast.Tuple):
            if not isinstance(e.ctx, ast.Load) or not 2 <= len(e.elts) <= 3 or any(isinstance(x, ast.Starred) for x in e.elts):
                refuse(e, "tuple display")
            vs = [self.expr(x, binds) for x in e.elts]
            return "(%s)" % ", ".join(v for v, _ in vs), TT(*[t for _, t in vs])
        if isinstance(e, ast.List):
            if not isinstance(e.ctx, ast.Load):
                refuse(e, "list display in store context")
            if not e.elts:
                return "[]", TL(None)
            if len(e.elts) == 1 and isinstance(e.elts[0], ast.List) and not e.elts[0].elts:
                return "[[]]", TL(TL(None))
            refuse(e, "list display other than [] and [[]]")
        if isinstance(e, ast.ListComp):
            return self.comprehension(e, binds)
        if isinstance(e, ast.Call):
            return self.call(e, binds)
        refuse(e, "expression outside the grammar")

    def arith(self, node, op, a, b):
        (x, tx), (y, ty) = a, b
        ints = tx in (NAT, INT) and ty in (NAT, INT)
        if isinstance(op, ast.Add):
            if tx == NAT and ty == NAT:
                return "(%s + %s)" % (x, y), NAT
            if ints:
                return "(%s + %s)%%Z" % (self.to_int(x, tx, node), self.to_int(y, ty, node)), INT
            if tx == D and ty == D:
                return "(dadd o %s %s)" % (x, y), D
        elif isinstance(op, ast.Sub):
            if ints:
                return "(%s - %s)%%Z" % (self.to_int(x, tx, node), self.to_int(y, ty, node)), INT
            if tx == V and ty == V:
                return "(vsub o %s %s)" % (x, y), V
        elif isinstance(op, ast.Mult):
            if tx == NAT and ty == NAT:
                return "(%s * %s)" % (x, y), NAT
            if ints:
                return "(%s * %s)%%Z" % (self.to_int(x, tx, node), self.to_int(y, ty, node)), INT
            if tx == NAT and ty == VF:
                return "(vnorm o %s %s)" % (x, y), V
            if tx == VF and ty == NAT:             # float multiplication is commutative
                return "(vnorm o %s %s)" % (y, x), V
        elif isinstance(op, ast.Div):
            if tx == V and ty == V:
                return "(vdiv o %s %s)" % (x, y), D
        refuse(node, "operator %s on %s and %s" % (type(op).__name__, tx, ty))

    def compare(self, node, op, l, r, binds):
        # nd == 'standard'
        for a, b in ((l, r), (r, l)):
            if isinstance(b, ast.Constant) and isinstance(b.value, str):
                v, t = self.expr(a, binds)
                if t != ND or b.value not in ND_NAMES or not isinstance(op, (ast.Eq, ast.NotEq)):
                    refuse(node, "comparison with the string %r" % (b.value,))
                txt = "(nd_is %s %s)" % (ND_NAMES[b.value], v)
                return (txt if isinstance(op, ast.Eq) else "(negb %s)" % txt), BOOL
        x, tx = self.expr(l, binds)
        y, ty = self.expr(r, binds)
        k = type(op)
        if tx in (NAT, INT) and ty in (NAT, INT):
            if tx == NAT and ty == NAT:
                form = {ast.Eq: "(Nat.eqb %s %s)", ast.NotEq: "(negb (Nat.eqb %s %s))", ast.Lt: "(Nat.ltb %s %s)",
                        ast.LtE: "(Nat.leb %s %s)", ast.Gt: "(Nat.ltb %s %s)", ast.GtE: "(Nat.leb %s %s)"}.get(k)
            else:
                x, y = self.to_int(x, tx, node), self.to_int(y, ty, node)
                form = {ast.Eq: "(Z.eqb %s %s)", ast.NotEq: "(negb (Z.eqb %s %s))", ast.Lt: "(Z.ltb %s %s)",
                        ast.LtE: "(Z.leb %s %s)", ast.Gt: "(Z.ltb %s %s)", ast.GtE: "(Z.leb %s %s)"}.get(k)
            if form is None:
                refuse(node, "comparison %s" % k.__name__)
            return form % ((y, x) if k in (ast.Gt, ast.GtE) else (x, y)), BOOL
        if tx == V and ty == V:
            form = {ast.Eq: "(veqb o %s %s)", ast.NotEq: "(negb (veqb o %s %s))", ast.Lt: "(vltb o %s %s)",
                    ast.Gt: "(vltb o %s %s)"}.get(k)
            if form is None:
                refuse(node, "comparison %s on objective values" % k.__name__)
            return form % ((y, x) if k is ast.Gt else (x, y)), BOOL
        if tx == D and ty == D:
            form = {ast.Lt: "(dltb o %s %s)", ast.Gt: "(dltb o %s %s)"}.get(k)
            if form is None:
                refuse(node, "comparison %s on distances" % k.__name__)
            return form % ((y, x) if k is ast.Gt else (x, y)), BOOL
        refuse(node, "comparison of %s with %s" % (tx, ty))

    def attribute(self, e, binds):
        # x.fitness (the dictionary key of sortNondominated)
        if e.attr == "fitness":
            x, tx = self.expr(e.value, binds)
            if tx != IND or self.rep != "c04":
                refuse(e, ".fitness of a %s" % (tx,))
            return "(C04_NDSort.iw %s)" % x, FIT
        # x.fitness.values / x.fitness.crowding_dist
        if isinstance(e.value, ast.Attribute) and e.value.attr == "fitness":
            x, tx = self.expr(e.value.value, binds)
            if tx != IND or self.rep != "c05":
                refuse(e, ".fitness of a %s" % (tx,))
            if e.attr == "values":
                return "(vals %s)" % x, TL(V)
            if e.attr == "crowding_dist":
                return self.effect(binds, "get_cd %s" % x), D
        refuse(e, "attribute .%s" % e.attr)

    @staticmethod
    def neg_literal(e):
        if isinstance(e, ast.UnaryOp) and isinstance(e.op, ast.USub) and isinstance(e.operand, ast.Constant) \
                and type(e.operand.value) is int and e.operand.value > 0:
            return e.operand.value
        return None

    def subscript(self, e, binds):
        base, tb = self.expr(e.value, binds, allow_mut=True)
        s = e.slice
        if isinstance(s, ast.Slice):
            if not is_list(tb):
                refuse(e, "slice of a %s" % (tb,))
            if s.step is not None:
                refuse(e, "slice with a step")
            bounds = []
            for b in (s.lower, s.upper):
                if b is None:
                    bounds.append("None")
                else:
                    v, t = self.expr(b, binds)
                    bounds.append("(Some %s)" % self.to_int(v, t, b))
            return "(sl %s %s %s)" % (base, bounds[0], bounds[1]), tb
        if isinstance(s, ast.Tuple):
            refuse(e, "multi-dimensional subscript")
        if is_ddict(tb):
            key, tk = self.expr(s, binds)
            if tk != FIT:
                refuse(e, "dictionary key of type %s" % (tk,))
            if isinstance(e.value, ast.Name):
                self.pure_reads.add(e.value.id)     # reading a defaultdict inserts the key: keys() is refused from here on
            return "(C04_NDSort.kget %s %s %s)" % (base, key, self.ddefault(e, tb[1])), tb[1]
        if is_tup(tb):
            n = len(tb[1])
            j = None
            if isinstance(s, ast.Constant) and type(s.value) is int and 0 <= s.value < n:
                j = s.value
            elif self.neg_literal(s) is not None and self.neg_literal(s) <= n:
                j = n - self.neg_literal(s)
            if j is None:
                refuse(e, "tuple subscript that is not a literal within the tuple")
            return proj(base, n, j), tb[1][j]
        if is_list(tb):
            c = self.neg_literal(s)
            if c is not None:
                return self.effect(binds, "getitem_last %s %d" % (base, c)), tb[1]
            i, ti = self.expr(s, binds)
            if ti == NAT:
                return self.effect(binds, "getitem %s %s" % (base, i)), tb[1]
            if ti == INT:
                return self.effect(binds, "getitem_z %s %s" % (base, i)), tb[1]
            refuse(e, "subscript of type %s" % (ti,))
        refuse(e, "subscript of a %s" % (tb,))

    @staticmethod
    def ddefault(node, t):
        if is_list(t):
            return "[]"
        if t == INT:
            return "0%Z"
        refuse(node, "defaultdict of %s" % (t,))

    # ---- iterables ---------------------------------------------------------------------------------------
    def iterable(self, it, binds, sources):
        """-> (coq list, element type); `sources` collects the mutable lists iterated without a copy"""
        if isinstance(it, ast.Call) and isinstance(it.func, ast.Name) and it.func.id not in self.env:
            f = it.func.id
            if it.keywords or any(isinstance(a, ast.Starred) for a in it.args):
                refuse(it, "call with unexpected arguments")
            if f == "range":
                if len(it.args) != 1:
                    refuse(it, "range with %d arguments" % len(it.args))
                v, t = self.expr(it.args[0], binds)
                if t == NAT:
                    return "(seq 0 %s)" % v, NAT
                if t == INT:
                    return "(seq 0 (Z.to_nat %s))" % v, NAT
                refuse(it, "range of a %s" % (t,))
            if f == "enumerate":
                if len(it.args) != 1:
                    refuse(it, "enumerate with %d arguments" % len(it.args))
                xs, t = self.iterable(it.args[0], binds, sources)
                return "(enumerate %s)" % xs, TT(NAT, t)
            if f == "zip":
                if not 2 <= len(it.args) <= 3:
                    refuse(it, "zip of %d arguments" % len(it.args))
                parts = [self.iterable(a, binds, sources) for a in it.args]
                return "(%s %s)" % ("combine" if len(parts) == 2 else "zip3", " ".join(p for p, _ in parts)), \
                    TT(*[t for _, t in parts])
        if isinstance(it, ast.Name) and it.id in self.env and self.env[it.id].mut:
            sources.append(it.id)
        if isinstance(it, ast.Subscript) and isinstance(it.value, ast.Name) and it.value.id in self.env and self.env[it.value.id].mut:
            sources.append(it.value.id)         # a list held by a dictionary / list of lists this function mutates
        v, t = self.expr(it, binds, allow_mut=True)
        if not is_list(t) or t[1] is None:
            refuse(it, "iteration over a %s" % (t,))
        if isinstance(it, ast.Name) and is_list(t[1]) and self.env[it.id].mut:
            refuse(it, "iteration over a list of lists this function mutates")
        return v, t[1]

    def bind_target(self, target, item, t, lets):
        """loop / comprehension target := item of type t; appends (coq name, text) to lets, defines env"""
        if isinstance(target, ast.Name):
            self.define(target, target.id, t, False)
            lets.append(("let", cn(target.id), item))
            return
        if isinstance(target, ast.Tuple) and is_tup(t) and len(target.elts) == len(t[1]) \
                and not any(isinstance(x, ast.Starred) for x in target.elts):
            for j, x in enumerate(target.elts):
                self.bind_target(x, proj(item, len(t[1]), j), t[1][j], lets)
            return
        refuse(target, "loop target does not match the element type %s" % (t,))

    def comprehension(self, e, binds):
        if len(e.generators) != 1:
            refuse(e, "nested comprehension")
        g = e.generators[0]
        if g.ifs or g.is_async:
            refuse(e, "comprehension with a condition")
        xs, t = self.iterable(g.iter, binds, [])
        inner = self.sub()
        item = self.temp("it")
        lets = []
        for n in self.target_names(g.target):
            if n in self.env:
                refuse(g.target, "comprehension variable %s shadows a local" % n)
        inner.bind_target(g.target, item, t, lets)
        b2 = []
        v, tv = inner.expr(e.elt, b2)
        if b2:
            refuse(e.elt, "an element expression that can raise")
        return "(map (fun %s => %s%s) %s)" % (item, "".join("let %s := %s in " % (n, x) for _, n, x in lets), v, xs), TL(tv)

    @staticmethod
    def target_names(t):
        if isinstance(t, ast.Name):
            return [t.id]
        if isinstance(t, ast.Tuple):
            out = []
            for x in t.elts:
                out += FnTr.target_names(x)
            return out
        refuse(t, "target")

    # ---- calls -------------------------------------------------------------------------------------------
    @staticmethod
    def plain_args(e, n):
        if e.keywords or len(e.args) != n or any(isinstance(a, ast.Starred) for a in e.args):
            refuse(e, "call with unexpected arguments")

    def key_function(self, k, elem_t):
        """key=... of sort/sorted -> (coq function A -> M K, K)"""
        if isinstance(k, ast.Lambda):
            a = k.args
            if a.posonlyargs or a.kwonlyargs or a.kw_defaults or a.defaults or a.vararg or a.kwarg or len(a.args) != 1:
                refuse(k, "lambda header")
            name = a.args[0].arg
            if name in self.env or name in BUILTINS or name in EXPECTED or name in self.known:
                refuse(k, "lambda parameter %s shadows another name" % name)
            inner = self.sub()
            inner.define(k, name, elem_t, False)
            b = []
            v, t = inner.expr(k.body, b)
            return "(fun %s => %s)" % (cn(name), emit(b, "ret %s" % v, 0).replace("\n", " ")), t
        if isinstance(k, ast.Call) and isinstance(k.func, ast.Name) and k.func.id == "attrgetter" and "attrgetter" not in self.env:
            self.plain_args(k, 1)
            if not (isinstance(k.args[0], ast.Constant) and k.args[0].value == "fitness.crowding_dist"):
                refuse(k, "attrgetter of something other than 'fitness.crowding_dist'")
            if elem_t != IND:
                refuse(k, "attrgetter('fitness.crowding_dist') on a %s" % (elem_t,))
            x = self.temp("x")
            return "(fun %s => get_cd %s)" % (x, x), D
        refuse(k, "key function outside the grammar")

    def sort_call(self, node, lst, tl, keywords, binds):
        if not is_list(tl):
            refuse(node, "sorting a %s" % (tl,))
        kw = {}
        for k in keywords:
            if k.arg not in ("key", "reverse") or k.arg in kw:
                refuse(node, "sort keyword %s" % k.arg)
            kw[k.arg] = k.value
        if "key" not in kw:
            refuse(node, "sort without key")
        rev = "false"
        if "reverse" in kw:
            r = kw["reverse"]
            if not (isinstance(r, ast.Constant) and isinstance(r.value, bool)):
                refuse(node, "reverse= is not a boolean literal")
            rev = "true" if r.value else "false"
        # CPython evaluates the arguments left to right; key and reverse are effect-free here
        f, kt = self.key_function(kw["key"], tl[1])
        lt = {V: "(vltb o)", D: "(dltb o)", NAT: "Nat.ltb"}.get(kt)
        if lt is None:
            refuse(node, "sort key of type %s" % (kt,))
        return self.effect(binds, "sort_keyM %s %s %s %s" % (lt, f, rev, lst))

    def call(self, e, binds):
        f = e.func
        if isinstance(f, ast.Attribute) and f.attr == "dominates":
            # Fitness.dominates(other) (obj left at its default): property C01's subject, C04's nd_dom
            self.plain_args(e, 1)
            a, ta = self.expr(f.value, binds)
            b, tb = self.expr(e.args[0], binds)
            if ta != FIT or tb != FIT:
                refuse(e, ".dominates on %s and %s" % (ta, tb))
            return "(C04_NDSort.nd_dom %s %s)" % (a, b), BOOL
        if isinstance(f, ast.Name) and f.id not in self.env:
            name = f.id
            if name == "defaultdict":
                self.plain_args(e, 1)
                a = e.args[0]
                if isinstance(a, ast.Name) and a.id == "list" and "list" not in self.env:
                    return "[]", TD(TL(None))
                if isinstance(a, ast.Name) and a.id == "int" and "int" not in self.env:
                    return "[]", TD(INT)
                refuse(e, "defaultdict of something other than list / int")
            if name == "len":
                self.plain_args(e, 1)
                v, t = self.expr(e.args[0], binds, allow_mut=True)
                if not is_list(t):
                    refuse(e, "len of a %s" % (t,))
                return "(length %s)" % v, NAT
            if name == "float":
                self.plain_args(e, 1)
                a = e.args[0]
                if isinstance(a, ast.Constant) and a.value == "inf":
                    return "(dinf o)", D
                v, t = self.expr(a, binds)
                if t != V:
                    refuse(e, "float() of a %s" % (t,))
                return v, VF
            if name in ("min", "max"):
                self.plain_args(e, 2)
                a, ta = self.expr(e.args[0], binds)
                b, tb = self.expr(e.args[1], binds)
                if ta == NAT and tb == NAT:
                    return "(Nat.%s %s %s)" % (name, a, b), NAT
                if ta in (NAT, INT) and tb in (NAT, INT):
                    return "(Z.%s %s %s)" % (name, self.to_int(a, ta, e), self.to_int(b, tb, e)), INT
                refuse(e, "%s of %s and %s" % (name, ta, tb))
            if name == "list":
                self.plain_args(e, 1)
                a = e.args[0]
                if isinstance(a, ast.Call) and isinstance(a.func, ast.Name) and a.func.id == "chain" and "chain" not in self.env:
                    if a.keywords or len(a.args) != 1 or not isinstance(a.args[0], ast.Starred):
                        refuse(a, "chain call that is not chain(*lists)")
                    v, t = self.expr(a.args[0].value, binds)
                    if not (is_list(t) and is_list(t[1])):
                        refuse(a, "chain(*x) with x of type %s" % (t,))
                    return "(concat %s)" % v, t[1]
                if isinstance(a, ast.Call) and isinstance(a.func, ast.Attribute) and a.func.attr == "keys" \
                        and isinstance(a.func.value, ast.Name) and not a.args and not a.keywords:
                    d = a.func.value.id
                    if d not in self.env or not is_ddict(self.env[d].t):
                        refuse(a, ".keys() of something that is not a dictionary")
                    if self.in_loop or d in self.pure_reads:
                        refuse(a, "keys() of a defaultdict after it may have been read (a read inserts the key)")
                    return "(C04_NDSort.kkeys %s)" % cn(d), TL(FIT)
                v, t = self.expr(a, binds, allow_mut=True)
                if not is_list(t):
                    refuse(e, "list() of a %s" % (t,))
                return v, t
            if name == "sorted":
                if len(e.args) != 1 or isinstance(e.args[0], ast.Starred):
                    refuse(e, "sorted call")
                v, t = self.expr(e.args[0], binds, allow_mut=True)
                return self.sort_call(e, v, t, e.keywords, binds), t
            if name in PARAM_FUNCS and name in self.known:
                ats, rt = PARAM_FUNCS[name]
                self.plain_args(e, len(ats))
                args = []
                for a, want in zip(e.args, ats):
                    v, t = self.expr(a, binds)
                    if want == INT and t == NAT:
                        v, t = self.to_int(v, t, a), INT
                    if t != want:
                        refuse(a, "argument of type %s, expected %s" % (t, want))
                    args.append(v)
                return self.effect(binds, "lift (p_%s %s)" % (name, " ".join(args))), rt
            for fn in FUNCS:
                if fn[0] == name and name in self.known and name != self.fname and fn[5] == self.rep:
                    self.plain_args(e, len(fn[1]))
                    args = []
                    for a, (_, want) in zip(e.args, fn[1]):
                        v, t = self.expr(a, binds, allow_mut=True)
                        if t != want:
                            refuse(a, "argument of type %s, expected %s" % (t, want))
                        args.append(v)
                    return self.effect(binds, "gen_%s %s" % (name, " ".join(args))), fn[3]
            refuse(e, "call of %s" % name)
        refuse(e, "call outside the grammar")

    # ---- statements --------------------------------------------------------------------------------------
    def define(self, node, name, t, mut):
        if name in BUILTINS or name in EXPECTED or name in self.known:
            refuse(node, "%s, a name of fixed meaning, is rebound" % name)
        if t in (UNIT, VF):
            refuse(node, "a local of type %s" % (t,))
        self.env[name] = Var(t, mut)

    @staticmethod
    def is_fresh(e):
        if isinstance(e, (ast.ListComp, ast.List)):
            return True
        if isinstance(e, ast.BinOp) and isinstance(e.op, ast.Mult) and isinstance(e.left, ast.List):
            return True
        if isinstance(e, ast.Subscript) and isinstance(e.slice, ast.Slice):
            return True
        if isinstance(e, ast.Call) and isinstance(e.func, ast.Name) and e.func.id in ("list", "sorted", "defaultdict"):
            return True
        return False

    @staticmethod
    def terminates(stmts):
        if not stmts:
            return False
        s = stmts[-1]
        if isinstance(s, (ast.Return, ast.Raise, ast.Continue)):
            return True
        if isinstance(s, ast.If):
            return FnTr.terminates(s.body) and FnTr.terminates(s.orelse)
        return False

    def assigned(self, stmts):
        """python names a statement list may (re)bind or mutate, in first-seen order"""
        out = []

        def add(v):
            if v not in out:
                out.append(v)

        def target(t):
            if isinstance(t, ast.Name):
                add(t.id)
            elif isinstance(t, ast.Subscript):
                if not isinstance(t.value, ast.Name):
                    refuse(t, "item assignment to something that is not a local list")
                add(t.value.id)
            elif isinstance(t, ast.Tuple):
                for x in t.elts:
                    target(x)
            elif isinstance(t, ast.Attribute):
                pass                          # the attribute table is the monad's state
            else:
                refuse(t, "assignment target")
        for s in stmts:
            if isinstance(s, ast.Assign):
                for t in s.targets:
                    target(t)
            elif isinstance(s, ast.AugAssign):
                target(s.target)
            elif isinstance(s, ast.If):
                for v in self.assigned(s.body) + self.assigned(s.orelse):
                    add(v)
            elif isinstance(s, (ast.For, ast.While)):
                if isinstance(s, ast.For):
                    target(s.target)
                for v in self.assigned(s.body):
                    add(v)
            elif isinstance(s, ast.Expr):
                c = s.value
                if isinstance(c, ast.Call) and isinstance(c.func, ast.Attribute) and c.func.attr in ("sort", "append", "extend"):
                    b = c.func.value
                    if isinstance(b, ast.Subscript):
                        b = b.value
                    if isinstance(b, ast.Name):
                        add(b.id)
            elif isinstance(s, (ast.Pass, ast.Return, ast.Raise, ast.Continue)):
                pass
            else:
                refuse(s, "statement outside the grammar")
        return out

    def mutable_list(self, node, name):
        if name not in self.env or not self.env[name].mut:
            refuse(node, "%s is not a list / dictionary this function created (it may be shared)" % name)
        return self.env[name]

    def refine(self, node, name, t):
        """the type of `name` becomes the unifier of its type and t (an empty list display learns its element type)"""
        try:
            self.env[name].t = unify(self.env[name].t, t)
        except ValueError:
            refuse(node, "%s of type %s used as %s" % (name, self.env[name].t, t))
        return self.env[name].t

    def assign(self, s):
        """Assign / AugAssign -> list of binds; updates env"""
        binds = []
        if isinstance(s, ast.AugAssign):
            t = s.target
            if isinstance(t, ast.Name):
                old = self.expr(ast.copy_location(ast.Name(id=t.id, ctx=ast.Load()), t), binds)
                new = self.arith(s, s.op, old, self.expr(s.value, binds))
                self.define(s, t.id, new[1], False)
                binds.append(("let", cn(t.id), new[0]))
                return binds
            if isinstance(t, ast.Subscript):
                if not isinstance(t.value, ast.Name) or isinstance(t.slice, (ast.Slice, ast.Tuple)):
                    refuse(s, "augmented assignment target")
                var = self.mutable_list(t, t.value.id)
                l = cn(t.value.id)
                if is_ddict(var.t):
                    # d[key] op= e on a defaultdict: the old value (default when absent) first, then e, then the store
                    key, tk = self.expr(t.slice, binds)
                    if tk != FIT:
                        refuse(s, "dictionary key of type %s" % (tk,))
                    old = "(C04_NDSort.kget %s %s %s)" % (l, key, self.ddefault(s, var.t[1]))
                    new = self.arith(s, s.op, (old, var.t[1]), self.expr(s.value, binds))
                    if new[1] != var.t[1]:
                        refuse(s, "value of type %s stored into a dictionary of %s" % (new[1], var.t[1]))
                    binds.append(("let", l, "(C04_NDSort.kset %s %s %s)" % (l, key, new[0])))
                    return binds
                i = self.nat(t.slice, binds)
                old = self.effect(binds, "getitem %s %s" % (l, i))
                new = self.arith(s, s.op, (old, var.t[1]), self.expr(s.value, binds))
                if new[1] != var.t[1]:
                    refuse(s, "item of type %s stored into a list of %s" % (new[1], var.t[1]))
                binds.append(("bind", l, "setitem %s %s %s" % (l, i, new[0])))
                return binds
            refuse(s, "augmented assignment target")
        if len(s.targets) != 1:
            refuse(s, "multiple assignment")
        t = s.targets[0]
        if isinstance(t, ast.Tuple):
            if not isinstance(s.value, ast.Tuple) or len(s.value.elts) != len(t.elts) or \
                    any(not isinstance(x, ast.Name) for x in t.elts) or any(isinstance(x, ast.Starred) for x in s.value.elts):
                refuse(s, "tuple assignment that is not name-by-name")
            vals = []
            for v in s.value.elts:
                x, xt = self.expr(v, binds)
                if is_list(xt):
                    refuse(v, "tuple assignment of lists")
                y = self.temp()
                binds.append(("let", y, x))       # freeze: a later target may shadow what the text refers to
                vals.append((y, xt))
            for tg, (y, yt) in zip(t.elts, vals):
                self.define(s, tg.id, yt, False)
                binds.append(("let", cn(tg.id), y))
            return binds
        v, vt = self.expr(s.value, binds)
        if isinstance(t, ast.Name):
            sv = s.value
            if isinstance(sv, ast.Subscript) and not isinstance(sv.slice, ast.Slice) and isinstance(sv.value, ast.Name) \
                    and sv.value.id in self.env and self.env[sv.value.id].mut and (is_list(vt) or is_ddict(vt)):
                refuse(s, "a second reference to a list held by the mutable %s" % sv.value.id)
            if is_ddict(vt) and not self.is_fresh(sv):
                refuse(s, "a second reference to a dictionary")
            self.define(s, t.id, vt, (is_list(vt) or is_ddict(vt)) and self.is_fresh(sv))
            binds.append(("let", cn(t.id), v))
            return binds
        if isinstance(t, ast.Subscript):
            if not isinstance(t.value, ast.Name) or isinstance(t.slice, (ast.Slice, ast.Tuple)):
                refuse(s, "item assignment target")
            var = self.mutable_list(t, t.value.id)
            l = cn(t.value.id)
            if self.neg_literal(t.slice) is not None:
                refuse(t, "item assignment at a negative index")
            i = self.nat(t.slice, binds)
            if not is_list(var.t) or vt != var.t[1] or is_list(vt):
                refuse(s, "item of type %s stored into %s" % (vt, var.t))
            binds.append(("bind", l, "setitem %s %s %s" % (l, i, v)))
            return binds
        if isinstance(t, ast.Attribute):
            if not (t.attr == "crowding_dist" and isinstance(t.value, ast.Attribute) and t.value.attr == "fitness"):
                refuse(t, "assignment to attribute .%s" % t.attr)
            x, tx = self.expr(t.value.value, binds)
            if tx != IND or vt != D:
                refuse(s, "crowding_dist of a %s set to a %s" % (tx, vt))
            binds.append(("bind", self.temp("u"), "set_cd %s %s" % (x, v)))
            return binds
        refuse(t, "assignment target")

    def method_stmt(self, s, c):
        """l.sort(...) / l.append(e) / l.extend(e) on a list this function created; d[key].append(e) on a
        defaultdict(list) it created; l[-1].append(e) / l[-1].extend(e) on a list of lists it created"""
        f = c.func
        binds = []
        if isinstance(f.value, ast.Subscript) and isinstance(f.value.value, ast.Name) and f.attr in ("append", "extend"):
            name = f.value.value.id
            var = self.mutable_list(s, name)
            l = cn(name)
            self.plain_args(c, 1)
            if any(isinstance(n, ast.Name) and n.id == name for n in ast.walk(c.args[0])):
                refuse(s, "%s is modified with a value computed from itself" % name)
            if is_ddict(var.t) and is_list(var.t[1]):
                key, tk = self.expr(f.value.slice, binds)
                if tk != FIT:
                    refuse(s, "dictionary key of type %s" % (tk,))
                old = "(C04_NDSort.kget %s %s [])" % (l, key)
                inner = var.t[1]
                setter = lambda new: ("let", l, "(C04_NDSort.kset %s %s %s)" % (l, key, new))
            elif is_list(var.t) and is_list(var.t[1]) and self.neg_literal(f.value.slice) is not None:
                j = self.neg_literal(f.value.slice)
                old = self.effect(binds, "getitem_last %s %d" % (l, j))
                inner = var.t[1]
                setter = lambda new: ("bind", l, "setitem_last %s %d %s" % (l, j, new))
            else:
                refuse(s, "method call on an item of %s" % name)
            if f.attr == "append":
                v, t = self.expr(c.args[0], binds)
                if is_list(t) or is_ddict(t) or not same_type(TL(t), inner):
                    refuse(s, "append of a %s to a list of %s" % (t, inner[1]))
                inner = unify(inner, TL(t))
                binds.append(setter("(%s ++ [%s])" % (old, v)))
            else:
                v, t = self.expr(c.args[0], binds, allow_mut=True)
                if not is_list(t) or is_list(t[1]) or not same_type(t, inner):
                    refuse(s, "extend of a list of %s by a %s" % (inner[1], t))
                inner = unify(inner, t)
                binds.append(setter("(%s ++ %s)" % (old, v)))
            self.refine(s, name, (var.t[0], inner))
            return binds
        if not isinstance(f.value, ast.Name):
            refuse(s, "method call on something that is not a local")
        name = f.value.id
        var = self.mutable_list(s, name)
        if not is_list(var.t):
            refuse(s, "method .%s of a %s" % (f.attr, var.t))
        l = cn(name)
        if f.attr == "sort":
            if c.args:
                refuse(s, "sort with positional arguments")
            r = self.sort_call(s, l, var.t, c.keywords, binds)
            binds.append(("let", l, r))
            return binds
        if f.attr == "append":
            self.plain_args(c, 1)
            if any(isinstance(n, ast.Name) and n.id == name for n in ast.walk(c.args[0])):
                refuse(s, "%s is modified with a value computed from itself" % name)
            v, t = self.expr(c.args[0], binds)
            if is_ddict(t) or (is_list(t) and not self.is_fresh(c.args[0])) or not same_type(TL(t), var.t):
                refuse(s, "append of a %s to a list of %s" % (t, var.t[1]))
            self.refine(s, name, TL(t))
            binds.append(("let", l, "(%s ++ [%s])" % (l, v)))
            return binds
        if f.attr == "extend":
            self.plain_args(c, 1)
            if any(isinstance(n, ast.Name) and n.id == name for n in ast.walk(c.args[0])):
                refuse(s, "a list extended by itself")
            v, t = self.expr(c.args[0], binds, allow_mut=True)
            if not is_list(t) or is_list(t[1]) or not same_type(t, var.t):
                refuse(s, "extend of a %s by a %s" % (var.t, t))
            self.refine(s, name, t)
            binds.append(("let", l, "(%s ++ %s)" % (l, v)))
            return binds
        refuse(s, "method .%s" % f.attr)

    def block(self, stmts, fall, ind):
        """Gallina text of type M o _ for the statement list; fall(tr) = text when control falls off the end"""
        if not stmts:
            return pad(ind) + fall(self)
        s, rest = stmts[0], stmts[1:]
        if isinstance(s, ast.Expr):
            c = s.value
            if isinstance(c, ast.Constant) and isinstance(c.value, str):
                return self.block(rest, fall, ind)
            if isinstance(c, ast.Call) and isinstance(c.func, ast.Attribute):
                return emit(self.method_stmt(s, c), self.block(rest, fall, ind), ind)
            if isinstance(c, ast.Call) and isinstance(c.func, ast.Name):
                binds = []
                v, t = self.call(c, binds)
                if t != UNIT or not binds or binds[-1][1] != v:
                    refuse(s, "expression statement whose value is discarded")
                return emit(binds, self.block(rest, fall, ind), ind)
            refuse(s, "expression statement")
        if isinstance(s, ast.Pass):
            return self.block(rest, fall, ind)
        if isinstance(s, ast.Return):
            if rest:
                refuse(rest[0], "unreachable statement")
            if self.in_loop:
                refuse(s, "return inside a loop")
            if s.value is None or (isinstance(s.value, ast.Constant) and s.value.value is None):
                if self.rettype != UNIT:
                    refuse(s, "return without a value")
                return pad(ind) + "ret tt"
            binds = []
            v, t = self.expr(s.value, binds, allow_mut=True)
            if not same_type(t, self.rettype):
                refuse(s, "return of a %s, expected %s" % (t, self.rettype))
            return emit(binds, pad(ind) + "ret %s" % v, ind)
        if isinstance(s, ast.Continue):
            if rest:
                refuse(rest[0], "unreachable statement")
            if not self.in_loop:
                refuse(s, "continue outside a loop")
            return pad(ind) + self.cont(self)
        if isinstance(s, ast.Raise):
            if rest:
                refuse(rest[0], "unreachable statement")
            x = s.exc
            if s.cause is not None or x is None:
                refuse(s, "raise form")
            if isinstance(x, ast.Call):
                if x.keywords:
                    refuse(s, "exception arguments")
                for a in x.args:
                    self.harmless_message(a)
                x = x.func
            if not (isinstance(x, ast.Name) and x.id in EXC_NAMES and x.id not in self.env):
                refuse(s, "exception type")
            return pad(ind) + "raise"
        if isinstance(s, ast.Assign) and self.is_move(s, rest):
            # a = b ; b = <fresh list>: the list moves from b to a, no second reference survives the pair
            src, dst = s.value.id, s.targets[0].id
            var = self.env[src]
            self.define(s, dst, var.t, True)
            return emit([("let", cn(dst), cn(src))], self.block(rest, fall, ind), ind)
        if isinstance(s, (ast.Assign, ast.AugAssign)):
            b = self.assign(s)
            return emit(b, self.block(rest, fall, ind), ind)
        if isinstance(s, ast.If):
            return self.if_stmt(s, rest, fall, ind)
        if isinstance(s, ast.For):
            return self.for_stmt(s, rest, fall, ind)
        if isinstance(s, ast.While):
            return self.while_stmt(s, rest, fall, ind)
        refuse(s, "statement outside the grammar")

    def is_move(self, s, rest):
        if not (len(s.targets) == 1 and isinstance(s.targets[0], ast.Name) and isinstance(s.value, ast.Name)):
            return False
        src, dst = s.value.id, s.targets[0].id
        if src == dst or src not in self.env or not self.env[src].mut or not is_list(self.env[src].t) or not rest:
            return False
        n = rest[0]
        return (isinstance(n, ast.Assign) and len(n.targets) == 1 and isinstance(n.targets[0], ast.Name)
                and n.targets[0].id == src and self.is_fresh(n.value)
                and not any(isinstance(x, ast.Name) and x.id in (src, dst) for x in ast.walk(n.value)))

    def harmless_message(self, a):
        """argument of an exception constructor: a string literal, possibly .format()ed with plain locals"""
        if isinstance(a, ast.Constant) and isinstance(a.value, str):
            return
        if isinstance(a, ast.Call) and isinstance(a.func, ast.Attribute) and a.func.attr == "format" and not a.keywords \
                and isinstance(a.func.value, ast.Constant) and isinstance(a.func.value.value, str) \
                and all(isinstance(x, ast.Name) and x.id in self.env for x in a.args):
            return
        refuse(a, "exception message outside the grammar")

    def state(self, names):
        """coq tuple of the current values of the python variables `names`"""
        return tup([cn(n) for n in names])

    def unpack(self, names, src):
        return [("let", cn(n), proj(src, len(names), j)) for j, n in enumerate(names)] if len(names) != 1 \
            else [("let", cn(names[0]), src)]

    def check_same(self, node, names, snapshot, tr):
        """a loop-carried / joined variable keeps its type (an empty list display may learn its element type: the
        snapshot is refined) and its sharing status"""
        for n in names:
            v = tr.env.get(n)
            if v is None or v.mut != snapshot[n][1] or not same_type(v.t, snapshot[n][0]):
                refuse(node, "variable %s changes type or sharing along the way" % n)
            snapshot[n] = (unify(v.t, snapshot[n][0]), v.mut)

    def if_stmt(self, s, rest, fall, ind):
        binds = []
        c, tc = self.expr(s.test, binds)
        if tc != BOOL:
            refuse(s, "condition of type %s (truthiness is outside the grammar)" % (tc,))
        a, b = self.sub(), self.sub()
        tb, te = self.terminates(s.body), self.terminates(s.orelse)
        if tb or te:
            if tb and te and rest:
                refuse(rest[0], "unreachable statement")
            ta = a.block(list(s.body) + ([] if tb else list(rest)), fall, ind + 1)
            tb_ = b.block(list(s.orelse) + ([] if te else list(rest)), fall, ind + 1)
            return emit(binds, pad(ind) + "if %s then (\n%s\n%s) else (\n%s\n%s)" % (c, ta, pad(ind), tb_, pad(ind)), ind)
        # neither branch terminates: thread the variables assigned in a branch that exist before it, or that
        # every path through the statement defines (with one type)
        cand = self.assigned(s.body)
        for v in self.assigned(s.orelse):
            if v not in cand:
                cand.append(v)
        envs = []

        def out(tr):
            envs.append(tr.env)
            return "@@JOIN@@"
        ta = a.block(list(s.body), out, ind + 1)
        tb_ = b.block(list(s.orelse), out, ind + 1)
        vs = [v for v in self.env if v in cand] + [v for v in cand if v not in self.env and all(v in e for e in envs)]
        for v in vs:
            cands = [(e[v].t, e[v].mut) for e in envs] + ([(self.env[v].t, self.env[v].mut)] if v in self.env else [])
            try:
                t = cands[0][0]
                for c2 in cands[1:]:
                    t = unify(t, c2[0])
            except ValueError:
                t = None
            if t is None or len(set(m for _, m in cands)) != 1:
                refuse(s, "variable %s has different types or sharing on the paths through the statement" % v)
            self.env[v] = Var(t, cands[0][1])
        st = self.temp("st")
        txt = pad(ind) + "%s <- (if %s then (\n%s\n%s) else (\n%s\n%s)) ;;\n" % (st, c, ta, pad(ind), tb_, pad(ind))
        txt = txt.replace("@@JOIN@@", "ret %s" % self.state(vs))
        return emit(binds, txt + emit(self.unpack(vs, st), self.block(rest, fall, ind), ind), ind)

    def for_stmt(self, s, rest, fall, ind):
        if s.orelse:
            refuse(s, "for ... else")
        for n in ast.walk(s):
            if isinstance(n, ast.Break):
                refuse(n, "break")
        binds = []
        sources = []
        xs, et = self.iterable(s.iter, binds, sources)
        carried_all = self.assigned(s.body)
        for src in sources:
            if src in carried_all:
                refuse(s, "the loop modifies the list %s it iterates over" % src)
        tnames = self.target_names(s.target)
        if len(set(tnames)) != len(tnames):
            refuse(s.target, "repeated name in loop target")
        for n in tnames:
            if n in self.env:
                refuse(s.target, "loop target %s shadows a variable" % n)
        carried = [v for v in self.env if v in carried_all]
        snap = {v: (self.env[v].t, self.env[v].mut) for v in carried}
        body = self.sub(in_loop=True)
        item, st = self.temp("it"), self.temp("st")
        lets = body.unpack(carried, st) if carried else []
        body.bind_target(s.target, item, et, lets)

        def again(tr):
            self.check_same(s, carried, snap, tr)
            return "ret %s" % tr.state(carried)
        body.cont = again
        btxt = emit(lets, body.block(list(s.body), again, ind + 2), ind + 2)
        st2 = self.temp("st")
        txt = pad(ind) + "%s <- for_list %s (fun %s %s =>\n%s)\n%s  %s ;;\n" % (
            st2, xs, item, st if carried else "_", btxt, pad(ind), self.state(carried))
        after = self.unpack(carried, st2) if carried else []
        for v in carried:
            self.env[v].t = snap[v][0]
        return emit(binds, txt + emit(after, self.block(rest, fall, ind), ind), ind)

    def while_stmt(self, s, rest, fall, ind):
        if s.orelse:
            refuse(s, "while ... else")
        for n in ast.walk(s):
            if isinstance(n, (ast.Break, ast.Continue)):
                refuse(n, "break / continue in a while loop")
        if self.fuel is None:
            refuse(s, "while loop in a function the signature table gives no fuel for")
        fb = []
        try:
            fuel = self.nat(ast.parse(self.fuel, mode="eval").body, fb)
        except Refuse as r:
            refuse(s, "the fuel expression %s of the signature table cannot be evaluated here (%s)" % (self.fuel, r.why))
        if fb:
            refuse(s, "the fuel expression has effects")
        carried_all = self.assigned(s.body)
        carried = [v for v in self.env if v in carried_all]
        snap = {v: (self.env[v].t, self.env[v].mut) for v in carried}
        st = self.temp("st")
        cond = self.sub(in_loop=True)
        cb = []
        c, tc = cond.expr(s.test, cb)
        if cb or tc != BOOL:
            refuse(s.test, "loop condition with effects / of type %s" % (tc,))
        lets = self.unpack(carried, st) if carried else []
        ctxt = "".join("let %s := %s in " % (n, x) for _, n, x in lets) + c
        body = self.sub(in_loop=True)

        def again(tr):
            self.check_same(s, carried, snap, tr)
            return "ret %s" % tr.state(carried)
        body.cont = again
        btxt = emit(lets, body.block(list(s.body), again, ind + 2), ind + 2)
        st2 = self.temp("st")
        txt = pad(ind) + "%s <- while_fuel %s (fun %s => %s) (fun %s =>\n%s)\n%s  %s ;;\n" % (
            st2, fuel, st if carried else "_", ctxt, st if carried else "_", btxt, pad(ind), self.state(carried))
        after = self.unpack(carried, st2) if carried else []
        for v in carried:
            self.env[v].t = snap[v][0]
        return emit(binds_none(), txt + emit(after, self.block(rest, fall, ind), ind), ind)


def pad(ind):
    return "  " * ind


def binds_none():
    return []


def emit(binds, tail, ind):
    out = ""
    for kind, name, txt in binds:
        out += pad(ind) + ("%s <- %s ;;\n" % (name, txt) if kind == "bind" else "let %s := %s in\n" % (name, txt))
    return out + tail


# ---- module level ----------------------------------------------------------------------------------------
def check_module(tree, wanted):
    """names of fixed meaning must be bound at module level exactly as expected; each wanted function (and each
    function they call) is defined exactly once at module level by a plain def"""
    top = {}
    for n in tree.body:
        if isinstance(n, ast.Import):
            for a in n.names:
                top.setdefault((a.asname or a.name).split(".")[0], []).append(("import", None, a.name, n))
        elif isinstance(n, ast.ImportFrom):
            for a in n.names:
                if a.name == "*":
                    refuse(n, "star import")
                top.setdefault(a.asname or a.name, []).append(("from", n.module, a.name, n))
        elif isinstance(n, (ast.FunctionDef, ast.AsyncFunctionDef, ast.ClassDef)):
            top.setdefault(n.name, []).append(("def", None, None, n))
        elif isinstance(n, ast.Expr) and isinstance(n.value, ast.Constant):
            pass
        else:
            for t in ast.walk(n):
                if isinstance(t, ast.Name) and isinstance(t.ctx, (ast.Store, ast.Del)):
                    top.setdefault(t.id, []).append(("assign", None, None, n))
                elif isinstance(t, (ast.Import, ast.ImportFrom, ast.FunctionDef, ast.AsyncFunctionDef, ast.ClassDef)):
                    refuse(t, "conditional module-level binding")
    for n in ast.walk(tree):
        if isinstance(n, (ast.Global, ast.Nonlocal)):
            refuse(n, "global/nonlocal declaration")
    for b in BUILTINS:
        if b in top:
            refuse(top[b][0][3], "builtin %s is rebound at module level" % b)
    for nm, (kind, mod, orig) in EXPECTED.items():
        bs = top.get(nm, [])
        if len(bs) != 1 or bs[0][:3] != (kind, mod, orig):
            refuse(bs[0][3] if bs else "Module", "%s is not bound exactly once by `from %s import %s`" % (nm, mod, orig))
    defs = {}
    for name in wanted:
        ds = top.get(name, [])
        if len(ds) != 1 or ds[0][0] != "def" or not isinstance(ds[0][3], ast.FunctionDef):
            defs[name] = Refuse("Module", "%s is bound %d times at module level / not by a plain def" % (name, len(ds)))
        else:
            defs[name] = ds[0][3]
    return top, defs


FORBIDDEN = (ast.Global, ast.Nonlocal, ast.Try, ast.With, ast.Yield, ast.YieldFrom, ast.Await, ast.ClassDef, ast.Import,
             ast.ImportFrom, ast.Delete, ast.NamedExpr, ast.FunctionDef, ast.AsyncFunctionDef, ast.AsyncFor, ast.AsyncWith,
             ast.Assert, ast.SetComp, ast.DictComp, ast.GeneratorExp, ast.IfExp, ast.JoinedStr, ast.Dict, ast.Set)


def check_function(fn, params, defaults, known):
    a = fn.args
    if fn.decorator_list or a.posonlyargs or a.kwonlyargs or a.kw_defaults or a.vararg or a.kwarg or fn.returns:
        refuse(fn, "function header")
    names = [x.arg for x in a.args]
    if names != [p for p, _ in params] or any(x.annotation is not None for x in a.args):
        refuse(fn, "parameters %r, expected %r" % (names, [p for p, _ in params]))
    got = dict(zip(names[len(names) - len(a.defaults):], a.defaults))
    if set(got) != set(defaults) or any(not (isinstance(got[k], ast.Constant) and type(got[k].value) is type(v) and got[k].value == v)
                                        for k, v in defaults.items()):
        refuse(fn, "default values of the parameters")
    for n in ast.walk(fn):
        if n is not fn and isinstance(n, FORBIDDEN):
            refuse(n, "%s inside a translated function" % type(n).__name__)
        if isinstance(n, ast.Name) and isinstance(n.ctx, (ast.Store, ast.Del)) and (
                n.id in BUILTINS or n.id in EXPECTED or n.id in known):
            refuse(n, "%s, a name of fixed meaning, is rebound inside the function" % n.id)
        if isinstance(n, ast.arg) and (n.arg in BUILTINS or n.arg in EXPECTED or n.arg in known):
            refuse(n, "parameter %s shadows a name of fixed meaning" % n.arg)


def signature(params, rep="c05"):
    return " ".join("(%s : %s)" % (cn(p), coqtype(t, rep)) for p, t in params)


def translate_function(fn, name, params, defaults, rettype, known, rep="c05", fuel=None):
    check_function(fn, params, defaults, known)
    tr = FnTr(name, rettype, known, None, rep, fuel)
    for p, t in params:
        tr.env[p] = Var(t, False)

    def end(t):
        if rettype != UNIT:
            refuse(fn, "control reaches the end of the function without return")
        return "ret tt"
    body = tr.block(list(fn.body), end, 2)
    return "  Definition gen_%s %s : M o (%s) :=\n%s.\n" % (name, signature(params, rep), coqtype(rettype, rep), body)


HEADER = """(* GENERATED by harness/c05_py2coq.py from %s -- do not edit, never committed *)
From Coq Require Import List Bool Arith ZArith.
From DV Require Import Base.PyList Base.C05_Sort Model.C05_Nsga2 Model.C05_Full Model.C05_GenRt.
From DV Require Model.C04_NDSort.
Import ListNotations.
Local Open Scope nat_scope.
Local Open Scope c05m_scope.

Section Gen.
  Variable o : numops.
  (* the two sorting back-ends selNSGA2 calls: parameters of the regenerated selNSGA2 *)
  Variable p_sortNondominated p_sortLogNondominated : sorter o.

"""


def translate_source(src, origin="deap/tools/emo.py"):
    """source text of emo.py -> (Gallina text, {function: None | Refuse}).  A refused function gets the hand model
    as a placeholder definition (reported by the caller)."""
    wanted = [f[0] for f in FUNCS]
    known = set(wanted) | set(PARAM_FUNCS)
    try:
        tree = ast.parse(src)
        top, defs = check_module(tree, sorted(known))
    except (SyntaxError, ValueError, RecursionError, MemoryError) as e:
        r = Refuse("Module", "source does not parse: %s" % e)
        defs = {w: r for w in known}
    except Refuse as r:
        defs = {w: r for w in known}
    out = HEADER % origin
    status = {}
    for name, params, defaults, rettype, model, indrep, fuel in FUNCS:
        try:
            if isinstance(defs[name], Refuse):
                raise defs[name]
            for other in known:
                if isinstance(defs[other], Refuse) and any(isinstance(n, ast.Name) and n.id == other for n in ast.walk(defs[name])):
                    raise defs[other]
            text = translate_function(defs[name], name, params, defaults, rettype, known, indrep, fuel)
            status[name] = None
        except Refuse as r:
            status[name] = r
            text = "  (* REFUSED %s: %s -- placeholder: the hand model, tied by the correspondence only *)\n" \
                   "  Definition gen_%s %s : M o (%s) :=\n    %s.\n" % (
                       name, str(r).replace("*)", "* )").replace("(*", "( *"), name, signature(params, indrep), coqtype(rettype, indrep), model)
        except Exception as e:  # noqa  (a translator crash on an unforeseen construct is a refusal: fail closed)
            status[name] = Refuse("FunctionDef", "translator error %s: %s" % (type(e).__name__, e))
            text = "  (* REFUSED %s: translator error -- placeholder: the hand model *)\n" \
                   "  Definition gen_%s %s : M o (%s) :=\n    %s.\n" % (name, name, signature(params, indrep), coqtype(rettype, indrep), model)
        out += text + "\n"
    out += "End Gen.\n" + TRAILER
    return out, status


TRAILER = """
(* sortNondominated(individuals, k) as selNSGA2 calls it (first_front_only left at its default), through the bridge
   of Model/C05_Full.v: the sorter sees (identity, weighted values), the result is read back as the population's
   individuals with those identities.  The 'standard' back-end of the regenerated selNSGA2. *)
Definition gen_std_sorter (o : numops) : sorter o :=
  fun pop k =>
    match gen_sortNondominated o (pop4 pop) k false (fun _ => None) with
    | Some (fs, _) => Some (map (back pop) fs)
    | None => None
    end.

(* correspondence entry point: the same cases as Corr.C05.check, run through the regenerated definitions.
   The attribute table starts as the harness observed it before the call (stale crowding_dist values) and must end
   as observed after it; the selection is compared in order.  Twice for a selNSGA2 call: over the fronts the
   implementation's sorter returned during the call, and end to end over the regenerated sortNondominated
   ('standard'; its fronts must be the recorded ones, order inside fronts included) / C04's model of the log-time sorter. *)
From DV Require Import Base.Corr Corr.C05.
Section GenRunner.
  Variable o : numops.
  Variable deq : D o -> D o -> bool.

  Definition tab_of (init : list (option (D o))) : cdtab o := fun u => nth u init None.

  Definition gen_run_sel (k : nat) (pop : list (list Z * list (V o))) (fu : list (list nat)) (obs_sel : list nat)
             (init_cd obs_cd : list (option (D o))) (cmp_sel std : bool) : bool :=
    let p := mkpop pop in
    let fronts := map (select p) fu in
    let s : sorter o := fun _ _ => Some fronts in
    match gen_selNSGA2 o s s p (Z.of_nat k) (nd_of std) (tab_of init_cd) with
    | Some (r, t') => (negb cmp_sel || list_eqb Nat.eqb (map uid r) obs_sel) &&
                      list_eqb (option_eqb deq) (map t' (seq 0 (length p))) obs_cd
    | None => false
    end &&
    match gen_selNSGA2 o (gen_std_sorter o) (model_sorter o NdLog) p (Z.of_nat k) (nd_of std) (tab_of init_cd) with
    | Some (r, t') => (negb cmp_sel || list_eqb Nat.eqb (map uid r) obs_sel) &&
                      list_eqb (option_eqb deq) (map t' (seq 0 (length p))) obs_cd
    | None => false
    end &&
    (negb std ||
     match gen_std_sorter o p (Z.of_nat k) with
     | Some fr => list_eqb (list_eqb Nat.eqb) (map uids fr) fu
     | None => false
     end).

  Definition gen_run_crowd (vals : list (list (V o))) (obs : list (D o)) : bool :=
    match gen_assignCrowdingDist o (mkpop (map (fun v => ([], v)) vals)) (fun _ => None) with
    | Some (_, t') => list_eqb (option_eqb deq) (map t' (seq 0 (length vals))) (map Some obs)
    | None => false
    end.
End GenRunner.

Definition check_gen (c : case) : bool :=
  match c with
  | CSelF std k pop fu s ic cd => gen_run_sel f_ops feqb k pop fu s ic cd true std
  | CSelQ exact std k pop fu s ic cd =>
      gen_run_sel q_ops (if exact then qinf_eqb else qinf_close) k pop fu s ic cd exact std
  | CCrowdF vals obs => gen_run_crowd f_ops feqb vals obs
  | CCrowdQ exact vals obs => gen_run_crowd q_ops (if exact then qinf_eqb else qinf_close) vals obs
  | CFullQ nd k pop obs =>
      option_eqb (list_eqb Nat.eqb)
        (option_map (fun rt => map uid (fst rt))
           (gen_selNSGA2 q_ops (gen_std_sorter q_ops) (model_sorter q_ops NdLog) (mkpop pop) (Z.of_nat k)
                         (nd_of_nat nd) (fun _ => None))) obs
  end.
Definition check_both (c : case) : bool := check c && check_gen c.
"""


def translate_repo(repo):
    path = os.path.join(repo, *EMO)
    try:
        src = open(path).read()
    except (OSError, UnicodeDecodeError) as e:
        src = "\x00 unreadable: %s" % e        # -> syntax error -> refusal
    return translate_source(src, path)


if __name__ == "__main__":
    import sys
    txt, st = translate_repo(sys.argv[1] if len(sys.argv) > 1 else "/repo")
    print(txt)
    for k, v in st.items():
        sys.stderr.write("%s: %s\n" % (k, "translated" if v is None else "REFUSED %s" % v))
