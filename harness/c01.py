"""C01 — Fitness comparison and Pareto dominance (deap/base.py)."""
import copy
import itertools

import os

import vlib
from vlib import cz, czl, cbl, cbool, copt, clist


def regen(repo=None):
    """Tie (T): regenerate coq/Gen/C01_gen.v from the working tree's deap/base.py. Returns (ok, message)."""
    import c01_py2coq
    repo = repo or vlib.REPO
    try:
        txt = c01_py2coq.translate(open(os.path.join(repo, "deap", "base.py")).read())
    except c01_py2coq.Refuse as e:
        return False, "translator refused: %s" % e
    except SyntaxError as e:
        return False, "translator refused: syntax error %s" % e
    gen = os.path.join(vlib.COQ, "Gen")
    with vlib.BuildLock():
        os.makedirs(gen, exist_ok=True)
        p = os.path.join(gen, "C01_gen.v")
        old = open(p).read() if os.path.exists(p) else None
        if old != txt:
            open(p, "w").write(txt)
    return True, "regenerated"


def lex_lt(a, b):
    for x, y in zip(a, b):
        if x < y:
            return True
        if x > y:
            return False
    return len(a) < len(b)


def spec_six(wa, wb):
    lt, gt, eq = lex_lt(wa, wb), lex_lt(wb, wa), tuple(wa) == tuple(wb)
    return [lt, lt or eq, eq, not eq, gt, gt or eq]


def spec_dom(wa, wb):
    ps = list(zip(wa, wb))
    return all(x >= y for x, y in ps) and any(x > y for x, y in ps)


def cslice(s):
    step = 1 if s.step is None else s.step
    return "(mkslice %s %s %s)" % (copt(s.start, cz), copt(s.stop, cz), cz(step))


def cfs(vals, cv):
    return "(mkfs %s %s)" % (copt(vals, czl), copt(cv, cbl))


def main(run):
    from deap import base
    import numpy
    run.rule = ("exhaustive: all weight-sign vectors x all value tuples over {0,1,2} for lengths 1..2 (quick) / 1..3 (thorough); "
                "random: lengths 1..5, tie-heavy small integer grids and dyadic scalings; every case compares the six operators, "
                "dominates under slices, value round-trip, set/del histories, clones, and constrained-fitness combinations. "
                "A case is distinct by its full input; non-trivial = at least one valid fitness involved.")
    run.trusted += ["Coq 8.16.1 kernel and vm_compute", "hand-written model coq/Model/C01_Fitness.v tied by correspondence (harness/c01.py)",
                    "CPython tuple comparison modelled by Base/PyTuple.v; slice semantics by Base/PyList.v",
                    "floats restricted to exactly representable (integer / dyadic) values, order-isomorphic to Z"]
    run.assumptions += ["fitness values are finite (no NaN)", "weights non-zero"]
    run.build_props()
    ok, msg = regen()
    if ok:
        run.build_props(props="Props/C01_gen.v")
        run.trusted.append("translator harness/c01_py2coq.py (deap/base.py -> coq/Gen/C01_gen.v), equivalence to the model proved in Proofs/C01_gen_equiv.v on every run")
        run.extra_cov["tie"] = "translation (regenerated model proved equal to hand model) + correspondence"
    else:
        run.notes.append("tie: correspondence-only (%s)" % msg)
        run.extra_cov["tie"] = "correspondence-only (%s)" % msg
    rng = run.rng

    classes = {}

    def fitcls(w, constrained=False, scale=(1, 1)):
        key = (tuple(w), constrained, scale)
        if key not in classes:
            b = base.ConstrainedFitness if constrained else base.Fitness
            classes[key] = type("F%d" % len(classes), (b,), {"weights": tuple(float(x) / scale[1] for x in w)})
        return classes[key]

    def mk(w, vals, cv=None, constrained=False, scale=(1, 1)):
        C = fitcls(w, constrained, scale)
        route = rng.randint(0, 4)
        fv = None if vals is None else tuple(float(v) / scale[0] for v in vals)
        if fv is not None and route == 0:
            # constructor route: Fitness(values) / ConstrainedFitness(values, constraint_violation)
            return C(fv, cv) if constrained else C(fv)
        if fv is not None and route == 3:
            # constructor route with a numpy array (what an evaluation function written with numpy returns); a one-element
            # array holding 0 is falsy, longer arrays have no truth value
            arr = numpy.array(fv, dtype=float)
            return C(arr, cv) if constrained else C(arr)
        f = C(constraint_violation=cv) if constrained else C()
        if fv is not None:
            if route == 4:
                f.values = numpy.array(fv, dtype=float)
            else:
                f.values = list(fv) if route == 1 else fv      # a list is accepted as well as a tuple
        return f

    def wv_int(f, scale):
        out = []
        for x in f.wvalues:
            y = x * scale[0] * scale[1]
            assert y == int(y), (x, scale)
            out.append(int(y))
        return out

    ops6 = [lambda a, b: a < b, lambda a, b: a <= b, lambda a, b: a == b,
            lambda a, b: a != b, lambda a, b: a > b, lambda a, b: a >= b]
    terms, cases = [], []

    def add(term, case, nontrivial=True):
        terms.append(term)
        cases.append(case)
        run.note_case(case, nontrivial, sample=case if len(run.samples) < 6 and len(cases) % 97 == 1 else None)

    # ---- comparison cases ----
    def cmp_case(w, va, vb, scale=(1, 1)):
        a, b = mk(w, va, scale=scale), mk(w, vb, scale=scale)
        obs = [bool(op(a, b)) for op in ops6]
        wa, wb = wv_int(a, scale), wv_int(b, scale)
        case = {"kind": "cmp", "weights": list(w), "a": va, "b": vb, "scale": scale, "observed": obs}
        exp_wa = [] if va is None else [x * y for x, y in zip(va, w)]
        exp_wb = [] if vb is None else [x * y for x, y in zip(vb, w)]
        if wa != exp_wa or wb != exp_wb:
            run.oracle_violation("weighted values are not value*weight", case, observed=[wa, wb])
        if obs != spec_six(exp_wa, exp_wb):
            run.oracle_violation("comparison operators differ from lexicographic comparison of weighted values", case,
                                 observed=obs)
        add("CCmp %s %s %s %s %s %s" % (czl(w), copt(va, czl), copt(vb, czl), czl(wa), czl(wb), cbl(obs)), case,
            va is not None or vb is not None)

    def dom_case(w, va, vb, sl, scale=(1, 1)):
        a, b = mk(w, va, scale=scale), mk(w, vb, scale=scale)
        obs = bool(a.dominates(b, sl))
        case = {"kind": "dominates", "weights": list(w), "a": va, "b": vb, "slice": [sl.start, sl.stop, sl.step], "observed": obs}
        wa = [x * y for x, y in zip(va, w)][sl]
        wb = [x * y for x, y in zip(vb, w)][sl]
        if obs != spec_dom(wa, wb):
            run.oracle_violation("dominates differs from 'no worse everywhere and better somewhere' on the slice", case, observed=obs)
        add("CDom %s %s %s %s %s" % (czl(w), czl(va), czl(vb), cslice(sl), cbool(obs)), case)

    maxlen = run.scale(2, 3)
    for n in range(1, maxlen + 1):
        for signs in itertools.product([1, -1], repeat=n):
            tuples = list(itertools.product([0, 1, 2], repeat=n))
            for va in tuples:
                for vb in tuples:
                    cmp_case(list(signs), list(va), list(vb))
                    dom_case(list(signs), list(va), list(vb), slice(None))
    # invalid vs valid
    for va, vb in [(None, None), (None, [1]), ([0], None)]:
        cmp_case([1], va, vb)
    nrand = run.scale(600, 6000)
    for _ in range(nrand):
        n = rng.randint(1, 5)
        w = [rng.choice([1, -1]) * rng.choice([1, 1, 2, 3, 5]) for _ in range(n)]
        hi = rng.choice([1, 2, 3, 9])
        va = [rng.randint(-hi, hi) for _ in range(n)]
        vb = [x if rng.random() < 0.6 else rng.randint(-hi, hi) for x in va]
        scale = rng.choice([(1, 1), (4, 2), (8, 1)])
        cmp_case(w, va, vb, scale)
        sl = slice(rng.choice([None, None, -6, -2, -1, 0, 1, 2, 3, 7]), rng.choice([None, None, -6, -2, -1, 0, 1, 2, 3, 7]),
                   rng.choice([None, None, 1, 2, 3, -1, -2]))
        dom_case(w, va, vb, sl, scale)
    # ---- near ties: doubles 1 ulp / 2**-40 relative apart, around several magnitudes, weights +-1 (products exact).
    # The model works on the order-isomorphic integers r(v) = sign(v) * rank(|v|), for which negation commutes.
    import math
    def near_pool(b):
        return [b, math.nextafter(b, math.inf), math.nextafter(b, -math.inf), b * (1 + 2.0 ** -40), b * (1 - 2.0 ** -40), b + 1e-12]
    for _ in range(run.scale(300, 3000)):
        n = rng.randint(1, 4)
        w = [rng.choice([1, -1]) for _ in range(n)]
        bases = [rng.choice([1.0, 3.0, 1e6, 1e-6, 0.1, 1e9]) for _ in range(n)]
        fa = [rng.choice(near_pool(b)) * rng.choice([1, 1, 1, -1]) for b in bases]
        fb = [x if rng.random() < 0.5 else rng.choice(near_pool(b)) * rng.choice([1, 1, 1, -1]) for x, b in zip(fa, bases)]
        mags = sorted({abs(x) for x in fa + fb})
        rk = lambda x: (1 if x > 0 else -1 if x < 0 else 0) * (mags.index(abs(x)) + 1)
        Ca = fitcls(w)
        a, b = Ca(), Ca()
        a.values, b.values = tuple(fa), tuple(fb)
        obs = [bool(op(a, b)) for op in ops6]
        wa = [x * y for x, y in zip(fa, w)]
        wb = [x * y for x, y in zip(fb, w)]
        case = {"kind": "cmp-near-tie", "weights": w, "a": [x.hex() for x in fa], "b": [x.hex() for x in fb], "observed": obs}
        if list(a.wvalues) != wa or list(b.wvalues) != wb:
            run.oracle_violation("weighted values are not value*weight (near-tie doubles)", case, observed=[list(a.wvalues), list(b.wvalues)])
        if obs != spec_six(wa, wb):
            run.oracle_violation("comparison operators differ from lexicographic comparison of weighted values (near-tie doubles)", case, observed=obs)
        dobs = bool(a.dominates(b))
        if dobs != spec_dom(wa, wb):
            run.oracle_violation("dominates differs from 'no worse everywhere and better somewhere' (near-tie doubles)", case, observed=dobs)
        ra, rb = [rk(x) for x in fa], [rk(x) for x in fb]
        add("CCmp %s %s %s %s %s %s" % (czl(w), copt(ra, czl), copt(rb, czl), czl([x * y for x, y in zip(ra, w)]),
                                        czl([x * y for x, y in zip(rb, w)]), cbl(obs)), case)
        add("CDom %s %s %s %s %s" % (czl(w), czl(ra), czl(rb), cslice(slice(None)), cbool(dobs)), case)
        # a fitness compared with itself
        self6 = [bool(op(a, a)) for op in ops6]
        if self6 != [False, True, True, False, False, True] or a.dominates(a):
            run.oracle_violation("a fitness compared with itself", case, observed=self6)

    # ---- triples: transitivity / order-type consistency is implied by agreement with lex on all pairs;
    # the oracle additionally checks sortedness of triples under the implementation's operators
    for _ in range(run.scale(200, 2000)):
        n = rng.randint(1, 5)
        w = [rng.choice([1, -1]) for _ in range(n)]
        vs = [[rng.randint(0, 2) for _ in range(n)] for _ in range(3)]
        fs = [mk(w, v) for v in vs]
        srt = sorted(fs)
        keys = [tuple(x * y for x, y in zip(f.values, w)) for f in srt]
        case = {"kind": "triple", "weights": w, "values": vs}
        run.note_case(case)
        if keys != sorted(keys):
            run.oracle_violation("sorting three fitnesses by < is not sorting their weighted values", case, observed=keys)

    # ---- round trip ----
    for _ in range(run.scale(200, 2000)):
        n = rng.randint(1, 5)
        pm1 = rng.random() < 0.7
        w = [rng.choice([1, -1]) * (1 if pm1 else rng.choice([1, 2, 3, 4, 7])) for _ in range(n)]
        v = [rng.randint(-50, 50) for _ in range(n)]
        f = mk(w, v)
        got = list(f.values)
        case = {"kind": "roundtrip", "weights": w, "values": v, "observed": got}
        if got != [float(x) for x in v] or any(not isinstance(x, float) for x in got) or not f.valid:
            run.oracle_violation("values not read back unchanged", case, observed=[repr(x) for x in got])
        else:
            add("CRound %s %s %s" % (czl(w), czl(v), czl([int(x) for x in got])), case)

    # ---- state kept on the CLASS: a type derived from a type that was already used (other weights), and weights
    # re-assigned on a type after it was used; every read goes through fresh and through previously read objects
    for _ in range(run.scale(80, 800)):
        n = rng.randint(1, 3)

        def rw():
            return tuple(float(rng.choice([1, -1]) * rng.choice([1, 1, 1, 2, 4])) for _ in range(n))
        w1, w2, w3 = rw(), rw(), rw()
        A = type("FA%d" % rng.randrange(10 ** 9), (base.Fitness,), {"weights": w1})
        history = []

        def use(cls, w, label):
            v = [rng.randint(-8, 8) for _ in range(n)]
            f = cls()
            f.values = tuple(float(x) for x in v)
            got = [list(f.values), list(f.values)]                   # read twice
            wv = list(f.wvalues)
            case = {"kind": "class-state", "step": label, "weights": list(w), "values": v, "history": list(history), "observed": got}
            history.append(label)
            if got[0] != [float(x) for x in v] or got[1] != got[0]:
                run.oracle_violation("values not read back unchanged (%s)" % label, case, observed=got)
            elif wv != [float(x) * y for x, y in zip(v, w)]:
                run.oracle_violation("weighted values are not value*weight (%s)" % label, case, observed=wv)
            else:
                add("CRound %s %s %s" % (czl([int(x) for x in w]), czl(v), czl([int(x) for x in got[0]])), case)
            g = cls()
            g.values = tuple(float(x) for x in [rng.randint(-8, 8) for _ in range(n)])
            key = lambda h: tuple(a * b for a, b in zip(h.values, w))        # noqa: E731
            if (f < g) != (key(f) < key(g)) or (f == g) != (key(f) == key(g)) or (f > g) != (key(f) > key(g)):
                run.oracle_violation("comparison operators differ from lexicographic comparison of weighted values (%s)" % label, case,
                                     observed=[list(f.values), list(g.values)])
        use(A, w1, "base type, first use")
        B = type("FB%d" % rng.randrange(10 ** 9), (A,), {"weights": w2})
        use(B, w2, "type derived from a used type, other weights")
        use(A, w1, "base type again")
        A.weights = w3
        use(A, w3, "base type after its weights were re-assigned")
        use(B, w2, "derived type after the base type's weights were re-assigned")

    # ---- histories ----
    for _ in range(run.scale(150, 1500)):
        n = rng.randint(1, 4)
        w = [rng.choice([1, -1]) for _ in range(n)]
        f = mk(w, None)
        ops, obs, exp = [], [], []
        pool = {}      # the SAME tuple object is re-assigned now and then (assign / delete / assign again)
        for _ in range(rng.randint(0, 8)):
            if rng.random() < 0.55:
                v = [rng.randint(0, 1) for _ in range(n)] if rng.random() < 0.5 else [rng.randint(0, 3) for _ in range(n)]
                f.values = pool.setdefault(tuple(v), tuple(float(x) for x in v))
                ops.append("(OSet %s)" % czl(v))
                exp.append(True)
            else:
                del f.values
                ops.append("ODel")
                exp.append(False)
            obs.append(bool(f.valid))
        case = {"kind": "history", "weights": w, "ops": ops, "observed": obs}
        if obs != exp:
            run.oracle_violation("valid is not 'assigned and not deleted'", case, observed=obs)
        add("CHist %s %s %s" % (czl(w), clist(ops), cbl(obs)), case, bool(ops))

    # ---- clones and constrained ----
    cvs = [None, [False], [False, False], [True], [False, True]]
    states = []
    for vals in [None, [0], [1], [2]]:
        for cv in cvs:
            states.append((vals, cv))
    for constrained in (False, True):
        for (vals, cv) in states:
            if not constrained and cv is not None:
                continue
            w = [rng.choice([1, -1])]
            f = mk(w, vals, cv, constrained)
            c = copy.deepcopy(f)
            oeq, ovalid = bool(f == c), bool(c.valid)
            owv = [int(x) for x in c.wvalues]
            case = {"kind": "clone", "weights": w, "values": vals, "cv": cv, "constrained": constrained,
                    "observed": [oeq, ovalid, owv]}
            if not oeq or ovalid != f.valid or bool(f != c) or (vals is not None and list(c.values) != list(f.values)):
                run.oracle_violation("clone does not compare equal to its original", case, observed=[oeq, ovalid, owv])
            if c is f:
                run.oracle_violation("clone is the same object", case)
            add("CClone %s %s %s %s %s %s" % (czl(w), cfs(vals, cv), cbool(constrained), cbool(oeq), cbool(ovalid), czl(owv)), case)
    for (va, ca) in states:
        for (vb, cb) in states:
            for w in ([1], [-1]):
                a, b = mk(w, va, ca, True), mk(w, vb, cb, True)
                obs = [bool(op(a, b)) for op in ops6] + [bool(a.dominates(b))]
                case = {"kind": "constrained", "weights": w, "a": [va, ca], "b": [vb, cb], "observed": obs}
                a_viol = va is None and ca is not None and any(ca)
                b_feas_eval = vb is not None
                if a_viol and b_feas_eval:
                    # never better than, equal to, or dominating
                    if obs[4] or obs[5] or obs[2] or obs[6]:
                        run.oracle_violation("violating fitness compares better/equal/dominating vs feasible evaluated", case, observed=obs)
                add("CCons %s %s %s %s" % (czl(w), cfs(va, ca), cfs(vb, cb), cbl(obs)), case)
    # two-objective constrained, random
    for _ in range(run.scale(100, 1000)):
        w = [rng.choice([1, -1]), rng.choice([1, -1])]

        def rs():
            vals = None if rng.random() < 0.4 else [rng.randint(0, 2), rng.randint(0, 2)]
            cv = rng.choice([None, [False, False], [True, False], [False, True]])
            return vals, cv
        (va, ca), (vb, cb) = rs(), rs()
        a, b = mk(w, va, ca, True), mk(w, vb, cb, True)
        obs = [bool(op(a, b)) for op in ops6] + [bool(a.dominates(b))]
        case = {"kind": "constrained", "weights": w, "a": [va, ca], "b": [vb, cb], "observed": obs}
        if (va is None and ca is not None and any(ca)) and vb is not None and (obs[4] or obs[5] or obs[2] or obs[6]):
            run.oracle_violation("violating fitness compares better/equal/dominating vs feasible evaluated", case, observed=obs)
        add("CCons %s %s %s %s" % (czl(w), cfs(va, ca), cfs(vb, cb), cbl(obs)), case)

    # ---- histories on one ConstrainedFitness (assign / delete / record a violation), observed after every step
    def cons_history(w, rv, rc, plan):
        """plan: list of ("set", values) | ("del",) | ("viol", None | list of bool).  After EVERY step the fitness is
        compared both ways with `ref` (so whatever an implementation remembers from a comparison is remembered)."""
        n = len(w)
        f = mk(w, None, None, True)
        ref = mk(w, rv, rc, True)
        ops, obs, pyobs = [], [], []
        assigned = False
        vpool = {}
        for st in plan:
            if st[0] == "set":
                v = st[1]
                f.values = vpool.setdefault(tuple(v), tuple(float(x) for x in v))     # the same tuple object is re-assigned
                ops.append("(CSet %s)" % czl(v))
                assigned = True
            elif st[0] == "del":
                del f.values
                ops.append("CDel")
                assigned = False
            else:
                c = st[1]
                f.constraint_violation = None if c is None else list(c)
                ops.append("(CViol %s)" % copt(c, cbl))
            six = [bool(op(f, ref)) for op in ops6] + [bool(f.dominates(ref))]
            rsix = [bool(op(ref, f)) for op in ops6] + [bool(ref.dominates(f))]
            cvv = f.constraint_violation
            cvv = None if cvv is None else [bool(x) for x in cvv]
            o = (bool(f.valid), [int(x) for x in f.wvalues], cvv, six)
            pyobs.append(o)
            obs.append("(%s, %s, %s, %s)" % (cbool(o[0]), czl(o[1]), copt(o[2], cbl), cbl(o[3])))
            if o[0] != assigned:
                run.oracle_violation("valid is not 'assigned and not deleted' (constrained fitness history)",
                                     {"kind": "cons-history", "weights": w, "ops": list(ops)}, observed=o)
            f_viol = (not assigned) and cvv is not None and any(cvv)
            ref_viol = rv is None and rc is not None and any(rc)
            if ref_viol and assigned and not f_viol and (rsix[4] or rsix[5] or rsix[2] or rsix[6]):
                run.oracle_violation("violating fitness compares better/equal/dominating vs a fitness that was repaired and evaluated (history)",
                                     {"kind": "cons-history", "weights": w, "ops": list(ops), "ref": [rv, rc]}, observed=[o, rsix])
            if f_viol and rv is not None and (six[4] or six[5] or six[2] or six[6]):
                run.oracle_violation("violating fitness compares better/equal/dominating vs feasible evaluated (history)",
                                     {"kind": "cons-history", "weights": w, "ops": list(ops), "ref": [rv, rc]}, observed=o)
        case = {"kind": "cons-history", "weights": w, "ops": ops, "ref": [rv, rc], "observed": pyobs}
        add("CConsHist %s %s %s %s" % (czl(w), clist(ops), cfs(rv, rc), clist(obs)), case)

    # exhaustive: every history of up to 3 (thorough: 4) steps over {assign 0, assign 1, delete, violation None / [False] /
    # [True]} on a one-objective fitness, against a violating, a feasible evaluated and an unevaluated reference
    import itertools as _it
    alphabet = [("set", [0]), ("set", [1]), ("del",), ("viol", None), ("viol", [False]), ("viol", [True])]
    for ln in range(1, run.scale(3, 4) + 1):
        for plan in _it.product(alphabet, repeat=ln):
            for rv, rc in (([1], None), (None, [True]), (None, None)):
                cons_history([rng.choice([1, -1])], rv, rc, list(plan))
    for _ in range(run.scale(300, 3000)):
        n = rng.randint(1, 2)
        w = [rng.choice([1, -1]) for _ in range(n)]
        rv = None if rng.random() < 0.3 else [rng.randint(0, 2) for _ in range(n)]
        rc = rng.choice([None, None, [False] * n, [True] + [False] * (n - 1)])
        plan = []
        for _ in range(rng.randint(1, 6)):
            r = rng.random()
            if r < 0.35:
                plan.append(("set", [rng.randint(0, 1) for _ in range(n)] if rng.random() < 0.5 else [rng.randint(0, 2) for _ in range(n)]))
            elif r < 0.65:
                plan.append(("del",))
            else:
                plan.append(("viol", rng.choice([None, [False] * n, [True] + [False] * (n - 1), [False] * (n - 1) + [True]])))
        cons_history(w, rv, rc, plan)

    run.correspond("all", "C01", terms, cases)
