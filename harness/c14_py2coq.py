"""Fail-closed translator: the scalar parameter / step-size code of deap/cma.py -> Gallina.

Tie (T) of property C14 (DESIGN.md 2.3).  The working-tree source is parsed with Python's `ast`; the SCALAR SLICE of
the functions of the table FUNCS is compiled, statement by statement, into definitions over the operation record
`Ops T` of coq/Model/C14_exec.v (the style of the hand model: generic scalar type, `nat` for the integers dim / lambda /
counts, lists for populations, fitnesses as lists of weighted values) and written to coq/Gen/C14_gen.v (never
committed).  coq/Proofs/C14_gen_equiv.v proves that the regenerated definitions, at the real-closed-field instance
the theorems are stated about, are the hand model; coq/Props/C14_gen.v restates C14 theorems on them.

The matrix part of the code (numpy.dot / outer / identity / cholesky / inv ...) is OUT of scope.  It is *sliced away*,
fail-closed: a statement is skipped only when (1) every target is an attribute declared matrix-side (`opaque`) for that
function or a local name, (2) its right-hand side is built from names, attributes, subscripts, arithmetic, list
displays / comprehensions over range(len(..)) and calls to a fixed whitelist of pure functions (no method of `self`, so
it cannot write a scalar attribute).  A local assigned by a skipped statement becomes opaque: a later scalar statement
that reads it, or reads a matrix-side attribute that is not a declared input, makes the translator REFUSE the function.
An `if` whose body contains skipped statements may contain nothing else (apart from nested such `if`s); its TEST is
translated and returned as part of the result, so the branch taken by the matrix code is regenerated too.

A construct outside the grammar makes the translator refuse that function (class Refuse): its definition is then the
hand model's term (a placeholder, marked `(* REFUSED *)`), so the committed equivalence file always builds and the
other functions keep the regenerated tie.

Grammar of the scalar slice (everything else is refused)
  statements   docstring | x = e | x op= e | self.a = e | self.a op= e (a a declared scalar attribute)
               | population.sort(key=lambda ind: ind.fitness, reverse=True) (as a unit: the model's sort_desc)
               | if / elif / else over scalar statements | for x in <list of individuals> over scalar statements
               | l = list() / [] and l.append(x) for a local list of individuals
               | self._rank1update(best, e) in StrategyActiveOnePlusLambda.update: e is the result (captured argument)
               | self.lambda_ = e where lambda_ is the property whose setter stores the value and calls
                 _compute_lambda_parameters() (exact shape checked; the callee's body is translated in place)
  expressions  non-negative int and float constants (a decimal literal a.b is kz(ab) / kz(10^k): correctly rounded in
               binary64, exact over a field), names, declared attributes, self.parent.fitness, ind.fitness,
               l[i] for a constant i (IndexError = None of the option result), + - * / (ints: + * and ** 2 in nat,
               true division after coercion; int - int refused), < <= > >= (numbers; fitnesses: lex_lt / lex_le),
               == on ints, not / and / or, a if c else b, len(l), float(n), min / max of two numbers, sqrt / numpy.sqrt / exp (only while
               `from math import sqrt, exp` and `import numpy` are the module's bindings of these names),
               sum(<bool> for x in l) (count_if), D.get("key", default) on the keyword dictionary (keys listed as
               supplied in the signature table are parameters, every other key takes its default).
Types          nat, T, bool, fit (list T), ind (genotype * fit), list ind.
"""
import ast
import decimal
import os

FILE = ("deap", "cma.py")


class Refuse(Exception):
    def __init__(self, node, why):
        self.node = type(node).__name__ if not isinstance(node, str) else node
        self.line = getattr(node, "lineno", None)
        self.why = why
        Exception.__init__(self, "%s at line %s: %s" % (self.node, self.line, why))


def refuse(node, why):
    raise Refuse(node, why)


# ---- signature table (trusted) -------------------------------------------------------------------------
# name -> dict(cls, entry method, header, placeholder (hand model term), inputs: attribute -> (coq term, type),
#              scalars: attributes the slice may assign, opaque: matrix-side attributes, supplied: keys of the keyword
#              dictionary that are parameters, dicts: expressions denoting the keyword dictionary,
#              params: python parameter -> None (opaque) | (coq term, type), result: builder)
FUNCS = {
    "plain_computeParams": dict(
        cls="StrategyOnePlusLambda", method="computeParams",
        header="Definition gen_plain_computeParams (v_dim v_lambda : nat) : pparams (T:=T)",
        placeholder="plain_defaults Op v_dim v_lambda",
        inputs={"dim": ("v_dim", "nat")},
        scalars=("lambda_", "d", "ptarg", "cp", "cc", "ccov", "pthresh"), opaque=(),
        supplied={"lambda_": ("v_lambda", "nat")}, dicts=("params",), params={"params": None},
        result=("record", "mkPP", ("lambda_", "d", "ptarg", "cp", "cc", "ccov", "pthresh"),
                ("nat", "T", "T", "T", "T", "T", "T"))),
    "plain_update_scalar": dict(
        cls="StrategyOnePlusLambda", method="update",
        header="Definition gen_plain_update_scalar (P : pparams (T:=T)) (s_pfit : list T) (s_psucc s_sigma : T) "
               "(v_population : list (pind (T:=T))) : option (T * T * bool * bool)",
        placeholder="plain_update_scalar Op P s_pfit s_psucc s_sigma v_population",
        inputs={"parent.fitness": ("s_pfit", "fit"), "psucc": ("s_psucc", "T"), "sigma": ("s_sigma", "T"),
                "lambda_": ("(pp_lambda P)", "nat"), "d": ("(pp_d P)", "T"), "ptarg": ("(pp_ptarg P)", "T"),
                "cp": ("(pp_cp P)", "T"), "pthresh": ("(pp_pthresh P)", "T"), "cc": ("(pp_cc P)", "T"),
                "ccov": ("(pp_ccov P)", "T")},
        scalars=("psucc", "sigma"), opaque=("parent", "pc", "C", "A"),
        supplied={}, dicts=(), params={"population": ("v_population", "list ind")},
        result=("update", ("psucc", "sigma"), 2)),
    "active_computeParams": dict(
        cls="StrategyActiveOnePlusLambda", method="__init__",
        header="Definition gen_active_computeParams (v_dim v_lambda : nat) (v_ccovn : T) (v_S_int : list T) "
               ": aparams (T:=T) * T",
        placeholder="(active_defaults Op v_dim v_lambda v_ccovn v_S_int, ap_ptarg (active_defaults Op v_dim v_lambda v_ccovn v_S_int))",
        inputs={"dim": ("v_dim", "nat"), "ccovn": ("v_ccovn", "T"), "S_int": ("v_S_int", "vec")},
        scalars=("lambda_", "d", "ptarg", "cp", "cc", "ccovp", "cconst", "beta", "pthresh", "psucc"),
        opaque=("parent", "sigma", "dim", "A", "invA", "condition_number", "pc", "params", "ccovn", "S_int", "i_I_R",
                "constraint_vecs", "ancestors_fitness"),
        supplied={"lambda_": ("v_lambda", "nat")}, dicts=("kargs", "self.params"),
        params={"parent": None, "sigma": None, "steps": None, "kargs": None},
        prop=("lambda_", "_lambda", "_compute_lambda_parameters"),
        result=("record+", "mkAP", ("lambda_", "d", "ptarg", "cp", "cc", "ccovp", "ccovn", "cconst", "beta", "pthresh",
                                     "S_int"),
                ("nat", "T", "T", "T", "T", "T", "T", "T", "T", "T", "vec"), "psucc")),
    "mo_computeParams": dict(
        cls="StrategyMultiObjective", method="__init__",
        header="Definition gen_mo_computeParams (v_dim v_mu v_lambda : nat) : mparams (T:=T) * T",
        placeholder="(mo_defaults Op v_dim v_mu v_lambda, mp_ptarg (mo_defaults Op v_dim v_mu v_lambda))",
        inputs={"dim": ("v_dim", "nat")},
        scalars=("mu", "lambda_", "d", "ptarg", "cp", "cc", "ccov", "pthresh"),
        opaque=("parents", "dim", "sigmas", "A", "invCholesky", "pc", "psucc", "indicator"),
        supplied={"mu": ("v_mu", "nat"), "lambda_": ("v_lambda", "nat")}, dicts=("params",),
        params={"population": None, "sigma": None, "params": None},
        result=("record+", "mkMP", ("mu", "lambda_", "d", "ptarg", "cp", "cc", "ccov", "pthresh"),
                ("nat", "nat", "T", "T", "T", "T", "T", "T"), "ptarg")),
}
FUNCS["active_rank1_scalar"] = dict(
    cls="StrategyActiveOnePlusLambda", method="_rank1update",
    header="Definition gen_active_rank1_scalar (P : aparams (T:=T)) (s_psucc s_sigma v_p_succ : T) : T * T",
    placeholder="active_rank1_scalar Op P s_psucc s_sigma v_p_succ",
    inputs={"psucc": ("s_psucc", "T"), "sigma": ("s_sigma", "T"), "d": ("(ap_d P)", "T"), "ptarg": ("(ap_ptarg P)", "T"),
            "cp": ("(ap_cp P)", "T"), "pthresh": ("(ap_pthresh P)", "T"), "cc": ("(ap_cc P)", "T"),
            "ccovp": ("(ap_ccovp P)", "T"), "ccovn": ("(ap_ccovn P)", "T"), "beta": ("(ap_beta P)", "T"),
            "cconst": ("(ap_cconst P)", "T"), "lambda_": ("(ap_lambda P)", "nat")},
    scalars=("psucc", "sigma"), opaque=("parent", "pc", "A", "invA", "ancestors_fitness"),
    supplied={}, dicts=(), params={"individual": None, "p_succ": ("v_p_succ", "T")},
    result=("scalars", ("psucc", "sigma")))
FUNCS["active_p_succ"] = dict(
    cls="StrategyActiveOnePlusLambda", method="update",
    header="Definition gen_active_p_succ (s_pfit : option (fitness (T:=T))) (v_population : list (aind (T:=T))) : option T",
    placeholder="active_p_succ Op s_pfit v_population",
    inputs={"parent.fitness": ("(match s_pfit with Some pf => pf | None => mkFit [] None end)", "fit")},
    scalars=(), opaque=("condition_number", "i_I_R"),
    supplied={}, dicts=(), params={"population": ("v_population", "list ind")},
    ind_fit="(ai_fit %s)", cmp=("c_le", "c_lt"), valid="(f_valid %s)",
    hasattr_parent_fitness="(match s_pfit with Some _ => true | None => false end)",
    capture=("_rank1update", 2, 1),      # method, number of arguments, index of the captured argument
    result=("capture",))
ORDER = ["plain_computeParams", "plain_update_scalar", "active_computeParams", "mo_computeParams", "active_rank1_scalar",
         "active_p_succ"]

# module-level bindings the translation of sqrt / exp / numpy.* relies on
MATH_NAMES = {"sqrt": "osqrt", "exp": "oexp"}
PURE_CALLS = {"numpy.linalg.norm", "numpy.allclose", "hasattr", "numpy.identity", "numpy.zeros", "numpy.array", "numpy.outer", "numpy.dot", "numpy.diag",
              "numpy.flatnonzero", "numpy.linalg.cond", "numpy.linalg.cholesky", "numpy.sqrt", "copy.deepcopy",
              "sqrt", "exp", "len", "list", "range", "float"}
PURE_NODES = (ast.BinOp, ast.UnaryOp, ast.Compare, ast.BoolOp, ast.Constant, ast.Name, ast.Attribute, ast.Subscript,
              ast.Tuple, ast.List, ast.Load, ast.operator, ast.unaryop, ast.cmpop, ast.boolop, ast.Call, ast.ListComp,
              ast.comprehension, ast.Store, ast.Slice, ast.keyword)


def dotted(e):
    if isinstance(e, ast.Name):
        return e.id
    if isinstance(e, ast.Attribute):
        b = dotted(e.value)
        return None if b is None else b + "." + e.attr
    return None


def fresh_copy(x):
    import copy
    return copy.deepcopy(x)


class Tr(object):
    def __init__(self, mod, spec):
        self.mod = mod
        self.spec = spec
        self.attrs = dict(spec["inputs"])            # readable attributes: name -> (coq term, type)
        self.locals = {}                             # scalar locals: python name -> type
        self.opaque_locals = set()
        self.assigned = set()
        self.tests = []
        self.pending = []                            # hoisted l[i]: (binder, list term, index)
        self.nbind = 0
        self.lines = []                              # output, one binder per line
        self.in_fun = 0
        for p, v in spec["params"].items():
            if v is None:
                self.opaque_locals.add(p)
            else:
                self.locals[p] = v[1]
        self.dict_ok = set(d for d in spec["dicts"] if not d.startswith("self."))
        self.top_level = None
        if spec.get("capture"):
            self.locals["_captured"] = "optT"
            self.lines.append("let v__captured := None in")

    # ---------------- expressions ----------------
    def toT(self, c, t, node):
        if t == "T":
            return c
        if t == "natlit":
            return "(kz Op %s)" % c
        if t == "nat":
            return "(ofnat Op %s)" % c
        refuse(node, "a %s where a number is needed" % t)

    def tonat(self, c, t, node):
        if t in ("nat", "natlit"):
            return c
        refuse(node, "a %s where an integer is needed" % t)

    def const(self, e):
        v = e.value
        if isinstance(v, bool):
            return ("true" if v else "false"), "bool"
        if isinstance(v, int):
            if v < 0 or v > 10 ** 6:
                refuse(e, "integer constant out of range")
            return "%d" % v, "natlit"
        if isinstance(v, float):
            if not (v == v) or v in (float("inf"), float("-inf")) or v < 0:
                refuse(e, "float constant not a non-negative finite number")
            d = decimal.Decimal(repr(v))
            sign, digits, expo = d.as_tuple()
            n = int("".join(map(str, digits)))
            if expo >= 0:
                n *= 10 ** expo
                if n > 10 ** 6:
                    refuse(e, "float constant too large")
                return "(kz Op %d)" % n, "T"
            if n > 10 ** 6 or -expo > 6:
                refuse(e, "float constant with too many digits")
            if n % (10 ** -expo) == 0:
                return "(kz Op %d)" % (n // 10 ** -expo), "T"
            return "(odiv Op (kz Op %d) (kz Op %d))" % (n, 10 ** -expo), "T"
        refuse(e, "constant of type %s" % type(v).__name__)

    def attr(self, e):
        d = dotted(e)
        if d is None:
            if e.attr == "fitness":
                c, t = self.ex(e.value)
                if t == "ind":
                    return self.spec.get("ind_fit", "(snd %s)") % c, "fit"
            refuse(e, "attribute of a computed object")
        parts = d.split(".")
        if parts[0] == "self":
            key = ".".join(parts[1:])
            if key in self.attrs:
                return self.attrs[key]
            refuse(e, "read of self.%s, which is not a declared scalar input / not yet assigned by the slice" % key)
        if len(parts) == 2 and parts[1] == "fitness" and self.locals.get(parts[0]) == "ind":
            return self.spec.get("ind_fit", "(snd %s)") % ("v_" + parts[0]), "fit"
        if len(parts) == 3 and parts[1] == "fitness" and parts[2] == "valid" and self.locals.get(parts[0]) == "ind" \
                and self.spec.get("valid"):
            return self.spec["valid"] % (self.spec["ind_fit"] % ("v_" + parts[0])), "bool"
        refuse(e, "attribute %s" % d)

    def ex(self, e):
        if isinstance(e, ast.Constant):
            return self.const(e)
        if isinstance(e, ast.Name):
            if e.id in self.locals:
                return "v_" + e.id, self.locals[e.id]
            refuse(e, "read of %s, which is not a scalar local (matrix-side, unknown or not yet assigned)" % e.id)
        if isinstance(e, ast.Attribute):
            return self.attr(e)
        if isinstance(e, ast.Subscript):
            c, t = self.ex(e.value)
            if t != "list ind" or not isinstance(e.slice, ast.Constant) or not isinstance(e.slice.value, int) \
                    or isinstance(e.slice.value, bool) or e.slice.value < 0:
                refuse(e, "subscript other than <list of individuals>[constant]")
            if self.in_fun:
                refuse(e, "subscript inside a loop / generator body")
            self.nbind += 1
            b = "e_%d" % self.nbind
            self.pending.append((b, c, e.slice.value))
            self.locals["#" + b] = "ind"
            return b, "ind"
        if isinstance(e, ast.BinOp):
            a, ta = self.ex(e.left)
            b, tb = self.ex(e.right)
            ints = ta in ("nat", "natlit") and tb in ("nat", "natlit")
            if isinstance(e.op, ast.Pow):
                if ta in ("nat", "natlit") and tb == "natlit" and b == "2":
                    return "(Nat.pow %s 2)" % a, "nat"
                refuse(e, "power other than <integer> ** 2")
            if ints and isinstance(e.op, ast.Add):
                return "(Nat.add %s %s)" % (a, b), "nat"
            if ints and isinstance(e.op, ast.Mult):
                return "(Nat.mul %s %s)" % (a, b), "nat"
            if ints and not isinstance(e.op, ast.Div):
                refuse(e, "integer operator %s" % type(e.op).__name__)
            op = {ast.Add: "oadd", ast.Sub: "osub", ast.Mult: "omul", ast.Div: "odiv"}.get(type(e.op))
            if op is None:
                refuse(e, "operator %s" % type(e.op).__name__)
            return "(%s Op %s %s)" % (op, self.toT(a, ta, e.left), self.toT(b, tb, e.right)), "T"
        if isinstance(e, ast.UnaryOp):
            if isinstance(e.op, ast.Not):
                c, t = self.ex(e.operand)
                if t != "bool":
                    refuse(e, "not of a %s" % t)
                return "(negb %s)" % c, "bool"
            refuse(e, "unary operator %s" % type(e.op).__name__)
        if isinstance(e, ast.BoolOp):
            cs = []
            for v in e.values:
                c, t = self.ex(v)
                if t != "bool":
                    refuse(v, "and / or of a %s" % t)
                cs.append(c)
            f = "andb" if isinstance(e.op, ast.And) else "orb"
            out = cs[-1]
            for c in reversed(cs[:-1]):
                out = "(%s %s %s)" % (f, c, out)
            return out, "bool"
        if isinstance(e, ast.Compare):
            if len(e.ops) != 1:
                refuse(e, "chained comparison")
            a, ta = self.ex(e.left)
            b, tb = self.ex(e.comparators[0])
            op = type(e.ops[0])
            if ta == "fit" and tb == "fit":
                le_, lt_ = self.spec.get("cmp", ("lex_le", "lex_lt"))
                m = {ast.LtE: (le_, a, b), ast.Lt: (lt_, a, b), ast.GtE: (le_, b, a), ast.Gt: (lt_, b, a)}.get(op)
                if m is None:
                    refuse(e, "comparison %s of fitnesses" % op.__name__)
                return "(%s Op %s %s)" % m, "bool"
            if ta in ("nat", "natlit") and tb in ("nat", "natlit"):
                m = {ast.LtE: ("Nat.leb", a, b), ast.Lt: ("Nat.ltb", a, b), ast.GtE: ("Nat.leb", b, a),
                     ast.Gt: ("Nat.ltb", b, a), ast.Eq: ("Nat.eqb", a, b)}.get(op)
                if m is None:
                    refuse(e, "comparison %s of integers" % op.__name__)
                return "(%s %s %s)" % m, "bool"
            a, b = self.toT(a, ta, e.left), self.toT(b, tb, e.comparators[0])
            m = {ast.LtE: ("oleb", a, b), ast.Lt: ("oltb", a, b), ast.GtE: ("oleb", b, a), ast.Gt: ("oltb", b, a)}.get(op)
            if m is None:
                refuse(e, "comparison %s of numbers" % op.__name__)
            return "(%s Op %s %s)" % m, "bool"
        if isinstance(e, ast.IfExp):
            c, tc = self.ex(e.test)
            a, ta = self.ex(e.body)
            b, tb = self.ex(e.orelse)
            if tc != "bool":
                refuse(e, "condition of type %s" % tc)
            if ta != tb and {ta, tb} <= {"nat", "natlit"}:
                ta = tb = "nat"
            if ta != tb:
                a, b, ta = self.toT(a, ta, e.body), self.toT(b, tb, e.orelse), "T"
            return "(if %s then %s else %s)" % (c, a, b), ta
        if isinstance(e, ast.Call):
            return self.call(e)
        if isinstance(e, ast.List) and not e.elts:
            return "(@nil _)", "list ind"
        if isinstance(e, ast.ListComp):
            # [x for x in l if c]  =  filter
            g = e.generators
            if len(g) != 1 or g[0].is_async or not isinstance(g[0].target, ast.Name) or len(g[0].ifs) != 1 \
                    or not isinstance(e.elt, ast.Name) or e.elt.id != g[0].target.id:
                refuse(e, "list comprehension other than [x for x in l if c]")
            it, tit = self.ex(g[0].iter)
            if tit != "list ind":
                refuse(e, "comprehension over a %s" % tit)
            x = g[0].target.id
            old = self.locals.get(x)
            self.locals[x] = "ind"
            self.in_fun += 1
            try:
                c, t = self.ex(g[0].ifs[0])
            finally:
                self.in_fun -= 1
                del self.locals[x]
                if old is not None:
                    self.locals[x] = old
            if t != "bool":
                refuse(e, "filter condition of type %s" % t)
            return "(filter (fun v_%s => %s) %s)" % (x, c, it), "list ind"
        refuse(e, "expression outside the grammar")

    def call(self, e):
        if e.keywords and not (isinstance(e.func, ast.Attribute) and e.func.attr == "get"):
            refuse(e, "keyword arguments")
        if any(isinstance(a, ast.Starred) for a in e.args):
            refuse(e, "starred argument")
        d = dotted(e.func)
        if d in ("sqrt", "exp", "numpy.sqrt", "math.sqrt", "math.exp", "numpy.exp") and len(e.args) == 1:
            base = d.split(".")[-1]
            if "." in d:
                if not self.mod.imports_module(d.split(".")[0]):
                    refuse(e, "%s is not the imported module" % d.split(".")[0])
            elif not self.mod.from_math(base):
                refuse(e, "%s is not math.%s in this module" % (base, base))
            c, t = self.ex(e.args[0])
            return "(%s Op %s)" % (MATH_NAMES[base], self.toT(c, t, e.args[0])), "T"
        if d == "hasattr" and len(e.args) == 2 and dotted(e.args[0]) == "self.parent" and isinstance(e.args[1], ast.Constant) \
                and e.args[1].value == "fitness" and self.spec.get("hasattr_parent_fitness") and not self.mod.rebinds("hasattr"):
            return self.spec["hasattr_parent_fitness"], "bool"
        if d == "list" and not e.args and not e.keywords and not self.mod.rebinds("list"):
            return "(@nil _)", "list ind"
        if d == "float" and len(e.args) == 1 and not self.mod.rebinds("float"):
            c, t = self.ex(e.args[0])
            return self.toT(c, t, e.args[0]), "T"
        if d in ("min", "max") and len(e.args) == 2 and not self.mod.rebinds(d):
            a, ta = self.ex(e.args[0])
            b, tb = self.ex(e.args[1])
            if ta in ("nat", "natlit") and tb in ("nat", "natlit"):
                return "(Nat.%s %s %s)" % (d, a, b), "nat"
            a, b = self.toT(a, ta, e.args[0]), self.toT(b, tb, e.args[1])
            # Python: min(a, b) is b if b < a else a; max(a, b) is b if b > a else a
            return "(if oltb Op %s then %s else %s)" % ("%s %s" % ((b, a) if d == "min" else (a, b)), b, a), "T"
        if d == "len" and len(e.args) == 1 and not self.mod.rebinds("len"):
            c, t = self.ex(e.args[0])
            if t != "list ind":
                refuse(e, "len of a %s" % t)
            return "(length %s)" % c, "nat"
        if d == "sum" and len(e.args) == 1 and isinstance(e.args[0], ast.GeneratorExp) and not self.mod.rebinds("sum"):
            g = e.args[0]
            if len(g.generators) != 1 or g.generators[0].ifs or g.generators[0].is_async \
                    or not isinstance(g.generators[0].target, ast.Name):
                refuse(e, "sum over a generator with several clauses / conditions")
            it, tit = self.ex(g.generators[0].iter)
            if tit != "list ind":
                refuse(e, "sum over a %s" % tit)
            x = g.generators[0].target.id
            old = self.locals.get(x)        # Python 3: the variable is local to the generator, as in `fun v_x => ..`
            self.locals[x] = "ind"
            self.in_fun += 1
            try:
                c, t = self.ex(g.elt)
            finally:
                self.in_fun -= 1
                del self.locals[x]
                if old is not None:
                    self.locals[x] = old
            if t != "bool":
                refuse(e, "sum of %s values (only a count of booleans is in the grammar)" % t)
            return "(count_if (fun v_%s => %s) %s)" % (x, c, it), "nat"
        if isinstance(e.func, ast.Attribute) and e.func.attr == "get" and dotted(e.func.value) in self.dict_ok \
                and len(e.args) == 2 and not e.keywords and isinstance(e.args[0], ast.Constant) \
                and isinstance(e.args[0].value, str):
            key = e.args[0].value
            if key in self.spec["supplied"]:
                if not pure(e.args[1]):
                    refuse(e, "default of a supplied key is not side-effect free")
                return self.spec["supplied"][key]
            return self.ex(e.args[1])
        refuse(e, "call of %s" % (d or "a computed function"))

    # ---------------- statements ----------------
    def flush(self, node):
        """hoisted subscripts of the statement just translated: binders in front of it"""
        for b, l, i in self.pending:
            self.lines.append("match nth_error %s %d with None => None | Some %s =>" % (l, i, b))
            self.closers += 1
        if self.pending and self.spec["result"][0] != "update":
            refuse(node, "subscript in a function whose result is not optional")
        self.pending = []

    def bind(self, name, code):
        self.lines.append("let %s := %s in" % (name, code))

    def set_target(self, tgt, code, t, node):
        if t == "natlit":
            t = "nat"
        if isinstance(tgt, ast.Name):
            if tgt.id in self.spec["params"] and self.spec["params"][tgt.id] is not None \
                    and self.locals.get(tgt.id) != t:
                refuse(node, "parameter rebound at another type")
            self.opaque_locals.discard(tgt.id)
            self.locals[tgt.id] = t
            self.bind("v_" + tgt.id, code)
            return
        d = dotted(tgt)
        if d and d.startswith("self.") and d[5:] in self.spec["scalars"]:
            a = d[5:]
            self.attrs[a] = ("s_" + a, t)
            self.assigned.add(a)
            self.bind("s_" + a, code)
            return
        refuse(node, "assignment target outside the grammar")

    def is_scalar_target(self, tgt):
        d = dotted(tgt)
        return bool(d and d.startswith("self.") and d[5:] in self.spec["scalars"])

    def is_opaque_target(self, tgt):
        d = dotted(tgt)
        return bool(d and d.startswith("self.") and d[5:] in self.spec["opaque"])

    def opaque_stmt(self, s):
        """a matrix-side statement: skipped if it cannot touch the scalar slice; otherwise refuse"""
        if isinstance(s, ast.Expr) and isinstance(s.value, ast.Call) and isinstance(s.value.func, ast.Attribute) \
                and s.value.func.attr in ("append", "pop") and self.is_opaque_target(s.value.func.value) \
                and not s.value.keywords and all(pure(a) for a in s.value.args):
            return          # list.append / list.pop on a matrix-side attribute (a plain list by the signature table)
        if isinstance(s, ast.Assign):
            tgts, val = s.targets, s.value
        elif isinstance(s, ast.AugAssign):
            tgts, val = [s.target], s.value
        else:
            refuse(s, "statement outside the grammar")
        for t in tgts:
            if isinstance(t, ast.Name):
                if t.id in self.spec["params"] and self.spec["params"][t.id] is not None:
                    refuse(s, "scalar-side parameter rebound by matrix-side code")
                continue
            if not self.is_opaque_target(t):
                refuse(s, "statement outside the grammar assigns %s" % (dotted(t) or type(t).__name__))
        if not pure(val):
            refuse(s, "right-hand side of a matrix-side statement is not in the side-effect-free whitelist")
        for t in tgts:
            if isinstance(t, ast.Name):
                self.locals.pop(t.id, None)
                self.opaque_locals.add(t.id)
            else:
                d = dotted(t)
                if d in self.spec["dicts"]:
                    # self.params = kargs.copy(): from here on self.params denotes the keyword dictionary
                    ok = (isinstance(val, ast.Call) and dotted(val.func) in
                          [x + ".copy" for x in self.dict_ok] and not val.args and not val.keywords) \
                        or (dotted(val) in self.dict_ok)
                    if not ok or not isinstance(s, ast.Assign):
                        refuse(s, "%s is not bound to a copy of the keyword dictionary" % d)
                    self.dict_ok.add(d)

    def stmt_scalar(self, s):
        """translate one statement of the scalar slice, or raise Refuse"""
        if isinstance(s, ast.Expr) and isinstance(s.value, ast.Constant) and isinstance(s.value.value, str):
            return
        if isinstance(s, ast.Assign):
            if len(s.targets) != 1:
                refuse(s, "multiple assignment")
            tgt = s.targets[0]
            prop = self.spec.get("prop")
            if prop and dotted(tgt) == "self." + prop[0]:
                c, t = self.ex(s.value)
                self.flush(s)
                if t not in ("nat", "natlit"):
                    refuse(s, "%s of type %s" % (prop[0], t))
                self.attrs[prop[0]] = ("s_" + prop[0], "nat")
                self.assigned.add(prop[0])
                self.bind("s_" + prop[0], c)
                self.block(self.mod.property_callee(self.spec["cls"], prop, s))
                return
            c, t = self.ex(s.value)
            self.flush(s)
            self.set_target(tgt, c, t, s)
            return
        if isinstance(s, ast.AugAssign):
            e = ast.BinOp(left=to_load(s.target), op=s.op, right=s.value)
            ast.copy_location(e, s)
            c, t = self.ex(e)
            self.flush(s)
            self.set_target(s.target, c, t, s)
            return
        if isinstance(s, ast.Expr) and isinstance(s.value, ast.Call):
            c = s.value
            if isinstance(c.func, ast.Attribute) and c.func.attr == "sort" and isinstance(c.func.value, ast.Name) \
                    and self.locals.get(c.func.value.id) == "list ind" and not c.args \
                    and sorted(k.arg or "" for k in c.keywords) == ["key", "reverse"]:
                kw = dict((k.arg, k.value) for k in c.keywords)
                key, rev = kw["key"], kw["reverse"]
                ok = isinstance(rev, ast.Constant) and rev.value is True and isinstance(key, ast.Lambda) \
                    and len(key.args.args) == 1 and not key.args.vararg and not key.args.kwarg \
                    and not key.args.kwonlyargs and not key.args.defaults and not key.args.posonlyargs \
                    and isinstance(key.body, ast.Attribute) and isinstance(key.body.value, ast.Name) \
                    and key.body.value.id == key.args.args[0].arg and key.body.attr == "fitness"
                if not ok:
                    refuse(s, "sort other than sort(key=lambda ind: ind.fitness, reverse=True)")
                v = "v_" + c.func.value.id
                fit = self.spec.get("ind_fit", "(snd %s)")
                self.bind(v, "sort_desc (fun a b => %s Op %s %s) %s" % (self.spec.get("cmp", ("lex_le", "lex_lt"))[1],
                                                                      fit % "a", fit % "b", v))
                return
            if isinstance(c.func, ast.Attribute) and c.func.attr == "append" and isinstance(c.func.value, ast.Name) \
                    and self.locals.get(c.func.value.id) == "list ind" and len(c.args) == 1 and not c.keywords \
                    and c.func.value.id not in self.spec["params"]:
                code, t = self.ex(c.args[0])
                if t != "ind" or self.pending:
                    refuse(s, "append of a %s" % t)
                v = "v_" + c.func.value.id
                self.bind(v, "(%s ++ [%s])" % (v, code))
                return
            cap = self.spec.get("capture")
            if cap and dotted(c.func) == "self." + cap[0] and not c.keywords and len(c.args) == cap[1] \
                    and not any(isinstance(a, ast.Starred) for a in c.args):
                if self.in_fun:
                    refuse(s, "captured call inside a loop")
                for i, a in enumerate(c.args):
                    if i != cap[2] and not pure(a):
                        refuse(s, "argument of the captured call is not side-effect free")
                code, t = self.ex(c.args[cap[2]])
                self.flush(s)
                self.assigned.add("#captured")
                self.bind("v__captured", "Some %s" % self.toT(code, t, s))
                return
            refuse(s, "call statement")
        if isinstance(s, ast.If):
            self.if_scalar(s)
            return
        if isinstance(s, ast.For):
            self.for_scalar(s)
            return
        refuse(s, "statement outside the grammar")

    def sub(self):
        t = Tr.__new__(Tr)
        t.__dict__.update(self.__dict__)
        t.attrs = dict(self.attrs)
        t.locals = dict(self.locals)
        t.opaque_locals = set(self.opaque_locals)
        t.assigned = set(self.assigned)
        t.tests = list(self.tests)
        t.pending = []
        t.lines = []
        t.closers = 0
        t.dict_ok = set(self.dict_ok)
        return t

    def carried(self, subs, node, loop=False):
        """names (locals / scalar attributes) bound in the sub-translations that were already bound before"""
        names = []
        for sb in subs:
            for l in sb.lines:
                if not l.startswith("let "):
                    refuse(node, "subscript inside a branch / loop body")
                if l.startswith("let '("):
                    ns = l[len("let '("):l.index(")")].split(", ")
                else:
                    ns = [l.split()[1]]
                for n in ns:
                    if n not in names:
                        names.append(n)
        out = []
        for n in names:
            if n.startswith("v_"):
                if n[2:] not in self.locals:
                    # a local first bound inside the block: usable afterwards only if every branch binds it
                    ts = set(sb.locals.get(n[2:]) for sb in subs)
                    if loop or len(ts) != 1 or None in ts:
                        self.opaque_locals.add(n[2:])
                        continue
                    self.opaque_locals.discard(n[2:])
                    self.locals[n[2:]] = ts.pop()
                    out.append(n)
                    continue
                ts = set(sb.locals.get(n[2:]) for sb in subs)
                if ts != {self.locals[n[2:]]}:
                    refuse(node, "%s changes its type in a branch" % n[2:])
            else:
                if n[2:] not in self.attrs:
                    refuse(node, "attribute %s first assigned inside a branch / loop" % n[2:])
                ts = set(sb.attrs[n[2:]][1] for sb in subs)
                if ts != {self.attrs[n[2:]][1]}:
                    refuse(node, "self.%s changes its type in a branch" % n[2:])
            out.append(n)
        return out

    def if_scalar(self, s):
        c, t = self.ex(s.test)
        self.flush(s)
        if t != "bool":
            refuse(s, "condition of type %s" % t)
        a, b = self.sub(), self.sub()
        for x in s.body:
            a.stmt_scalar(x)
        for x in s.orelse:
            b.stmt_scalar(x)
        if a.tests != self.tests or b.tests != self.tests:
            refuse(s, "matrix-side branch inside a scalar branch")
        names = self.carried([a, b], s)
        if not names:
            return
        tup = "(%s)" % ", ".join(names) if len(names) > 1 else names[0]
        pat = "'%s" % tup if len(names) > 1 else tup
        self.lines.append("let %s := if %s then %s %s else %s %s in"
                          % (pat, c, " ".join(a.lines), tup, " ".join(b.lines), tup))
        for sb in (a, b):
            self.assigned |= sb.assigned
        self.nbind = max(a.nbind, b.nbind)

    def for_scalar(self, s):
        if s.orelse or not isinstance(s.target, ast.Name):
            refuse(s, "for with else / a tuple target")
        it, tit = self.ex(s.iter)
        self.flush(s)
        if tit != "list ind":
            refuse(s, "for over a %s" % tit)
        x = s.target.id
        if x in self.locals:
            refuse(s, "loop variable overwrites a scalar local")
        a = self.sub()
        a.locals[x] = "ind"
        a.in_fun += 1
        for st in s.body:
            a.stmt_scalar(st)
        if a.tests != self.tests:
            refuse(s, "matrix-side branch inside a loop")
        del a.locals[x]
        names = self.carried([a], s, loop=True)
        if "v_" + x in names:
            refuse(s, "loop variable assigned in the body")
        if not names:
            return
        tup = "(%s)" % ", ".join(names) if len(names) > 1 else names[0]
        pat = "'%s" % tup if len(names) > 1 else tup
        self.lines.append("let %s := fold_left (fun %s v_%s => %s %s) %s %s in"
                          % (pat, pat, x, " ".join(a.lines), tup, it, tup))
        self.opaque_locals.add(x)       # the loop variable stays bound in Python; the slice may not read it

    def if_opaque(self, s, depth):
        """an `if` over matrix-side statements: only its test belongs to the slice"""
        if self.spec["result"][0] == "scalars":
            # the result carries no branch tests: the test only has to be free of side effects
            if not pure(s.test):
                refuse(s.test, "test of a matrix-side branch is not in the side-effect-free whitelist")
        else:
            c, t = self.ex(s.test)
            self.flush(s)
            if t != "bool":
                refuse(s, "condition of type %s" % t)
            self.tests.append((depth, "t_%d" % (len(self.tests) + 1)))
            self.bind(self.tests[-1][1], c)
        for blk in (s.body, s.orelse):
            for x in blk:
                if isinstance(x, ast.If):
                    self.if_opaque(x, depth + 1)
                else:
                    self.opaque_stmt(x)

    def block(self, stmts):
        for s in stmts:
            if isinstance(s, ast.If):
                t = self.sub()
                try:
                    t.if_scalar(s)
                except Refuse:
                    self.if_opaque(s, 0)
                    continue
                keep_lines, keep_closers = self.lines + t.lines, self.closers + t.closers
                self.__dict__.update(t.__dict__)
                self.lines, self.closers = keep_lines, keep_closers
                if "#captured" in self.assigned and self.top_level == id(stmts):
                    break
                continue
            scalar = True
            if isinstance(s, (ast.Assign, ast.AugAssign)):
                tgts = s.targets if isinstance(s, ast.Assign) else [s.target]
                if all(self.is_opaque_target(t) for t in tgts):
                    scalar = False
                elif all(isinstance(t, ast.Name) for t in tgts):
                    # a local: scalar when its right-hand side is in the expression grammar, matrix-side otherwise
                    t = self.sub()
                    try:
                        t.stmt_scalar(s)
                    except Refuse:
                        scalar = False
            if scalar:
                self.stmt_scalar(s)
            else:
                self.opaque_stmt(s)
            if "#captured" in self.assigned and self.top_level == id(stmts):
                break       # the rest cannot change the captured value (exactly one call site: checked beforehand)

    # ---------------- result ----------------
    def finish(self, node):
        r = self.spec["result"]
        if r[0] in ("record", "record+"):
            fields = []
            for a, t in zip(r[2], r[3]):
                if a not in self.attrs:
                    refuse(node, "self.%s is never assigned" % a)
                c, ta = self.attrs[a]
                if a in self.spec["scalars"] and a not in self.assigned:
                    refuse(node, "self.%s is never assigned" % a)
                if t == "T":
                    c = self.toT(c, ta, node)
                elif ta != t:
                    refuse(node, "self.%s has type %s, expected %s" % (a, ta, t))
                fields.append(c)
            if self.tests:
                refuse(node, "conditional matrix-side code in a parameter function")
            out = "%s %s" % (r[1], " ".join(fields))
            if r[0] == "record+":
                if r[4] not in self.assigned and r[4] not in self.attrs:
                    refuse(node, "self.%s is never assigned" % r[4])
                c, ta = self.attrs[r[4]]
                out = "(%s, %s)" % (out, self.toT(c, ta, node))
            return out
        if r[0] == "capture":
            if "#captured" not in self.assigned or self.tests:
                refuse(node, "no call of self.%s found by the slice" % self.spec["capture"][0])
            return "v__captured"
        if r[0] == "scalars":
            vals = []
            for a in r[1]:
                if a not in self.assigned:
                    refuse(node, "self.%s is never assigned" % a)
                c, ta = self.attrs[a]
                vals.append(self.toT(c, ta, node))
            return "(%s)" % ", ".join(vals)
        if r[0] == "update":
            vals = []
            for a in r[1]:
                if a not in self.assigned:
                    refuse(node, "self.%s is never assigned" % a)
                c, ta = self.attrs[a]
                vals.append(self.toT(c, ta, node))
            if [d for d, _ in self.tests] != list(range(r[2])):
                refuse(node, "the matrix-side code is not one `if` nested in one `if` (%d tests, depths %s)"
                       % (len(self.tests), [d for d, _ in self.tests]))
            return "Some (%s)" % ", ".join(vals + [n for _, n in self.tests])
        refuse(node, "unknown result kind")


def to_load(t):
    t = fresh_copy(t)
    for n in ast.walk(t):
        if hasattr(n, "ctx"):
            n.ctx = ast.Load()
    return t


def pure(e):
    """side-effect-free by construction: names, attributes, subscripts, arithmetic, displays, whitelisted calls,
    <dict>.get / <dict>.copy, list comprehensions over pure iterables"""
    for n in ast.walk(e):
        if not isinstance(n, PURE_NODES):
            return False
        if isinstance(n, ast.Call):
            d = dotted(n.func)
            if d is None or any(isinstance(a, ast.Starred) for a in n.args) or any(k.arg is None for k in n.keywords):
                return False
            if d in PURE_CALLS:
                continue
            if d.endswith(".get") or d.endswith(".copy"):
                b = d.rsplit(".", 1)[0]
                if b in ("params", "kargs", "self.params"):
                    continue
            return False
        if isinstance(n, ast.comprehension) and (n.is_async or not isinstance(n.target, ast.Name)):
            return False
    return True


class Module(object):
    def __init__(self, src):
        self.tree = ast.parse(src)
        self.top = {}          # name -> list of binding statements at module level
        for s in self.tree.body:
            for n in self.bound_names(s):
                self.top.setdefault(n, []).append(s)
        self.classes = dict((s.name, s) for s in self.tree.body if isinstance(s, ast.ClassDef))

    @staticmethod
    def bound_names(s):
        if isinstance(s, (ast.FunctionDef, ast.ClassDef, ast.AsyncFunctionDef)):
            return [s.name]
        if isinstance(s, (ast.Import, ast.ImportFrom)):
            return [(a.asname or a.name).split(".")[0] for a in s.names]
        out = []
        if isinstance(s, (ast.Expr, ast.Pass)):
            return out
        for n in ast.walk(s):
            if isinstance(n, ast.Name) and isinstance(n.ctx, (ast.Store, ast.Del)):
                out.append(n.id)
            if isinstance(n, (ast.Global, ast.Nonlocal)):
                out += n.names
        return out

    def rebinds(self, name):
        return name in self.top

    def from_math(self, name):
        b = self.top.get(name, [])
        return len(b) == 1 and isinstance(b[0], ast.ImportFrom) and b[0].module == "math" and b[0].level == 0 \
            and any(a.name == name and a.asname is None for a in b[0].names)

    def imports_module(self, name):
        b = self.top.get(name, [])
        return len(b) == 1 and isinstance(b[0], ast.Import) and any(a.name == name and a.asname is None for a in b[0].names)

    def method(self, cls, name):
        c = self.classes.get(cls)
        if c is None:
            refuse("ClassDef", "class %s not found" % cls)
        ms = [s for s in c.body if isinstance(s, ast.FunctionDef) and s.name == name]
        if len(ms) != 1:
            refuse(c, "%d definitions of %s.%s" % (len(ms), cls, name))
        return ms[0]

    def property_callee(self, cls, prop, node):
        """self.<p> = e  with  @property p: return self._p  /  @p.setter: self._p = value; self.<callee>()"""
        p, store, callee = prop
        c = self.classes[cls]
        defs = [s for s in c.body if isinstance(s, ast.FunctionDef) and s.name == p]
        want_get = "def %s(self):\n    return self.%s" % (p, store)
        want_set = "def %s(self, value):\n    self.%s = value\n    self.%s()" % (p, store, callee)
        if len(defs) != 2:
            refuse(node, "%s.%s is not a getter / setter pair" % (cls, p))
        g, st = defs

        def shape(f, want, deco):
            f2 = fresh_copy(f)
            f2.decorator_list = []
            if f2.body and isinstance(f2.body[0], ast.Expr) and isinstance(f2.body[0].value, ast.Constant) \
                    and isinstance(f2.body[0].value.value, str):
                f2.body = f2.body[1:]
            return ast.dump(f2) == ast.dump(ast.parse(want).body[0]) and [dotted(d) for d in f.decorator_list] == [deco]
        if not (shape(g, want_get, "property") and shape(st, want_set, p + ".setter")):
            refuse(node, "property %s.%s does not have the expected getter / setter" % (cls, p))
        if any(isinstance(s, ast.FunctionDef) and s.name in ("__setattr__", "__getattr__", "__getattribute__")
               for s in c.body):
            refuse(node, "%s customises attribute access" % cls)
        m = self.method(cls, callee)
        check_sig(m, ["self"], None)
        check_names(m)
        return m.body


RESERVED = ("self", "sqrt", "exp", "log", "numpy", "math", "copy", "float", "int", "len", "sum", "min", "max", "list", "range",
            "hasattr", "tools", "abs", "sorted", "any", "all")


def check_names(f):
    """the names the translation gives a fixed meaning may not be rebound inside the function (nor be parameters)"""
    a = f.args
    for x in a.args[1:] + a.kwonlyargs + a.posonlyargs + ([a.vararg] if a.vararg else []) + ([a.kwarg] if a.kwarg else []):
        if x.arg in RESERVED:
            refuse(f, "parameter named %s" % x.arg)
    for n in ast.walk(f):
        if isinstance(n, ast.Name) and isinstance(n.ctx, (ast.Store, ast.Del)) and n.id in RESERVED:
            refuse(n, "%s is rebound inside the function" % n.id)


def check_sig(f, params, kwarg):
    a = f.args
    if [x.arg for x in a.args] != params or a.vararg or a.kwonlyargs or a.posonlyargs or a.defaults \
            or (a.kwarg.arg if a.kwarg else None) != kwarg or f.decorator_list:
        refuse(f, "signature of %s is not (%s%s)" % (f.name, ", ".join(params), ", **" + kwarg if kwarg else ""))


def translate_function(mod, key):
    spec = FUNCS[key]
    f = mod.method(spec["cls"], spec["method"])
    ps = [p for p in spec["params"]]
    kw = None
    if spec["method"] == "__init__":
        kw = ps[-1]
        ps = ps[:-1]
    check_sig(f, ["self"] + ps, kw)
    c = mod.classes[spec["cls"]]
    if any(isinstance(s, ast.FunctionDef) and s.name in ("__setattr__", "__getattr__", "__getattribute__") for s in c.body):
        refuse(c, "%s customises attribute access" % spec["cls"])
    if [dotted(b) for b in c.bases] != ["object"] or c.keywords or c.decorator_list:
        refuse(c, "%s has base classes / a metaclass / decorators" % spec["cls"])
    for n in ast.walk(f):
        if n is not f and isinstance(n, (ast.Return, ast.Yield, ast.YieldFrom, ast.Try, ast.With, ast.While, ast.Global, ast.Nonlocal,
                          ast.FunctionDef, ast.ClassDef, ast.Delete, ast.Raise, ast.Break, ast.Continue, ast.Await,
                          ast.NamedExpr, ast.Import, ast.ImportFrom)):
            refuse(n, "statement / expression outside the grammar")
    if spec.get("capture"):
        calls = [n for n in ast.walk(f) if isinstance(n, ast.Attribute) and n.attr == spec["capture"][0]]
        if len(calls) != 1:
            refuse(f, "%d references to %s" % (len(calls), spec["capture"][0]))
    check_names(f)
    tr = Tr(mod, spec)
    tr.closers = 0
    tr.top_level = id(f.body)
    tr.block(f.body)
    res = tr.finish(f)
    body = "\n  ".join(tr.lines + [res]) + (" end" * tr.closers)
    return "%s :=\n  %s." % (spec["header"], body)


HEADER = """(* GENERATED by harness/c14_py2coq.py from %s -- do not edit, never committed *)
From Coq Require Import List ZArith Bool.
Import ListNotations.
From DV Require Import Model.C14_exec Model.C14_GenRt.

Section Gen.
Context {T : Type} (Op : Ops T).
"""


def translate_source(src, forced=()):
    """-> (text of coq/Gen/C14_gen.v, status: key -> None | Refuse)"""
    status = {}
    try:
        mod = Module(src)
        err = None
    except (SyntaxError, ValueError) as e:
        mod, err = None, Refuse("Module", "source does not parse: %s" % e)
    out = [HEADER % "/".join(FILE)]
    for key in ORDER:
        spec = FUNCS[key]
        try:
            if err is not None:
                raise err
            if key in forced:
                refuse("FunctionDef", "refusal forced (self-test)")
            txt = translate_function(mod, key)
            status[key] = None
        except Refuse as r:
            status[key] = r
            txt = "(* REFUSED %s.%s: %s *)\n%s :=\n  %s." % (spec["cls"], spec["method"], str(r).replace("*)", "* )"),
                                                          spec["header"], spec["placeholder"])
        except RecursionError:
            status[key] = Refuse("FunctionDef", "expression too deep")
            txt = "(* REFUSED *)\n%s :=\n  %s." % (spec["header"], spec["placeholder"])
        out.append(txt + "\n")
    out.append("End Gen.\n")
    return "\n".join(out), status


def translate_repo(repo, forced=()):
    with open(os.path.join(repo, *FILE)) as f:
        src = f.read()
    return translate_source(src, forced)


if __name__ == "__main__":
    import sys
    t, st = translate_repo(sys.argv[1] if len(sys.argv) > 1 else os.environ.get("VERIF_REPO", "/repo"))
    print(t)
    for k, v in st.items():
        print("(* %s: %s *)" % (k, "translated" if v is None else "REFUSED %s" % v))
