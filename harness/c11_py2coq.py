"""Fail-closed translator: the tree part of deap/gp.py -> Gallina (tie (T) of property C11, DESIGN.md 2.3).

The working-tree source is parsed with Python's `ast`; the body of every function of the table FUNCS is
compiled, statement by statement, into the draw monad `M` of coq/Model/C11_GPTree.v with the statement
vocabulary of coq/Model/C11_GenRt.v and written to coq/Gen/C11_gen.v (never committed).
coq/Proofs/C11_gen_equiv.v then proves, for all arguments and all draw lists, `gen_f args ds = <hand model> args ds`
and coq/Props/C11_gen.v restates the C11 theorems on the regenerated definitions.  A semantic change of the
source breaks a proof obligation; a construct outside the grammar makes the translator REFUSE that function
(class Refuse): its regenerated definition is then the hand model itself (a placeholder, reported as such) and
the function is tied by the correspondence only.

Grammar (everything else is refused)
  statements   x = e | a, b = e | x op= e (+ -) | l[i] = e | l[a:b] = e | t1[s1], t2[s2] = e1, e2 | l.append(e) | l.extend(e)
               | l.insert(i, e) | x = l.pop() | d[k].append(e) | d[k] = e | if/elif/else | for <name or tuple> in <iterable>
               | while <pure condition> (the body must contain a draw site or a direct item read l[i]) | return e | raise IndexError/ValueError(<message>) | nested def (closure over names
               the enclosing function never rebinds) | try: <one assignment> except IndexError: <re-raise IndexError> | docstrings
               | `if x is None: x = e` for an optional parameter | isinstance(key, slice) decided by the declared type of key
  iterables    a list / tree | range(n) | enumerate(l[, start]) | reversed(l) | l[a:b]
  expressions  int constants, names, + - * and unary - on ints, comparisons, and/or/not (an operand with effects is
               sequenced by short-circuit evaluation), conditional expressions, len max min, tuples, list displays,
               [e] * n ([None] * n: a list of placeholders, items are stored as Some and the list is unwrapped where a list
               of nodes is needed), l[i], l[a:b], slice(a, b), comprehensions with one for clause and pure parts, attribute reads of the
               signature table (.arity .ret .args .start .stop .root .height .terminals .primitives .ret .terminalRatio),
               random.random/randint/randrange/choice as typed draw sites, term() / type(x)() for ephemerals,
               type(x) is MetaEphemeral / isclass(x) / isinstance(type(x), MetaEphemeral) / isinstance(x, Primitive),
               partial(eq, 0) / partial(lt, 0), defaultdict(list), copy.deepcopy(x), calls of translated functions,
               of nested functions and of function-valued parameters.
Types: Z (every Python int), bool, node, ty (a Python type object), frac (a float probability), pset, slice (two ints),
mode, tree (a PrimitiveTree: item / slice assignment goes through __setitem__), lists, tuples, option, dd
(defaultdict(list) from types to lists of ints), function types from the signature table.
A name first bound inside a loop and read after it is carried as an option (`unbound` where it is read).
C11_FORCE_REFUSE=<gen name>[,..] in the environment forces the refusal of functions (self-test of the proof scripts).
Trees and lists are values in the generated text: an in-place change rebinds the name, so it is only accepted on a
parameter of type tree (the signature table declares distinct tree parameters to be distinct objects) or on a local
list created by the function itself and never bound to a second name.
"""
import ast
import os
import re


class Refuse(Exception):
    def __init__(self, node, why):
        self.node = type(node).__name__ if not isinstance(node, str) else node
        self.line = getattr(node, "lineno", None)
        self.why = why
        Exception.__init__(self, "%s at line %s: %s" % (self.node, self.line, why))


def refuse(node, why):
    raise Refuse(node, why)


# ---- types --------------------------------------------------------------------------------------------
class FnT(object):
    """function value: parameter (name, type) list and result type (always in M)"""
    def __init__(self, params, ret):
        self.params, self.ret = list(params), ret

    def __eq__(self, other):
        return isinstance(other, FnT) and [t for _, t in self.params] == [t for _, t in other.params] and self.ret == other.ret

    def __ne__(self, other):
        return not self.__eq__(other)

    def __hash__(self):
        return hash(("FnT", len(self.params)))


def L(t):
    return ("list", t)


def is_list(t):
    return t == "tree" or (isinstance(t, tuple) and t[0] == "list")


def elem(t):
    return "node" if t == "tree" else t[1]


def is_optq(t):
    return isinstance(t, tuple) and t[0] == "opt" and t[1] == "?"


def compat(a, b):
    """element types that can be the same type ('?' = not yet known)"""
    if a == b or a == "?" or b == "?":
        return True
    return isinstance(a, tuple) and isinstance(b, tuple) and a[0] == "opt" and b[0] == "opt" and compat(a[1], b[1])


def refine(a, b):
    if a == "?" or is_optq(a):
        return b if compat(a, b) else a
    return a


def is_tuple(t):
    return isinstance(t, tuple) and t[0] == "tuple"


def coqtype(t):
    if isinstance(t, FnT):
        return "(%s)" % " -> ".join([coqtype(x) for _, x in t.params] + ["M %s" % coqtype(t.ret)])
    if t in ("Z", "bool", "node", "ty", "frac", "pset", "slice", "dd"):
        return t
    if t == "mode":
        return "emode"
    if t == "tree":
        return "(list node)"
    if t == "arityop":
        return "(node -> bool)"
    if isinstance(t, tuple) and t[0] == "list" and t[1] != "?":
        return "(list %s)" % coqtype(t[1])
    if isinstance(t, tuple) and t[0] == "opt":
        return "(option %s)" % coqtype(t[1])
    if is_tuple(t):
        return "(%s)" % " * ".join(coqtype(x) for x in t[1])
    raise Refuse("type", "no Coq type for %s" % (t,))


# ---- signature table (trusted) ---------------------------------------------------------------------------
COND = FnT([("height", "Z"), ("depth", "Z")], "bool")
EXPR = FnT([("pset", "pset"), ("type_", "ty")], L("node"))
GENFN = FnT([("pset", "pset"), ("min_", "Z"), ("max_", "Z"), ("type_", ("opt", "ty"))], L("node"))
KEYFN = FnT([("ind", "tree")], "Z")
OPFN = FnT([("args", L("tree"))], L("tree"))
# (python name, class or None, gen name, parameters, defaults {name: ast-dump of the default}, result type,
#  how the function ends: "return" | "self" (a method changing self in place: the new self is the result),
#  variant (for __setitem__: which declared type of `key`), placeholder = the hand model)
FUNCS = [
    ("root", "PrimitiveTree", "gen_root", [("self", "tree")], {}, "node", "return", None, "m_root self"),
    ("searchSubtree", "PrimitiveTree", "gen_searchSubtree", [("self", "tree"), ("begin", "Z")], {}, "slice", "return", None,
     "m_searchSubtree self begin"),
    ("height", "PrimitiveTree", "gen_height", [("self", "tree")], {}, "Z", "return", None, "m_height self"),
    ("__setitem__", "PrimitiveTree", "gen_setitem_slice", [("self", "tree"), ("key", "slice"), ("val", L("node"))], {},
     "tree", "self", "slice", "m_setitem_slice self key val"),
    ("__setitem__", "PrimitiveTree", "gen_setitem_item", [("self", "tree"), ("key", "Z"), ("val", "node")], {},
     "tree", "self", "item", "m_setitem_item self key val"),
    ("generate", None, "gen_generate",
     [("pset", "pset"), ("min_", "Z"), ("max_", "Z"), ("condition", COND), ("type_", ("opt", "ty"))], {"type_": "None"},
     L("node"), "return", None, "m_generate pset' min_ max_ condition type_"),
    ("genFull", None, "gen_genFull", GENFN.params, {"type_": "None"}, L("node"), "return", None,
     "m_genFull pset' min_ max_ type_"),
    ("genGrow", None, "gen_genGrow", GENFN.params, {"type_": "None"}, L("node"), "return", None,
     "m_genGrow pset' min_ max_ type_"),
    ("genHalfAndHalf", None, "gen_genHalfAndHalf", GENFN.params, {"type_": "None"}, L("node"), "return", None,
     "m_genHalfAndHalf pset' min_ max_ type_"),
    ("mutShrink", None, "gen_mutShrink", [("individual", "tree")], {}, "tree", "return", None, "m_mutShrink individual"),
    ("mutInsert", None, "gen_mutInsert", [("individual", "tree"), ("pset", "pset")], {}, "tree", "return", None,
     "m_mutInsert individual pset'"),
    ("mutNodeReplacement", None, "gen_mutNodeReplacement", [("individual", "tree"), ("pset", "pset")], {}, "tree", "return",
     None, "m_mutNodeReplacement individual pset'"),
    ("mutEphemeral", None, "gen_mutEphemeral", [("individual", "tree"), ("mode", "mode")], {}, "tree", "return", None,
     "m_mutEphemeral individual mode"),
    ("mutUniform", None, "gen_mutUniform", [("individual", "tree"), ("expr", EXPR), ("pset", "pset")], {}, "tree", "return",
     None, "m_mutUniform individual expr pset'"),
    ("cxOnePoint", None, "gen_cxOnePoint", [("ind1", "tree"), ("ind2", "tree")], {}, ("tuple", ("tree", "tree")), "return",
     None, "m_cxOnePoint ind1 ind2"),
    ("cxOnePointLeafBiased", None, "gen_cxOnePointLeafBiased", [("ind1", "tree"), ("ind2", "tree"), ("termpb", "frac")], {},
     ("tuple", ("tree", "tree")), "return", None, "m_cxOnePointLeafBiased ind1 ind2 termpb"),
    ("staticLimit", None, "gen_staticLimit", [("key", KEYFN), ("max_value", "Z")], {}, None, "decorator", None,
     "m_staticLimit key max_value func args"),
]
# names with a fixed meaning: how they must be bound at module level
EXPECTED = {
    "random": ("import", None, "random"), "copy": ("import", None, "copy"), "sys": ("import", None, "sys"),
    "isclass": ("from", "inspect", "isclass"), "defaultdict": ("from", "collections", "defaultdict"),
    "partial": ("from", "functools", "partial"), "wraps": ("from", "functools", "wraps"),
    "eq": ("from", "operator", "eq"), "lt": ("from", "operator", "lt"),
    "__type__": ("assign-object", None, None),
    "PrimitiveTree": ("def", None, None), "Primitive": ("def", None, None), "Terminal": ("def", None, None),
    "MetaEphemeral": ("def", None, None),
}
BUILTINS = ("len", "max", "min", "range", "list", "enumerate", "reversed", "isinstance", "type", "slice", "zip",
            "IndexError", "ValueError", "object", "int", "bool", "tuple", "sorted", "sum", "abs", "any", "all", "map",
            "filter", "iter", "next", "getattr", "setattr", "hasattr", "str", "repr", "None", "True", "False")
# identifiers the generated text uses: a Python local of that name gets a prime
RESERVED = set("""fun forall exists match with end if then else let in as return fix cofix struct Type Prop Set where at using
for of ret fail raise bind lift M res Ok Err err EDraw EEmpty EIndex EValue EFuel draw node ty pset slice dd frac emode
EOne EAll EOther tobj nname nargs nret neph nval arity zarity set_val tys_eqb mem_ty node_eqb zlen len getitem list_setitem
getslice setslice getslice_obj setslice_obj pop_last list_insert list_mul range1 range2 enumerate_from is_primitive
eph_call frac_ltb frac_leb terminal_ratio dd_get dd_mem dd_append dd_set dd_keys mode_eqb for_each while_fuel while_draws
d_random d_randint d_randrange d_choice d_eph prims terms p_ret p_prims p_terms p_rnum p_rden lt_frac is_term is_prim
map filter rev app nil cons fst snd negb andb orb true false tt unit nat Z N bool list option Some None length existsb
firstn skipn combine seq repeat concat id positive eq0 lt0 unbound EStuck unwrap_all""".split())


def cn(name):
    """Coq identifier of a Python local (no Python identifier contains a prime, so the renaming is injective)"""
    if name in RESERVED or name in BUILTINS or name in EXPECTED or re.fullmatch(r"t\d+", name) \
            or name.startswith("gen_") or name.startswith("m_") or name == "_":
        return name + "'"
    return name


ERRS = {"IndexError": "EIndex", "ValueError": "EValue"}



class Scope(object):
    """what `return` / falling off the end mean where a block is compiled"""
    def __init__(self, ret=False, fall=None):
        self.ret, self.fall = ret, fall


class Tr(object):
    """Translator of one function body (nested functions and branches get sub-translators sharing the counter)."""

    def __init__(self, glob, fname, variant=None, counter=None, meth=None):
        self.glob = glob              # python name -> (gen name, FnT) of the already translated module-level functions
        self.meth = meth if meth is not None else {}     # tree methods / properties -> (gen name, FnT)
        self.fname = fname
        self.variant = variant
        self.env = {}                 # python name -> type
        self.counter = counter if counter is not None else [0]
        self.mutable = set()          # names whose list value may be changed in place
        self.tainted = set()          # defaultdicts that have been read by d[k] (a read may insert the key)
        self.rettype = None
        self.owner = self

    def temp(self):
        self.counter[0] += 1
        return "t%d" % self.counter[0]

    def sub(self):
        s = Tr(self.glob, self.fname, self.variant, self.counter, self.meth)
        s.env = dict(self.env)
        s.mutable = self.mutable
        s.tainted = self.tainted
        s.rettype = self.rettype
        s.owner = self.owner
        return s

    def local(self, node, name):
        if name in BUILTINS or name in EXPECTED or not re.fullmatch(r"[A-Za-z_][A-Za-z0-9_]*", name) or name in self.glob:
            refuse(node, "local name %r rebinds a name of fixed meaning" % name)
        return cn(name)

    def is_free(self, name):
        """the name is not a local: it has its module-level / builtin meaning"""
        return name not in self.env

    # ---- expressions: (text, type); effects are appended to binds in evaluation order ----------------------
    def pure(self, e, what):
        b = []
        v, t = self.expr(e, b)
        if b:
            refuse(e, "%s that can raise or draw" % what)
        return v, t

    def zexpr(self, e, binds, what="operand"):
        v, t = self.expr(e, binds)
        if t != "Z":
            refuse(e, "%s of type %s where an int is needed" % (what, t))
        return v

    def expr(self, e, binds):
        if isinstance(e, ast.Constant):
            if isinstance(e.value, bool):
                return ("true" if e.value else "false"), "bool"
            if isinstance(e.value, int):
                return ("%d" % e.value if e.value >= 0 else "(%d)" % e.value), "Z"
            if isinstance(e.value, str):
                return {"one": "EOne", "all": "EAll"}.get(e.value, "EOther"), "mode"
            if e.value is None:
                return "None", "none"
            refuse(e, "constant %r" % (e.value,))
        if isinstance(e, ast.Name):
            if not isinstance(e.ctx, ast.Load):
                refuse(e, "name in store context")
            if e.id in self.env:
                t = self.env[e.id]
                if isinstance(t, tuple) and t[0] == "maybe":
                    # bound only inside a loop that may have run zero times: UnboundLocalError at the first use
                    binds.append((cn(e.id), "unbound %s" % cn(e.id)))
                    self.env[e.id] = t = t[1]
                return cn(e.id), t
            if e.id in self.glob:
                return self.glob[e.id]
            if e.id == "__type__":
                return "tobj", "ty"
            refuse(e, "unknown name %s" % e.id)
        if isinstance(e, ast.Tuple):
            if not e.elts:
                refuse(e, "empty tuple")
            vs = [self.expr(x, binds) for x in e.elts]
            if len(vs) == 1:
                # a one-element tuple used as a sequence
                return "[%s]" % vs[0][0], ("list", vs[0][1])
            return "(%s)" % ", ".join(v for v, _ in vs), ("tuple", tuple(t for _, t in vs))
        if isinstance(e, ast.List):
            if not e.elts:
                return "nil", ("list", "?")
            vs = [self.expr(x, binds) for x in e.elts]
            t = vs[0][1]
            if any(x[1] != t for x in vs):
                refuse(e, "list display of mixed types")
            if t == "none":
                # placeholders: a list of optional values whose element type is fixed by the first item stored
                return "[%s]" % "; ".join(v for v, _ in vs), ("list", ("opt", "?"))
            return "[%s]" % "; ".join(v for v, _ in vs), ("list", t)
        if isinstance(e, ast.Attribute):
            return self.attribute(e, binds)
        if isinstance(e, ast.UnaryOp):
            if isinstance(e.op, ast.Not):
                v, t = self.expr(e.operand, binds)
                if t != "bool":
                    refuse(e, "not of %s" % (t,))
                return "(negb %s)" % v, "bool"
            if isinstance(e.op, ast.USub):
                return "(- %s)" % self.zexpr(e.operand, binds), "Z"
            refuse(e, "unary operator %s" % type(e.op).__name__)
        if isinstance(e, ast.BinOp):
            return self.binop(e, binds)
        if isinstance(e, ast.Compare):
            return self.compare(e, binds)
        if isinstance(e, ast.BoolOp):
            return self.boolop(e, binds)
        if isinstance(e, ast.IfExp):
            c, tc = self.expr(e.test, binds)
            if tc != "bool":
                refuse(e, "condition of type %s" % (tc,))
            a, ta = self.pure(e.body, "branch of a conditional expression")
            b, tb = self.pure(e.orelse, "branch of a conditional expression")
            if ta != tb:
                refuse(e, "conditional expression of types %s and %s" % (ta, tb))
            return "(if %s then %s else %s)" % (c, a, b), ta
        if isinstance(e, ast.Subscript):
            return self.subscript(e, binds)
        if isinstance(e, ast.ListComp):
            return self.comprehension(e, binds)
        if isinstance(e, ast.Call):
            return self.call(e, binds)
        refuse(e, "expression outside the grammar")

    def binop(self, e, binds):
        a, ta = self.expr(e.left, binds)
        b, tb = self.expr(e.right, binds)
        op = type(e.op)
        if ta == "Z" and tb == "Z":
            sym = {ast.Add: "+", ast.Sub: "-", ast.Mult: "*"}.get(op)
            if sym is None:
                refuse(e, "operator %s on ints" % op.__name__)
            return "(%s %s %s)" % (a, sym, b), "Z"
        if is_list(ta) and tb == "Z" and op is ast.Mult:
            if ta == ("list", "?"):
                refuse(e, "[] * n")
            return "(list_mul %s %s)" % (a, b), ("list", elem(ta))
        if is_list(ta) and is_list(tb) and op is ast.Add:
            t = self.join_list(e, ta, tb)
            return "(app %s %s)" % (a, b), t
        refuse(e, "operator %s on %s, %s" % (op.__name__, ta, tb))

    def join_list(self, node, ta, tb):
        ea, eb = elem(ta), elem(tb)
        if ea == "?":
            return ("list", eb)
        if eb == "?" or ea == eb:
            return ("list", ea)
        refuse(node, "lists of %s and of %s" % (ea, eb))

    def type_test(self, e):
        """type(x) -> x, for the idioms on ephemerals"""
        if isinstance(e, ast.Call) and isinstance(e.func, ast.Name) and e.func.id == "type" and self.is_free("type") \
                and len(e.args) == 1 and not e.keywords:
            return e.args[0]
        return None

    def compare(self, e, binds):
        if len(e.ops) != 1:
            refuse(e, "chained comparison")
        op, lhs, rhs = e.ops[0], e.left, e.comparators[0]
        # type(term) is MetaEphemeral
        x = self.type_test(lhs)
        if x is not None and isinstance(op, ast.Is) and isinstance(rhs, ast.Name) and rhs.id == "MetaEphemeral" \
                and self.is_free("MetaEphemeral"):
            v, t = self.expr(x, binds)
            if t != "node":
                refuse(e, "type(..) is MetaEphemeral on %s" % (t,))
            return "(neph %s)" % v, "bool"
        a, ta = self.expr(lhs, binds)
        b, tb = self.expr(rhs, binds)
        if isinstance(op, (ast.Is, ast.IsNot)):
            if tb == "none" and isinstance(ta, tuple) and ta[0] == "opt":
                r = "(match %s with None => true | Some _ => false end)" % a
                return (r if isinstance(op, ast.Is) else "(negb %s)" % r), "bool"
            refuse(e, "is / is not on %s, %s" % (ta, tb))
        if isinstance(op, (ast.In, ast.NotIn)):
            if ta == "ty" and tb == ("list", "ty"):
                r = "(mem_ty %s %s)" % (a, b)
            elif ta == "ty" and tb == "dd":
                if isinstance(rhs, ast.Name) and rhs.id in self.tainted:
                    refuse(e, "membership test of a defaultdict after a read d[k] (which may have inserted the key)")
                r = "(dd_mem %s %s)" % (b, a)
            elif ta == "mode" and tb == ("list", "mode"):
                r = "(existsb (mode_eqb %s) %s)" % (a, b)
            elif ta == "Z" and tb == ("list", "Z"):
                r = "(existsb (Z.eqb %s) %s)" % (a, b)
            else:
                refuse(e, "membership of %s in %s" % (ta, tb))
            return (r if isinstance(op, ast.In) else "(negb %s)" % r), "bool"
        if ta != tb:
            refuse(e, "comparison of %s with %s" % (ta, tb))
        if ta == "Z":
            table = {ast.Lt: "(%s <? %s)" % (a, b), ast.Gt: "(%s <? %s)" % (b, a), ast.LtE: "(%s <=? %s)" % (a, b),
                     ast.GtE: "(%s <=? %s)" % (b, a), ast.Eq: "(%s =? %s)" % (a, b), ast.NotEq: "(negb (%s =? %s))" % (a, b)}
        elif ta == "frac":
            table = {ast.Lt: "(frac_ltb %s %s)" % (a, b), ast.Gt: "(frac_ltb %s %s)" % (b, a),
                     ast.LtE: "(frac_leb %s %s)" % (a, b), ast.GtE: "(frac_leb %s %s)" % (b, a)}
        else:
            eq = {"ty": "N.eqb", ("list", "ty"): "tys_eqb", "mode": "mode_eqb", "bool": "Bool.eqb"}.get(ta)
            if eq is None:
                refuse(e, "comparison on %s" % (ta,))
            table = {ast.Eq: "(%s %s %s)" % (eq, a, b), ast.NotEq: "(negb (%s %s %s))" % (eq, a, b)}
        if type(op) not in table:
            refuse(e, "comparison %s on %s" % (type(op).__name__, ta))
        return table[type(op)], "bool"

    def boolop(self, e, binds):
        is_and = isinstance(e.op, ast.And)
        parts = []
        for i, x in enumerate(e.values):
            b = binds if i == 0 else []
            v, t = self.expr(x, b)
            if t != "bool":
                refuse(x, "and/or of %s" % (t,))
            parts.append((v, [] if i == 0 else b))
        if all(not b for _, b in parts):
            out = parts[-1][0]
            for v, _ in reversed(parts[:-1]):
                out = "(%s %s %s)" % (v, "&&" if is_and else "||", out)
            return out, "bool"
        # short-circuit evaluation of operands with effects: a chain of monadic ifs
        v, b = parts[-1]
        m = self.chain(b, v)
        for v, b in reversed(parts[:-1]):
            inner = ("if %s then (%s) else ret false" if is_and else "if %s then ret true else (%s)") % (v, m)
            m = self.chain(b, None, inner) if b else inner
        x = self.temp()
        binds.append((x, m))
        return x, "bool"

    @staticmethod
    def chain(binds, value=None, last=None):
        """monadic text: the binds in order, ending in `ret value` (or in the monadic text `last`)"""
        bs = list(binds)
        if last is None:
            if bs and bs[-1][0] == value:
                last = bs.pop()[1]
            else:
                last = "ret %s" % value
        out = last
        for p, m in reversed(bs):
            out = Tr.bind1(p, m, out)
        return out

    @staticmethod
    def bind1(pat, m, rest):
        if pat.startswith("'"):
            return "bind (%s) (fun %s => %s)" % (m, pat, rest)
        return "%s <- %s ;; %s" % (pat, m, rest)

    def attribute(self, e, binds):
        if isinstance(e.value, ast.Name) and e.value.id == "random" and self.is_free("random") and e.attr == "choice":
            return "d_choice", "choicefn"
        v, t = self.expr(e.value, binds)
        a = e.attr
        if t == "node" and a in ("arity", "ret", "args"):
            return {"arity": ("(zarity %s)" % v, "Z"), "ret": ("(nret %s)" % v, "ty"),
                    "args": ("(nargs %s)" % v, ("list", "ty"))}[a]
        if t == "slice" and a in ("start", "stop"):
            return "(%s %s)" % ("fst" if a == "start" else "snd", v), "Z"
        if t == "pset" and a == "ret":
            return "(p_ret %s)" % v, "ty"
        if t == "pset" and a == "terminalRatio":
            return "(terminal_ratio %s)" % v, "frac"
        if t == "tree" and a in ("root", "height") and a in self.meth:
            g, ft = self.meth[a]
            x = self.temp()
            binds.append((x, "%s %s" % (g, v)))
            return x, ft.ret
        refuse(e, "attribute .%s of %s" % (a, t))

    def index_parts(self, s, binds):
        """slice a:b -> (text of option Z, text of option Z)"""
        if s.step is not None:
            refuse(s, "slice with a step")
        out = []
        for x in (s.lower, s.upper):
            out.append("None" if x is None else "(Some %s)" % self.zexpr(x, binds, "slice bound"))
        return out

    def subscript(self, e, binds):
        val = e.value
        if isinstance(val, ast.Attribute) and val.attr in ("terminals", "primitives"):
            p, tp = self.expr(val.value, binds)
            if tp != "pset":
                refuse(e, ".%s of %s" % (val.attr, tp))
            k, tk = self.expr(e.slice, binds)
            if tk != "ty":
                refuse(e, "pset table indexed by %s" % (tk,))
            return "(%s %s %s)" % ("terms" if val.attr == "terminals" else "prims", p, k), ("list", "node")
        v, t = self.expr(val, binds)
        if t == "dd":
            k, tk = self.expr(e.slice, binds)
            if tk != "ty" or not isinstance(val, ast.Name):
                refuse(e, "defaultdict indexed by %s" % (tk,))
            self.tainted.add(val.id)
            return "(dd_get %s %s)" % (v, k), ("list", "Z")
        if not is_list(t) or t == ("list", "?"):
            refuse(e, "subscript of %s" % (t,))
        if isinstance(e.slice, ast.Slice):
            a, b = self.index_parts(e.slice, binds)
            return "(getslice %s %s %s)" % (v, a, b), ("list", elem(t))
        i, ti = self.expr(e.slice, binds)
        if ti == "slice":
            return "(getslice_obj %s %s)" % (v, i), ("list", elem(t))
        if ti != "Z":
            refuse(e, "index of type %s" % (ti,))
        x = self.temp()
        binds.append((x, "getitem %s %s" % (v, i)))
        return x, elem(t)

    # ---- iteration ---------------------------------------------------------------------------------------
    def iterable(self, it, target, binds):
        """-> (list text, Coq binder pattern, {name: type}) for `for target in it`"""
        def names(types):
            n = len(types)
            if n == 1:
                if not isinstance(target, ast.Name):
                    refuse(target, "loop target")
                ns = [target.id]
            else:
                if not (isinstance(target, ast.Tuple) and len(target.elts) == n
                        and all(isinstance(x, ast.Name) for x in target.elts)):
                    refuse(target, "loop target does not unpack %d names" % n)
                ns = [x.id for x in target.elts]
            if len(set(ns)) != n:
                refuse(target, "repeated name in loop target")
            for x in ns:
                self.local(target, x)
                if x in self.env and x != "_":
                    refuse(target, "loop target %s rebinds an existing local" % x)
            pat = cn(ns[0]) if n == 1 else "'(%s)" % ", ".join(cn(x) for x in ns)
            return pat, dict(zip(ns, types))

        if isinstance(it, ast.Call) and isinstance(it.func, ast.Name) and self.is_free(it.func.id) and not it.keywords:
            f = it.func.id
            if f == "range" and len(it.args) in (1, 2):
                vs = [self.zexpr(a, binds, "range argument") for a in it.args]
                pat, tys = names(["Z"])
                return "(range%d %s)" % (len(vs), " ".join(vs)), pat, tys
            if f == "enumerate" and len(it.args) in (1, 2):
                a, ta = self.expr(it.args[0], binds)
                if not is_list(ta) or ta == ("list", "?"):
                    refuse(it, "enumerate of %s" % (ta,))
                start = self.zexpr(it.args[1], binds, "enumerate start") if len(it.args) == 2 else "0"
                pat, tys = names(["Z", elem(ta)])
                return "(enumerate_from %s %s)" % (start, a), pat, tys
        v, t = self.expr(it, binds)
        if t == "dd" and isinstance(it, ast.Name):
            if it.id in self.tainted:
                refuse(it, "iteration over a defaultdict after a read d[k] (which may have inserted the key)")
            v, t = "(dd_keys %s)" % v, ("list", "ty")
        if not is_list(t) or t == ("list", "?"):
            refuse(it, "iteration over %s" % (t,))
        te = elem(t)
        if is_tuple(te):
            pat, tys = names(list(te[1])) if isinstance(target, ast.Tuple) else names([te])
        else:
            pat, tys = names([te])
        return v, pat, tys

    def comprehension(self, g, binds):
        """[elt for target in iter if cond] with pure parts -> list text, type"""
        if len(g.generators) != 1:
            refuse(g, "comprehension with %d for-clauses" % len(g.generators))
        c = g.generators[0]
        if c.is_async or len(c.ifs) > 1:
            refuse(g, "comprehension form")
        lst, pat, tys = self.iterable(c.iter, c.target, binds)
        sub = self.sub()
        sub.env.update(tys)
        if c.ifs:
            cond, tc = sub.pure(c.ifs[0], "filter of a comprehension")
            if tc != "bool":
                refuse(c.ifs[0], "filter of type %s" % (tc,))
            lst = "(filter (fun %s => %s) %s)" % (pat, cond, lst)
        v, t = sub.pure(g.elt, "element of a comprehension")
        if v == pat:
            return lst, ("list", t)
        return "(map (fun %s => %s) %s)" % (pat, v, lst), ("list", t)

    # ---- calls ---------------------------------------------------------------------------------------------
    def draw(self, e, attr, args, binds):
        x = self.temp()
        if attr == "random" and not args:
            binds.append((x, "d_random"))
            return x, "frac"
        if attr in ("randint", "randrange") and all(t == "Z" for _, t in args):
            if attr == "randint" and len(args) == 2:
                binds.append((x, "d_randint %s %s" % (args[0][0], args[1][0])))
                return x, "Z"
            if attr == "randrange" and len(args) in (1, 2):
                lo, hi = ("0", args[0][0]) if len(args) == 1 else (args[0][0], args[1][0])
                binds.append((x, "d_randrange %s %s" % (lo, hi)))
                return x, "Z"
        if attr == "choice" and len(args) == 1:
            v, t = args[0]
            if is_tuple(t) and len(set(t[1])) == 1:        # a tuple of values of one type, as a sequence
                v, t = "[%s]" % v.strip("()").replace(", ", "; "), ("list", t[1][0])
            if is_list(t) and t != ("list", "?"):
                binds.append((x, "d_choice %s" % v))
                return x, elem(t)
        refuse(e, "random.%s with %d arguments of these types: not a modelled draw site" % (attr, len(args)))

    def call(self, e, binds):
        f = e.func
        # func(*args, **kwargs) in the wrapper of staticLimit: the decorated operator on the positional arguments
        if self.fname == "staticLimit" and isinstance(f, ast.Name) and self.env.get(f.id) == OPFN and len(e.args) == 1 \
                and isinstance(e.args[0], ast.Starred) and isinstance(e.args[0].value, ast.Name) and e.args[0].value.id == "args" \
                and self.env.get("args") == L("tree") and len(e.keywords) == 1 and e.keywords[0].arg is None \
                and isinstance(e.keywords[0].value, ast.Name) and e.keywords[0].value.id == "kwargs" and "kwargs" not in self.env:
            x = self.temp()
            binds.append((x, "%s %s" % (cn(f.id), cn("args"))))
            return x, L("tree")
        if any(isinstance(a, ast.Starred) for a in e.args) or any(k.arg is None for k in e.keywords):
            refuse(e, "* / ** in a call")
        # random.<draw site>
        if isinstance(f, ast.Attribute) and isinstance(f.value, ast.Name) and f.value.id == "random" and self.is_free("random"):
            if e.keywords:
                refuse(e, "keyword argument of a random function")
            args = [self.expr(a, binds) for a in e.args]
            return self.draw(e, f.attr, args, binds)
        # copy.deepcopy(x)
        if isinstance(f, ast.Attribute) and isinstance(f.value, ast.Name) and f.value.id == "copy" and self.is_free("copy") \
                and f.attr == "deepcopy" and len(e.args) == 1 and not e.keywords:
            v, t = self.expr(e.args[0], binds)
            if t != "tree":
                refuse(e, "deepcopy of %s" % (t,))
            return v, t
        # methods of trees
        if isinstance(f, ast.Attribute):
            v, t = self.expr(f.value, binds)
            if t == "tree" and f.attr == "searchSubtree" and f.attr in self.meth:
                g, ft = self.meth[f.attr]
                return self.apply(e, g, FnT(ft.params[1:], ft.ret), binds, first=v)
            refuse(e, "method call .%s on %s in an expression" % (f.attr, t))
        # type(x)() : a new value for an ephemeral instance
        x = self.type_test(f)
        if x is not None:
            v, t = self.expr(x, binds)
            if t != "node" or e.args or e.keywords:
                refuse(e, "type(..)() form")
            y = self.temp()
            binds.append((y, "eph_call %s" % v))
            return y, "node"
        if not isinstance(f, ast.Name):
            refuse(e, "call of a computed function")
        name = f.id
        if name in self.env:
            t = self.env[name]
            if t == "node":                       # term() : an ephemeral class instantiated
                if e.args or e.keywords:
                    refuse(e, "call of a node with arguments")
                y = self.temp()
                binds.append((y, "eph_call %s" % cn(name)))
                return y, "node"
            if t == "choicefn":
                if e.keywords:
                    refuse(e, "keyword argument of choice")
                return self.draw(e, "choice", [self.expr(a, binds) for a in e.args], binds)
            if t == "zpred":
                if e.keywords or len(e.args) != 1:
                    refuse(e, "call of an arity test")
                return "(%s %s)" % (cn(name), self.zexpr(e.args[0], binds)), "bool"
            if isinstance(t, FnT):
                return self.apply(e, cn(name), t, binds)
            refuse(e, "call of a value of type %s" % (t,))
        if name in self.glob:
            g, ft = self.glob[name]
            return self.apply(e, g, ft, binds)
        return self.builtin(e, name, binds)

    def apply(self, e, fv, ft, binds, first=None):
        params = list(ft.params)
        slots = {}
        if len(e.args) > len(params):
            refuse(e, "too many arguments")
        for (pn, _), a in zip(params, e.args):
            slots[pn] = a
        for k in e.keywords:
            if k.arg in slots or k.arg not in [p for p, _ in params]:
                refuse(e, "keyword argument %s" % k.arg)
            slots[k.arg] = k.value
        vals = [first] if first is not None else []
        for pn, pt in params:
            if pn not in slots:
                refuse(e, "argument %s not passed (a default value would be used)" % pn)
            v, t = self.expr(slots[pn], binds)
            if isinstance(pt, tuple) and pt[0] == "opt" and t == pt[1]:
                v, t = "(Some %s)" % v, pt
            if isinstance(pt, tuple) and pt[0] == "opt" and t == "none":
                v, t = "None", pt
            if t != pt and not (is_list(t) and is_list(pt) and elem(t) == elem(pt)):
                refuse(e, "argument %s of type %s, expected %s" % (pn, t, pt))
            vals.append(v)
        x = self.temp()
        binds.append((x, " ".join([fv] + vals)))
        return x, ft.ret

    def builtin(self, e, name, binds):
        if e.keywords:
            refuse(e, "keyword argument of %s" % name)
        n = len(e.args)
        if name == "len" and n == 1:
            v, t = self.expr(e.args[0], binds)
            if is_list(t):
                return ("0" if t == ("list", "?") else "(len %s)" % v), "Z"
            refuse(e, "len of %s" % (t,))
        if name in ("max", "min") and n == 2:
            a, b = self.zexpr(e.args[0], binds), self.zexpr(e.args[1], binds)
            return "(Z.%s %s %s)" % (name, a, b), "Z"
        if name == "slice" and n == 2:
            a, b = self.zexpr(e.args[0], binds), self.zexpr(e.args[1], binds)
            return "(%s, %s)" % (a, b), "slice"
        if name == "reversed" and n == 1:
            v, t = self.expr(e.args[0], binds)
            if not is_list(t) or t == ("list", "?"):
                refuse(e, "reversed of %s" % (t,))
            return "(rev %s)" % v, ("list", elem(t))
        if name == "list" and n == 1:
            a = e.args[0]
            if isinstance(a, ast.Call) and isinstance(a.func, ast.Name) and a.func.id == "range" and self.is_free("range") \
                    and not a.keywords and len(a.args) in (1, 2):
                vs = [self.zexpr(x, binds, "range argument") for x in a.args]
                return "(range%d %s)" % (len(vs), " ".join(vs)), ("list", "Z")
            v, t = self.expr(a, binds)
            if not is_list(t):
                refuse(e, "list of %s" % (t,))
            return v, ("list", elem(t))
        if name == "isinstance" and n == 2 and isinstance(e.args[1], ast.Name) and self.is_free(e.args[1].id):
            cls = e.args[1].id
            x = self.type_test(e.args[0])
            if x is not None and cls == "MetaEphemeral":
                v, t = self.expr(x, binds)
                if t == "node":
                    return "(neph %s)" % v, "bool"
            if cls == "Primitive":
                v, t = self.expr(e.args[0], binds)
                if t == "node":
                    return "(is_primitive %s)" % v, "bool"
            refuse(e, "isinstance(.., %s)" % cls)
        if name == "isclass" and n == 1:
            v, t = self.expr(e.args[0], binds)
            if t == "node":
                return "(neph %s)" % v, "bool"
            refuse(e, "isclass of %s" % (t,))
        if name == "partial" and n == 2 and isinstance(e.args[0], ast.Name) and e.args[0].id in ("eq", "lt") \
                and self.is_free(e.args[0].id) and isinstance(e.args[1], ast.Constant) and e.args[1].value == 0 \
                and not isinstance(e.args[1].value, bool):
            return ("eq0" if e.args[0].id == "eq" else "lt0"), "zpred"
        if name == "defaultdict" and n == 1 and isinstance(e.args[0], ast.Name) and e.args[0].id == "list" and self.is_free("list"):
            return "(nil : dd)", "dd"
        refuse(e, "call of unknown function %s" % name)

    # ---- statements ------------------------------------------------------------------------------------------
    @staticmethod
    def terminates(stmts):
        if not stmts:
            return False
        s = stmts[-1]
        if isinstance(s, (ast.Return, ast.Raise)):
            return True
        if isinstance(s, ast.If):
            return Tr.terminates(s.body) and Tr.terminates(s.orelse)
        return False

    @staticmethod
    def own_nodes(stmts):
        """nodes of the statements, not entering nested function definitions"""
        todo = list(stmts)
        while todo:
            n = todo.pop()
            yield n
            if isinstance(n, (ast.FunctionDef, ast.Lambda)):
                continue
            todo.extend(ast.iter_child_nodes(n))

    @staticmethod
    def base_name(t):
        """x, x[..], x[..][..] -> x"""
        while isinstance(t, ast.Subscript):
            t = t.value
        return t.id if isinstance(t, ast.Name) else None

    def method_stmt(self, s):
        """x.append(e) / x.extend(e) / x.insert(i, e) / d[k].append(e) / list.__setitem__(self, k, v) as statements
        -> (name, kind, args) or None"""
        c = s.value
        if not (isinstance(c, ast.Call) and isinstance(c.func, ast.Attribute)) or c.keywords:
            return None
        obj, meth = c.func.value, c.func.attr
        if isinstance(obj, ast.Name) and obj.id == "list" and self.is_free("list") and meth == "__setitem__" and len(c.args) == 3 \
                and isinstance(c.args[0], ast.Name):
            return c.args[0].id, "rawset", c.args[1:]
        if isinstance(obj, ast.Name) and meth in ("append", "extend") and len(c.args) == 1:
            return obj.id, meth, c.args
        if isinstance(obj, ast.Name) and meth == "insert" and len(c.args) == 2:
            return obj.id, meth, c.args
        if isinstance(obj, ast.Subscript) and isinstance(obj.value, ast.Name) and meth == "append" and len(c.args) == 1:
            return obj.value.id, "ddappend", [obj.slice, c.args[0]]
        return None

    @staticmethod
    def is_pop(v):
        return isinstance(v, ast.Call) and isinstance(v.func, ast.Attribute) and v.func.attr == "pop" \
            and isinstance(v.func.value, ast.Name) and not v.args and not v.keywords

    def assigned(self, stmts):
        """names (re)bound or changed in place by the statements, in order of first occurrence"""
        out = []

        def add(n):
            if n is not None and n not in out:
                out.append(n)

        def target(t):
            if isinstance(t, ast.Name):
                add(t.id)
            elif isinstance(t, ast.Tuple):
                for x in t.elts:
                    target(x)
            elif isinstance(t, ast.Subscript):
                add(self.base_name(t))
            else:
                refuse(t, "assignment target")
        for s in stmts:
            if isinstance(s, ast.Assign):
                for t in s.targets:
                    target(t)
                if self.is_pop(s.value):
                    add(s.value.func.value.id)
            elif isinstance(s, ast.AugAssign):
                target(s.target)
            elif isinstance(s, ast.Expr):
                m = self.method_stmt(s)
                if m:
                    add(m[0])
            elif isinstance(s, (ast.If, ast.While)):
                for n in self.assigned(s.body) + self.assigned(s.orelse):
                    add(n)
            elif isinstance(s, ast.For):
                for n in self.assigned(s.body) + self.assigned(s.orelse):
                    add(n)
            elif isinstance(s, ast.Try):
                for n in self.assigned(s.body):
                    add(n)
            elif isinstance(s, ast.FunctionDef):
                add(s.name)
        return out

    def bind_local(self, node, name, t):
        self.local(node, name)
        old = self.env.get(name)
        if old is not None and old != t:
            if isinstance(old, FnT) or isinstance(t, FnT) or old in ("choicefn", "zpred"):
                refuse(node, "rebinding of the function-valued name %s" % name)
            if is_list(old) and is_list(t) and compat(elem(old), elem(t)) and (old == "tree") == (t == "tree"):
                t = old if old == "tree" else ("list", refine(elem(old), elem(t)))
            elif isinstance(old, tuple) and old[0] == "maybe" and old[1] == t:
                pass
            else:
                refuse(node, "local %s changes type from %s to %s" % (name, old, t))
        self.env[name] = t

    def need_mutable(self, node, name, what):
        if name not in self.mutable:
            refuse(node, "in-place change (%s) of %s, which may be shared (a non-tree parameter, or bound to a second name)"
                   % (what, name))

    @staticmethod
    def pat(vs):
        return cn(vs[0]) if len(vs) == 1 else "'(%s)" % ", ".join(cn(v) for v in vs)

    @staticmethod
    def tup(vs):
        return cn(vs[0]) if len(vs) == 1 else "(%s)" % ", ".join(cn(v) for v in vs)

    def emit(self, binds, rest, pad):
        """the binds in order, then the text `rest` (already indented)"""
        out = rest
        for p, m in reversed(binds):
            if p.startswith("'"):
                out = pad + "bind (%s) (fun %s =>\n%s)" % (m, p, out)
            else:
                out = pad + "%s <- %s ;;\n%s" % (p, "(%s)" % m if re.match(r"(if|bind|for_each|while_|match)\b", m) else m, out)
        return out

    def msg_ok(self, e):
        for n in ast.walk(e):
            if isinstance(n, ast.Call):
                if not (isinstance(n.func, ast.Name) and n.func.id in ("len", "str", "repr", "type") and self.is_free(n.func.id)):
                    return False
            elif not isinstance(n, (ast.Constant, ast.BinOp, ast.Mod, ast.Add, ast.Tuple, ast.Name, ast.Load)):
                return False
        return True

    def raise_stmt(self, s, allow_tb=None):
        x = s.exc
        if s.cause is not None or x is None:
            refuse(s, "raise form")
        if allow_tb is not None and isinstance(x, ast.Call) and isinstance(x.func, ast.Attribute) \
                and x.func.attr == "with_traceback" and len(x.args) == 1 and not x.keywords \
                and isinstance(x.args[0], ast.Name) and x.args[0].id in allow_tb:
            x = x.func.value
        if isinstance(x, ast.Call):
            if x.keywords or len(x.args) > 1 or not all(self.msg_ok(a) for a in x.args):
                refuse(s, "exception arguments")
            x = x.func
        if not (isinstance(x, ast.Name) and x.id in ERRS and self.is_free(x.id)):
            refuse(s, "exception type")
        return ERRS[x.id]

    def block(self, stmts, sc, ind):
        pad = "  " * ind
        if not stmts:
            if sc.fall is None:
                refuse("FunctionDef", "control reaches the end of %s without return" % self.fname)
            return pad + sc.fall(self)
        s, rest = stmts[0], list(stmts[1:])
        if isinstance(s, ast.Expr) and isinstance(s.value, ast.Constant) and isinstance(s.value.value, str):
            return self.block(rest, sc, ind)
        if isinstance(s, (ast.Return, ast.Raise)) and rest:
            refuse(rest[0], "unreachable statement")
        if isinstance(s, ast.Return):
            if not sc.ret or s.value is None:
                refuse(s, "return here")
            binds = []
            val = s.value
            if isinstance(val, ast.Tuple) and len(val.elts) == 1:
                val = val.elts[0]               # a tuple of one tree: the tree
            v, t = self.expr(val, binds)
            o = self.owner
            if o.rettype is None or (is_list(o.rettype) and elem(o.rettype) == "?" and is_list(t)):
                o.rettype = t
            elif not (o.rettype == t or (is_list(t) and is_list(o.rettype) and elem(t) in ("?", elem(o.rettype)))):
                refuse(s, "return of %s, expected %s" % (t, o.rettype))
            if binds and binds[-1][0] == v:
                return self.emit(binds[:-1], pad + binds[-1][1], pad)
            return self.emit(binds, pad + "ret %s" % v, pad)
        if isinstance(s, ast.Raise):
            return pad + "raise %s" % self.raise_stmt(s)
        if isinstance(s, ast.FunctionDef):
            return self.nested_def(s, rest, sc, ind)
        if isinstance(s, ast.Try):
            return self.try_stmt(s, rest, sc, ind)
        if isinstance(s, ast.Expr):
            return self.expr_stmt(s, rest, sc, ind)
        if isinstance(s, (ast.Assign, ast.AugAssign)):
            return self.assign(s, rest, sc, ind)
        if isinstance(s, ast.If):
            return self.if_stmt(s, rest, sc, ind)
        if isinstance(s, ast.For):
            return self.for_stmt(s, rest, sc, ind)
        if isinstance(s, ast.While):
            return self.while_stmt(s, rest, sc, ind)
        refuse(s, "statement outside the grammar")

    def try_stmt(self, s, rest, sc, ind):
        """try: <assignment> except IndexError: <names> = sys.exc_info(); raise IndexError(msg).with_traceback(tb)
        -- the handler re-raises the class it catches (message and traceback are not modelled): the body alone"""
        if s.orelse or s.finalbody or len(s.handlers) != 1 or len(s.body) != 1 or not isinstance(s.body[0], ast.Assign):
            refuse(s, "try form")
        h = s.handlers[0]
        if h.name is not None or not (isinstance(h.type, ast.Name) and h.type.id == "IndexError" and self.is_free("IndexError")):
            refuse(s, "exception handler form")
        dead = set()
        for x in h.body[:-1]:
            ok = isinstance(x, ast.Assign) and len(x.targets) == 1 and isinstance(x.value, ast.Call) and not x.value.args \
                and not x.value.keywords and isinstance(x.value.func, ast.Attribute) and x.value.func.attr == "exc_info" \
                and isinstance(x.value.func.value, ast.Name) and x.value.func.value.id == "sys" and self.is_free("sys") \
                and isinstance(x.targets[0], ast.Tuple) and all(isinstance(n, ast.Name) for n in x.targets[0].elts)
            if not ok:
                refuse(x, "statement in an exception handler")
            dead.update(n.id for n in x.targets[0].elts)
        for d in dead:
            if d in self.env:
                refuse(s, "exception handler rebinds the local %s" % d)
        if not h.body or not isinstance(h.body[-1], ast.Raise) or self.raise_stmt(h.body[-1], allow_tb=dead) != "EIndex":
            refuse(s, "exception handler does not re-raise IndexError")
        return self.block(list(s.body) + rest, sc, ind)

    def unwrapped(self, v, tv, binds):
        """a list of placeholders-or-values used where a list of values is needed: every item must have been set"""
        if is_list(tv) and isinstance(elem(tv), tuple) and elem(tv)[0] == "opt":
            y = self.temp()
            binds.append((y, "unwrap_all %s" % v))
            return y, ("list", elem(tv)[1])
        return v, tv

    def store(self, node, target, v, tv, binds, value_ast=None):
        """x[i] = v / x[a:b] = v / x[s] = v / d[k] = v : appends the effects to binds, rebinding x"""
        name = target.value.id if isinstance(target.value, ast.Name) else None
        if name is None or name not in self.env:
            refuse(node, "subscript assignment target")
        t = self.env[name]
        x = cn(name)
        if is_list(t) and t != "tree" and isinstance(elem(t), tuple) and elem(t)[0] == "opt":
            # a list of placeholders: items are stored as Some
            self.need_mutable(node, name, "item assignment")
            inner = elem(t)[1]
            if isinstance(target.slice, ast.Slice):
                a, b = self.index_parts(target.slice, binds)
                if not is_list(tv) or not compat(inner, elem(tv)) or isinstance(elem(tv), tuple):
                    refuse(node, "slice assignment of %s into %s" % (tv, t))
                self.env[name] = ("list", ("opt", refine(inner, elem(tv))))
                binds.append((x, "ret (setslice %s %s %s (map Some %s))" % (x, a, b, v)))
                return
            i, ti = self.expr(target.slice, binds)
            if ti != "Z" or is_list(tv) or isinstance(tv, (tuple, FnT)) or not compat(inner, tv):
                refuse(node, "item assignment %s[%s] = %s" % (t, ti, tv))
            self.env[name] = ("list", ("opt", refine(inner, tv)))
            binds.append((x, "list_setitem %s %s (Some %s)" % (x, i, v)))
            return
        if t == "tree":
            v, tv = self.unwrapped(v, tv, binds)
        if is_list(tv) and not isinstance(target.slice, ast.Slice) and isinstance(value_ast, ast.Name) and False:
            pass
        if t == "dd":
            k, tk = self.expr(target.slice, binds)
            if tk != "ty" or tv != ("list", "Z"):
                refuse(node, "defaultdict item of types %s, %s" % (tk, tv))
            if name in self.tainted:
                refuse(node, "defaultdict changed after a read d[k]")
            binds.append((x, "ret (dd_set %s %s %s)" % (x, k, v)))
            return
        if not is_list(t):
            refuse(node, "item assignment on %s" % (t,))
        self.need_mutable(node, name, "item assignment")
        if isinstance(target.slice, ast.Slice):
            a, b = self.index_parts(target.slice, binds)
            if not is_list(tv) or elem(tv) not in ("?", elem(t)):
                refuse(node, "slice assignment of %s into %s" % (tv, t))
            if t == "tree":
                if "None" in (a, b) or "setitem_slice" not in self.meth:
                    refuse(node, "slice assignment on a tree with an open bound")
                binds.append((x, "%s %s (%s, %s) %s" % (self.meth["setitem_slice"][0], x, a[6:-1], b[6:-1], v)))
            else:
                binds.append((x, "ret (setslice %s %s %s %s)" % (x, a, b, v)))
            return
        i, ti = self.expr(target.slice, binds)
        if ti == "slice":
            if not is_list(tv) or elem(tv) not in ("?", elem(t)):
                refuse(node, "slice assignment of %s into %s" % (tv, t))
            if t == "tree":
                if "setitem_slice" not in self.meth:
                    refuse(node, "tree slice assignment before __setitem__ is translated")
                binds.append((x, "%s %s %s %s" % (self.meth["setitem_slice"][0], x, i, v)))
            else:
                binds.append((x, "ret (setslice_obj %s %s %s)" % (x, i, v)))
            return
        if ti != "Z" or tv != elem(t):
            refuse(node, "item assignment %s[%s] = %s" % (t, ti, tv))
        if is_list(tv) and isinstance(value_ast, ast.Name):
            refuse(node, "a list stored as an item under a second name")
        if t == "tree":
            if "setitem_item" not in self.meth:
                refuse(node, "tree item assignment before __setitem__ is translated")
            binds.append((x, "%s %s %s %s" % (self.meth["setitem_item"][0], x, i, v)))
        else:
            binds.append((x, "list_setitem %s %s %s" % (x, i, v)))

    def expr_stmt(self, s, rest, sc, ind):
        pad = "  " * ind
        m = self.method_stmt(s)
        if m is None:
            refuse(s, "expression statement")
        name, kind, args = m
        t = self.env.get(name)
        x = cn(name)
        binds = []
        if kind == "ddappend":
            if t != "dd":
                refuse(s, "[..].append on %s" % (t,))
            if name in self.tainted:
                refuse(s, "defaultdict changed after a read d[k]")
            k, tk = self.expr(args[0], binds)
            v, tv = self.expr(args[1], binds)
            if tk != "ty" or tv != "Z":
                refuse(s, "defaultdict append of types %s, %s" % (tk, tv))
            return self.emit(binds, pad + "let %s := dd_append %s %s %s in\n" % (x, x, k, v) + self.block(rest, sc, ind), pad)
        if kind == "rawset":
            # list.__setitem__(self, key, val) inside PrimitiveTree.__setitem__
            if t != "tree" or name != "self":
                refuse(s, "list.__setitem__ on %s" % name)
            k, tk = self.expr(args[0], binds)
            v, tv = self.expr(args[1], binds)
            if tk == "slice" and tv == ("list", "node"):
                return self.emit(binds, pad + "let %s := setslice_obj %s %s %s in\n" % (x, x, k, v) + self.block(rest, sc, ind), pad)
            if tk == "Z" and tv == "node":
                binds.append((x, "list_setitem %s %s %s" % (x, k, v)))
                return self.emit(binds, self.block(rest, sc, ind), pad)
            refuse(s, "list.__setitem__ with %s, %s" % (tk, tv))
        if not is_list(t or "") or t == "tree":
            refuse(s, ".%s on %s of type %s" % (kind, name, t))
        self.need_mutable(s, name, "." + kind)
        if kind == "insert":
            i = self.zexpr(args[0], binds)
            v, tv = self.expr(args[1], binds)
            if isinstance(elem(t), tuple) and elem(t)[0] == "opt" and not is_list(tv) and compat(elem(t)[1], tv):
                v, tv = "(Some %s)" % v, ("opt", refine(elem(t)[1], tv))
            if is_list(tv) or not compat(elem(t), tv):
                refuse(s, "insert of %s into %s" % (tv, t))
            self.bind_local(s, name, ("list", tv))
            return self.emit(binds, pad + "let %s := list_insert %s %s %s in\n" % (x, x, i, v) + self.block(rest, sc, ind), pad)
        v, tv = self.expr(args[0], binds)
        if kind == "append":
            if is_list(tv) or isinstance(tv, FnT) or elem(t) not in ("?", tv):
                refuse(s, "append of %s to %s" % (tv, t))
            new, val = ("list", tv), "(app %s [%s])" % (x, v)
        else:
            if not is_list(tv) or (elem(t) != "?" and elem(tv) not in ("?", elem(t))):
                refuse(s, "extend of %s by %s" % (t, tv))
            new, val = ("list", elem(tv) if elem(t) == "?" else elem(t)), "(app %s %s)" % (x, v)
        self.bind_local(s, name, new)
        return self.emit(binds, pad + "let %s := %s in\n" % (x, val) + self.block(rest, sc, ind), pad)

    def assign(self, s, rest, sc, ind):
        pad = "  " * ind
        binds = []
        if isinstance(s, ast.AugAssign):
            if not isinstance(s.target, ast.Name) or not isinstance(s.op, (ast.Add, ast.Sub)):
                refuse(s, "augmented assignment form")
            name = s.target.id
            if self.env.get(name) != "Z":
                refuse(s, "augmented assignment to %s of type %s" % (name, self.env.get(name)))
            v = self.zexpr(s.value, binds)
            return self.emit(binds, pad + "let %s := (%s %s %s) in\n" % (cn(name), cn(name), "+" if isinstance(s.op, ast.Add) else "-", v)
                             + self.block(rest, sc, ind), pad)
        if len(s.targets) != 1:
            refuse(s, "multiple assignment")
        target, value = s.targets[0], s.value
        # x = l.pop()  /  a, b = l.pop()
        if self.is_pop(value):
            lname = value.func.value.id
            lt = self.env.get(lname)
            if not is_list(lt or "") or lt == "tree" or elem(lt) == "?":
                refuse(s, "pop from %s of type %s" % (lname, lt))
            self.need_mutable(s, lname, ".pop()")
            te = elem(lt)
            if isinstance(target, ast.Name):
                self.bind_local(s, target.id, te)
                p = cn(target.id)
            elif isinstance(target, ast.Tuple) and is_tuple(te) and len(te[1]) == len(target.elts) \
                    and all(isinstance(x, ast.Name) for x in target.elts) and len({x.id for x in target.elts}) == len(target.elts):
                for x, tx in zip(target.elts, te[1]):
                    self.bind_local(s, x.id, tx)
                p = "(%s)" % ", ".join(cn(x.id) for x in target.elts)
            else:
                refuse(s, "target of a pop")
            return self.emit([("'(%s, %s)" % (p, cn(lname)), "pop_last %s" % cn(lname))], self.block(rest, sc, ind), pad)
        # t1[..], t2[..] = e1, e2 : right-hand sides first, then the stores left to right
        if isinstance(target, ast.Tuple) and all(isinstance(x, ast.Subscript) for x in target.elts):
            if not (isinstance(value, ast.Tuple) and len(value.elts) == len(target.elts)):
                refuse(s, "parallel item assignment form")
            vals = []
            for x in value.elts:
                v, t = self.expr(x, binds)
                y = self.temp()
                binds.append((y, "ret %s" % v))
                vals.append((y, t))
            for tg, (v, t), va in zip(target.elts, vals, value.elts):
                self.store(s, tg, v, t, binds, va)
            return self.emit(binds, self.block(rest, sc, ind), pad)
        if isinstance(target, ast.Subscript):
            v, t = self.expr(value, binds)
            self.store(s, target, v, t, binds, value)
            return self.emit(binds, self.block(rest, sc, ind), pad)
        if isinstance(target, ast.Tuple):
            if not all(isinstance(x, ast.Name) for x in target.elts) or len({x.id for x in target.elts}) != len(target.elts):
                refuse(s, "tuple target")
            v, t = self.expr(value, binds)
            if not is_tuple(t) or len(t[1]) != len(target.elts):
                refuse(s, "unpacking of %s into %d names" % (t, len(target.elts)))
            for x, tx in zip(target.elts, t[1]):
                if is_list(tx):
                    refuse(s, "unpacking shares a list")
                self.bind_local(s, x.id, tx)
            p = "'(%s)" % ", ".join(cn(x.id) for x in target.elts)
            if binds and binds[-1][0] == v:
                return self.emit(binds[:-1] + [(p, binds[-1][1])], self.block(rest, sc, ind), pad)
            return self.emit(binds, pad + "let %s := %s in\n" % (p, v) + self.block(rest, sc, ind), pad)
        if not isinstance(target, ast.Name):
            refuse(s, "assignment target")
        name = target.id
        v, t = self.expr(value, binds)
        if t == "none":
            refuse(s, "None stored in a local")
        if isinstance(value, ast.Name) and (is_list(t) or t == "dd"):
            refuse(s, "a second name for the list %s" % value.id)
        if isinstance(t, FnT) or t in ("choicefn", "zpred"):
            self.local(s, name)
            if name in self.env and self.env[name] != t:
                refuse(s, "rebinding of %s to a function" % name)
            self.env[name] = t
            if t == "choicefn":
                return self.emit(binds, self.block(rest, sc, ind), pad)      # an alias of random.choice: resolved at its calls
        else:
            self.bind_local(s, name, t)
        if binds and binds[-1][0] == v and not v.endswith("'"):
            return self.emit(binds[:-1] + [(cn(name), binds[-1][1])], self.block(rest, sc, ind), pad)
        return self.emit(binds, pad + "let %s := %s in\n" % (cn(name), v) + self.block(rest, sc, ind), pad)

    def static_test(self, e):
        """isinstance(<parameter>, slice): decided by the declared type of the parameter"""
        if isinstance(e, ast.Call) and isinstance(e.func, ast.Name) and e.func.id == "isinstance" and self.is_free("isinstance") \
                and len(e.args) == 2 and not e.keywords and isinstance(e.args[0], ast.Name) \
                and isinstance(e.args[1], ast.Name) and e.args[1].id == "slice" and self.is_free("slice"):
            t = self.env.get(e.args[0].id)
            if t == "slice":
                return True
            if t == "Z":
                return False
            refuse(e, "isinstance(%s, slice) with %s of type %s" % (e.args[0].id, e.args[0].id, t))
        return None

    def if_stmt(self, s, rest, sc, ind):
        pad = "  " * ind
        st = self.static_test(s.test)
        if st is not None:
            return self.block((list(s.body) if st else list(s.orelse)) + rest, sc, ind)
        # if x is None: x = e   (an optional parameter gets its default)
        t = s.test
        if isinstance(t, ast.Compare) and len(t.ops) == 1 and isinstance(t.ops[0], ast.Is) and isinstance(t.left, ast.Name) \
                and isinstance(t.comparators[0], ast.Constant) and t.comparators[0].value is None and not s.orelse \
                and isinstance(self.env.get(t.left.id), tuple) and self.env[t.left.id][0] == "opt" and len(s.body) == 1 \
                and isinstance(s.body[0], ast.Assign) and len(s.body[0].targets) == 1 \
                and isinstance(s.body[0].targets[0], ast.Name) and s.body[0].targets[0].id == t.left.id:
            name, inner = t.left.id, self.env[t.left.id][1]
            v, tv = self.pure(s.body[0].value, "default of an optional parameter")
            if tv != inner:
                refuse(s, "default of type %s for an optional %s" % (tv, inner))
            self.env[name] = inner
            x = cn(name)
            return pad + "let %s := match %s with None => %s | Some %s => %s end in\n" % (x, x, v, x, x) + self.block(rest, sc, ind)
        binds = []
        c, tc = self.expr(s.test, binds)
        if tc != "bool":
            refuse(s, "condition of type %s" % (tc,))
        tb, te = self.terminates(s.body), self.terminates(s.orelse)
        if tb or te:
            if tb and te and rest:
                refuse(rest[0], "unreachable statement")
            a, b = self.sub(), self.sub()
            ta = a.block(list(s.body) + ([] if tb else rest), sc, ind + 1)
            tb_ = b.block(list(s.orelse) + ([] if te else rest), sc, ind + 1)
            return self.emit(binds, pad + "if %s then (\n%s\n%s) else (\n%s\n%s)" % (c, ta, pad, tb_, pad), pad)
        ab, ae = self.assigned(list(s.body)), self.assigned(list(s.orelse))
        vs = [v for v in self.assigned(list(s.body) + list(s.orelse)) if v in self.env or (v in ab and v in ae)]
        if not vs:
            refuse(s, "if statement without effect on locals")
        if any(isinstance(n, ast.Return) for n in self.own_nodes(list(s.body) + list(s.orelse))):
            refuse(s, "return inside an if that also falls through")
        a, b = self.sub(), self.sub()

        def out(tr):
            for v in vs:
                if v not in tr.env:
                    refuse(s, "%s may be unassigned after the if" % v)
            return "ret %s" % self.tup(vs)
        inner = Scope(ret=False, fall=out)
        ta = a.block(list(s.body), inner, ind + 1)
        tb_ = b.block(list(s.orelse), inner, ind + 1)
        for v in vs:
            t1, t2 = a.env[v], b.env[v]
            if t1 != t2:
                if is_list(t1) and is_list(t2) and compat(elem(t1), elem(t2)) and t1 != "tree" and t2 != "tree":
                    t1 = ("list", refine(elem(t1), elem(t2)))
                else:
                    refuse(s, "%s has different types in the two branches" % v)
            if isinstance(t1, FnT) or (isinstance(t1, tuple) and t1[0] == "maybe"):
                refuse(s, "%s: function or possibly unbound name assigned inside an if" % v)
            self.env[v] = t1
        m = "if %s then (\n%s\n%s) else (\n%s\n%s)" % (c, ta, pad, tb_, pad)
        return self.emit(binds + [(self.pat(vs), m)], self.block(rest, sc, ind), pad)

    def loop_state(self, node, body, rest, banned):
        """(state variables, names first bound inside the loop and read after it)"""
        names = self.assigned(body)
        vs = [v for v in names if v in self.env]
        for v in vs:
            t = self.env[v]
            if isinstance(t, FnT) or t in ("choicefn", "zpred") or v in banned:
                refuse(node, "loop rebinds %s" % v)
        later = {n.id for n in self.own_nodes(rest) if isinstance(n, ast.Name) and isinstance(n.ctx, ast.Load)}
        top = set()
        for x in body:
            if isinstance(x, ast.Assign) and len(x.targets) == 1 and isinstance(x.targets[0], ast.Name):
                top.add(x.targets[0].id)
        fresh = [v for v in names if v not in self.env and v in later and v not in banned]
        for v in fresh:
            if v not in top:
                refuse(node, "%s is first bound inside the loop, under a condition, and read after the loop" % v)
        return vs, fresh

    def run_body(self, node, body, vs, fresh, tys, ind):
        """translate a loop body twice when names are first bound inside it (their types are needed for the state)"""
        state = self.tup(vs + fresh)

        def fall(tr):
            parts = [cn(v) for v in vs] + ["(Some %s)" % cn(v) for v in fresh]
            return "ret %s" % (parts[0] if len(parts) == 1 else "(%s)" % ", ".join(parts))
        b = self.sub()
        b.env.update(tys)
        saved = self.counter[0]
        text = b.block(list(body), Scope(ret=False, fall=fall), ind + 2)
        if fresh:
            ftypes = {}
            for v in fresh:
                if v not in b.env or (isinstance(b.env[v], tuple) and b.env[v][0] == "maybe"):
                    refuse(node, "cannot type %s" % v)
                ftypes[v] = ("maybe", b.env[v])
            self.counter[0] = saved
            b = self.sub()
            b.env.update(tys)
            b.env.update(ftypes)
            text = b.block(list(body), Scope(ret=False, fall=fall), ind + 2)
            for v in fresh:
                if b.env.get(v) != ftypes[v][1]:
                    refuse(node, "%s is not assigned on every path of the loop body" % v)
        for v in vs:
            t0, t1 = self.env[v], b.env.get(v)
            if t0 != t1:
                if is_list(t0) and is_list(t1) and compat(elem(t0), elem(t1)) and t0 != "tree" and t1 != "tree":
                    self.env[v] = ("list", refine(elem(t0), elem(t1)))
                else:
                    refuse(node, "loop changes the type of %s from %s to %s" % (v, t0, t1))
        init = [cn(v) for v in vs] + ["None" for _ in fresh]
        for v in fresh:
            self.local(node, v)
            self.env[v] = ("maybe", b.env[v])
        return text, state, (init[0] if len(init) == 1 else "(%s)" % ", ".join(init))

    def for_stmt(self, s, rest, sc, ind):
        pad = "  " * ind
        if s.orelse:
            refuse(s, "for ... else")
        if any(isinstance(n, (ast.Break, ast.Continue, ast.Return)) for n in self.own_nodes(s.body)):
            refuse(s, "break/continue/return inside a loop")
        binds = []
        lst, pat, tys = self.iterable(s.iter, s.target, binds)
        iter_names = {n.id for n in ast.walk(s.iter) if isinstance(n, ast.Name)}
        vs, fresh = self.loop_state(s, s.body, rest, tuple(tys))
        for v in vs:
            if v in iter_names and not self.writes_current_only(s, v):
                refuse(s, "loop changes %s, which its iterable reads" % v)
        if not vs and not fresh:
            refuse(s, "loop without effect on locals")
        body, state, init = self.run_body(s, s.body, vs, fresh, tys, ind)
        allv = vs + fresh
        m = "for_each %s (fun %s %s =>\n%s) %s" % (lst, pat, self.pat(allv), body, init)
        return self.emit(binds + [(self.pat(allv), m)], self.block(rest, sc, ind), pad)

    def writes_current_only(self, s, v):
        """for i, x in enumerate(v): ... v[i] = e ...   -- the only change of v is the item at the current position"""
        it = s.iter
        if not (isinstance(it, ast.Call) and isinstance(it.func, ast.Name) and it.func.id == "enumerate" and len(it.args) == 1
                and isinstance(it.args[0], ast.Name) and it.args[0].id == v and isinstance(s.target, ast.Tuple)
                and isinstance(s.target.elts[0], ast.Name)):
            return False
        i = s.target.elts[0].id
        for n in self.own_nodes(s.body):
            if isinstance(n, ast.Name) and n.id == v and isinstance(n.ctx, ast.Store):
                return False
            if isinstance(n, ast.Name) and n.id == i and isinstance(n.ctx, ast.Store):
                return False
            if isinstance(n, ast.Expr) and self.method_stmt(n) and self.method_stmt(n)[0] == v:
                return False
            if isinstance(n, ast.Subscript) and isinstance(n.ctx, ast.Store) and self.base_name(n) == v:
                if not (isinstance(n.value, ast.Name) and isinstance(n.slice, ast.Name) and n.slice.id == i):
                    return False
            if isinstance(n, ast.Assign) and self.is_pop(n.value) and n.value.func.value.id == v:
                return False
        return True

    def has_draw(self, stmts):
        for n in self.own_nodes(stmts):
            if isinstance(n, ast.Call):
                f = n.func
                if isinstance(f, ast.Attribute) and isinstance(f.value, ast.Name) and f.value.id == "random":
                    return True
                if isinstance(f, ast.Name) and self.env.get(f.id) == "choicefn":
                    return True
        return False

    def while_stmt(self, s, rest, sc, ind):
        pad = "  " * ind
        if s.orelse:
            refuse(s, "while ... else")
        if any(isinstance(n, (ast.Break, ast.Continue, ast.Return)) for n in self.own_nodes(s.body)):
            refuse(s, "break/continue/return inside a loop")
        vs, fresh = self.loop_state(s, s.body, rest, ())
        if not vs:
            refuse(s, "loop without effect on locals")
        cond, tc = self.sub().pure(s.test, "while condition")
        if tc != "bool":
            refuse(s, "condition of type %s" % (tc,))
        draws = self.has_draw(s.body)
        read = []
        for n in self.own_nodes([s.test] + list(s.body)):
            if isinstance(n, ast.Name) and isinstance(n.ctx, ast.Load) and is_list(self.env.get(n.id) or "") \
                    and elem(self.env[n.id]) != "?" and n.id not in read:
                read.append(n.id)
        body, state, init = self.run_body(s, s.body, vs, fresh, {}, ind)
        allv = vs + fresh
        if draws:
            head = "while_draws"
        else:
            # the lengths of the lists bound the iterations only when every iteration reads an item l[i] of one of
            # them directly (the IndexError at the end of the list is what stops a runaway index); a loop that counts
            # an int down, or reaches the lists only through calls / slices, has no fuel measure here
            direct = [n for n in self.own_nodes(list(s.body))
                      if isinstance(n, ast.Subscript) and isinstance(n.ctx, ast.Load) and isinstance(n.value, ast.Name)
                      and n.value.id in read and not isinstance(n.slice, ast.Slice)
                      and (self.env.get(n.slice.id) == "Z" if isinstance(n.slice, ast.Name)
                           else isinstance(n.slice, (ast.BinOp, ast.Constant)))]
            if not read or not direct:
                refuse(s, "while loop that neither draws nor reads an item l[i] of a list: no fuel measure")
            fuel = " + ".join("length %s" % cn(r) for r in sorted(read))
            head = "while_fuel (S (%s)%%nat)" % fuel
        m = "%s (fun %s => %s) (fun %s =>\n%s) %s" % (head, self.pat(allv), cond, self.pat(allv), body, init)
        return self.emit([(self.pat(allv), m)], self.block(rest, sc, ind), pad)

    def nested_def(self, d, rest, sc, ind):
        pad = "  " * ind
        a = d.args
        if d.decorator_list or a.posonlyargs or a.kwonlyargs or a.kw_defaults or a.vararg or a.kwarg or a.defaults or d.returns:
            refuse(d, "nested function header")
        sig = NESTED.get((self.fname, d.name))
        if sig is None or [p.arg for p in a.args] != [p for p, _ in sig.params]:
            refuse(d, "nested function %s%s is not in the signature table" % (d.name, tuple(p.arg for p in a.args)))
        name = self.local(d, d.name)
        if d.name in self.env:
            refuse(d, "nested function %s rebinds a local" % name)
        f = self.sub()
        f.owner = f
        f.rettype = None
        f.fname = "%s.%s" % (self.fname, d.name)
        for p, t in sig.params:
            f.local(d, p)
            f.env[p] = t
        f.mutable = set()
        body = f.block(list(d.body), Scope(ret=True), ind + 2)
        if f.rettype != sig.ret:
            refuse(d, "nested function returns %s, expected %s" % (f.rettype, sig.ret))
        free = {n.id for n in self.own_nodes(d.body) if isinstance(n, ast.Name) and isinstance(n.ctx, ast.Load)}
        free -= {p for p, _ in sig.params}
        self.owner.__dict__.setdefault("captured", set()).update(free)
        self.env[d.name] = sig
        return pad + "let %s := (fun %s =>\n%s) in\n" % (
            name, " ".join("(%s : %s)" % (cn(p), coqtype(t)) for p, t in sig.params), body) + self.block(rest, sc, ind)


NESTED = {("genFull", "condition"): COND, ("genGrow", "condition"): COND}


# ---- module level ----------------------------------------------------------------------------------------
def check_module(tree):
    """names of fixed meaning must be bound at module level exactly as expected; returns (top-level bindings,
    module-level functions, methods of PrimitiveTree)"""
    top = {}
    for n in tree.body:
        if isinstance(n, ast.Import):
            for a in n.names:
                top.setdefault((a.asname or a.name).split(".")[0], []).append(("import", None, a.name, n))
        elif isinstance(n, ast.ImportFrom):
            for a in n.names:
                top.setdefault(a.asname or a.name, []).append(("from", n.module, a.name, n))
        elif isinstance(n, (ast.FunctionDef, ast.AsyncFunctionDef, ast.ClassDef)):
            top.setdefault(n.name, []).append(("def", None, None, n))
        elif isinstance(n, ast.Assign) and len(n.targets) == 1 and isinstance(n.targets[0], ast.Name) \
                and isinstance(n.value, ast.Name) and n.value.id == "object":
            top.setdefault(n.targets[0].id, []).append(("assign-object", None, None, n))
        elif isinstance(n, (ast.Assign, ast.AugAssign, ast.AnnAssign)):
            for t in ast.walk(n):
                if isinstance(t, ast.Name) and isinstance(t.ctx, ast.Store):
                    top.setdefault(t.id, []).append(("assign", None, None, n))
        elif isinstance(n, ast.Expr) and isinstance(n.value, ast.Constant):
            pass
        elif isinstance(n, ast.If) and ast.dump(n.test) == ast.dump(ast.parse('__name__ == "__main__"').body[0].value) \
                and not n.orelse:
            pass                       # not executed when deap.gp is imported
        else:
            for t in ast.walk(n):      # module-level if/try/for/with: anything they bind is suspect
                if isinstance(t, ast.Name) and isinstance(t.ctx, ast.Store):
                    top.setdefault(t.id, []).append(("assign", None, None, n))
                elif isinstance(t, (ast.Import, ast.ImportFrom, ast.FunctionDef, ast.ClassDef)):
                    refuse(t, "conditional module-level binding")
    for b in BUILTINS:
        if b in top:
            refuse(top[b][0][3], "builtin %s is rebound at module level" % b)
    for nm, (kind, mod, orig) in EXPECTED.items():
        bs = top.get(nm, [])
        if len(bs) != 1 or bs[0][:3] != (kind, mod, orig):
            refuse(bs[0][3] if bs else "Module", "%s is not bound (once) as expected at module level" % nm)
    cls = top["PrimitiveTree"][0][3]
    if not isinstance(cls, ast.ClassDef) or [ast.dump(b) for b in cls.bases] != [ast.dump(ast.Name(id="list", ctx=ast.Load()))] \
            or cls.keywords or cls.decorator_list:
        refuse(cls, "class PrimitiveTree(list) header")
    methods = {}
    for n in cls.body:
        if isinstance(n, ast.FunctionDef):
            methods.setdefault(n.name, []).append(n)
        elif not (isinstance(n, ast.Expr) and isinstance(n.value, ast.Constant)):
            refuse(n, "statement in the body of PrimitiveTree")
    for special in ("__getitem__", "__len__", "__iter__", "__getattribute__", "__getattr__", "__delitem__", "append", "extend",
                    "insert", "pop", "__iadd__", "__imul__", "__eq__", "__contains__", "__reversed__"):
        if special in methods:
            refuse(methods[special][0], "PrimitiveTree overrides list.%s" % special)
    return top, methods


def check_function(fn, top, params, defaults, deco):
    a = fn.args
    if a.posonlyargs or a.kwonlyargs or a.kw_defaults or a.vararg or a.kwarg or fn.returns:
        refuse(fn, "function header")
    decos = [ast.dump(d) for d in fn.decorator_list]
    if decos != [ast.dump(ast.Name(id=d, ctx=ast.Load())) for d in deco]:
        refuse(fn, "decorators of %s" % fn.name)
    if [x.arg for x in a.args] != [p for p, _ in params]:
        refuse(fn, "parameters %r, expected %r" % ([x.arg for x in a.args], [p for p, _ in params]))
    want = [p for p, _ in params if p in defaults]
    if len(a.defaults) != len(want) or want != [p for p, _ in params][len(params) - len(want):] or any(
            not (isinstance(d, ast.Constant) and repr(d.value) == defaults[p]) for d, p in zip(a.defaults, want)):
        refuse(fn, "default values")
    pnames = [p for p, _ in params]
    for n in ast.walk(fn):
        if isinstance(n, (ast.Global, ast.Nonlocal, ast.Lambda, ast.With, ast.Yield, ast.YieldFrom, ast.Await, ast.ClassDef,
                          ast.Import, ast.ImportFrom, ast.Delete, ast.NamedExpr, ast.AsyncFunctionDef, ast.Assert)):
            refuse(n, "%s inside a translated function" % type(n).__name__)
        if isinstance(n, ast.Name) and isinstance(n.ctx, (ast.Store, ast.Del)) and (
                n.id in BUILTINS or n.id in EXPECTED or (n.id in top and n.id not in pnames)):
            refuse(n, "%s is rebound inside the function" % n.id)
        if isinstance(n, ast.arg) and n.arg not in pnames and (n.arg in BUILTINS or n.arg in EXPECTED or n.arg in top):
            refuse(n, "parameter %s shadows a name of fixed meaning" % n.arg)
    for p in pnames:
        if p in BUILTINS or p in EXPECTED:
            refuse(fn, "parameter %s shadows a name of fixed meaning" % p)


def compute_mutable(body, params):
    """names whose list value may be changed in place: tree parameters, and locals that always hold a list created
    by the function itself (every assignment to them is a list display, a comprehension, a slice, a + b, l * n or a
    call) -- in both cases only if the name is never the source of `y = x` (a second name for the same list)"""
    def fresh(e):
        if isinstance(e, (ast.List, ast.ListComp, ast.BinOp)):
            return True
        if isinstance(e, ast.Subscript) and isinstance(e.slice, ast.Slice):
            return True
        return isinstance(e, ast.Call)

    def sources(e):
        if isinstance(e, ast.Name):
            return {e.id}
        if isinstance(e, ast.IfExp):
            return sources(e.body) | sources(e.orelse)
        if isinstance(e, ast.BoolOp):
            return set().union(*[sources(v) for v in e.values])
        if isinstance(e, (ast.Tuple, ast.List)):
            return set().union(*[sources(v) for v in e.elts]) if e.elts else set()
        return set()
    good = {p for p, t in params if t == "tree"}
    bad = {p for p, t in params if t != "tree"}
    for n in Tr.own_nodes(body):
        if isinstance(n, ast.Assign):
            for t in n.targets:
                if isinstance(t, ast.Name):
                    (good if fresh(n.value) and t.id not in [p for p, _ in params] else bad).add(t.id)
                elif isinstance(t, ast.Tuple):
                    bad.update(x.id for x in t.elts if isinstance(x, ast.Name))
            if not (isinstance(n.targets[0], ast.Tuple) and isinstance(n.value, ast.Tuple)
                    and all(isinstance(x, ast.Subscript) for x in n.targets[0].elts)) \
                    and not isinstance(n.targets[0], ast.Subscript):
                # (a slice assignment copies the items; an item assignment of a list under a name is refused in store)
                bad.update(sources(n.value))
        elif isinstance(n, ast.AugAssign):
            bad.update(x.id for x in ast.walk(n.target) if isinstance(x, ast.Name))
        elif isinstance(n, ast.For):
            bad.update(x.id for x in ast.walk(n.target) if isinstance(x, ast.Name))
        elif isinstance(n, ast.comprehension):
            bad.update(x.id for x in ast.walk(n.target) if isinstance(x, ast.Name))
        elif isinstance(n, ast.Call) and isinstance(n.func, ast.Attribute) and n.func.attr in ("append", "insert", "extend"):
            for a in n.args:
                if n.func.attr != "extend":
                    bad.update(sources(a))
    return good - bad


def signature(params):
    return " ".join("(%s : %s)" % (cn(p), coqtype(t)) for p, t in params)


def translate_function(fn, top, glob, meth, spec):
    pyname, cls, gname, params, defaults, ret, ending, variant, model = spec
    check_function(fn, top, params, defaults, ["property"] if pyname in ("root", "height") else [])
    tr = Tr(glob, pyname, variant, meth=meth)
    for p, t in params:
        tr.env[p] = t
    tr.mutable = compute_mutable(fn.body, params)
    if ending == "self":
        if any(isinstance(n, ast.Return) for n in Tr.own_nodes(fn.body)):
            refuse(fn, "return inside %s" % pyname)
        sc = Scope(ret=False, fall=lambda t: "ret self")
        if "self" not in tr.mutable:
            refuse(fn, "self is bound to a second name")
    else:
        sc = Scope(ret=True)
    body = tr.block(list(fn.body), sc, 1)
    if ending != "self" and tr.rettype != ret and not (is_list(ret) and is_list(tr.rettype) and elem(tr.rettype) in ("?", elem(ret))):
        refuse(fn, "result type %s, expected %s" % (tr.rettype, ret))
    check_captured(fn, tr)
    return "Definition %s %s : M %s :=\n%s.\n" % (gname, signature(params), coqtype(ret), body)


def check_captured(fn, tr):
    """a nested function may only read names the enclosing function binds once (parameters, other defs)"""
    captured = getattr(tr, "captured", set())
    stores = {}
    for n in Tr.own_nodes(fn.body):
        if isinstance(n, ast.Name) and isinstance(n.ctx, ast.Store):
            stores[n.id] = stores.get(n.id, 0) + 1
    for c in captured:
        if stores.get(c):
            refuse(fn, "nested function reads %s, which the enclosing function assigns" % c)


SL_PARAMS = [("key", KEYFN), ("max_value", "Z"), ("func", OPFN), ("args", L("tree"))]


def translate_static_limit(fn, top, glob, meth, spec):
    """def staticLimit(key, max_value): def decorator(func): @wraps(func) def wrapper(*args, **kwargs): BODY; return wrapper;
    return decorator   -- BODY is translated with func and args as further parameters"""
    pyname, cls, gname, params, defaults, ret, ending, variant, model = spec
    check_function(fn, top, params, defaults, [])
    body = [s for s in fn.body if not (isinstance(s, ast.Expr) and isinstance(s.value, ast.Constant))]
    ok = len(body) == 2 and isinstance(body[0], ast.FunctionDef) and isinstance(body[1], ast.Return) \
        and isinstance(body[1].value, ast.Name) and body[1].value.id == body[0].name
    if not ok:
        refuse(fn, "staticLimit is not `def decorator ...; return decorator`")
    dec = body[0]
    a = dec.args
    if dec.decorator_list or [x.arg for x in a.args] != ["func"] or a.vararg or a.kwarg or a.defaults or a.kwonlyargs or a.posonlyargs:
        refuse(dec, "decorator header")
    dbody = [s for s in dec.body if not (isinstance(s, ast.Expr) and isinstance(s.value, ast.Constant))]
    ok = len(dbody) == 2 and isinstance(dbody[0], ast.FunctionDef) and isinstance(dbody[1], ast.Return) \
        and isinstance(dbody[1].value, ast.Name) and dbody[1].value.id == dbody[0].name
    if not ok:
        refuse(dec, "decorator is not `def wrapper ...; return wrapper`")
    w = dbody[0]
    a = w.args
    wraps = ast.dump(ast.Call(func=ast.Name(id="wraps", ctx=ast.Load()), args=[ast.Name(id="func", ctx=ast.Load())], keywords=[]))
    if [ast.dump(d) for d in w.decorator_list] != [wraps] or a.args or a.defaults or a.kwonlyargs or a.posonlyargs \
            or a.vararg is None or a.vararg.arg != "args" or a.kwarg is None or a.kwarg.arg != "kwargs":
        refuse(w, "wrapper header")
    for n in ast.walk(w):
        if isinstance(n, ast.Name) and n.id == "kwargs" and not isinstance(n.ctx, ast.Load):
            refuse(n, "kwargs rebound")
    tr = Tr(glob, pyname, variant, meth=meth)
    for p, t in SL_PARAMS:
        tr.env[p] = t
    tr.mutable = compute_mutable(w.body, SL_PARAMS)
    text = tr.block(list(w.body), Scope(ret=True), 1)
    if tr.rettype != L("tree"):
        refuse(w, "result type %s" % (tr.rettype,))
    for n in Tr.own_nodes(w.body):
        if isinstance(n, ast.Name) and isinstance(n.ctx, ast.Store) and n.id in ("key", "max_value", "func", "args", "wrapper", "decorator"):
            refuse(n, "%s rebound in the wrapper" % n.id)
    return "Definition %s %s : M %s :=\n%s.\n" % (gname, signature(SL_PARAMS), coqtype(L("tree")), text)


HEADER = """(* GENERATED by harness/c11_py2coq.py from %s -- do not edit, never committed *)
From Coq Require Import List ZArith NArith Bool.
From DV Require Import Base.PyList Model.C11_GPTree Model.C11_GenRt.
Import ListNotations.
Local Open Scope Z_scope.

"""

TRAILER_FILE = os.path.join(os.path.dirname(os.path.abspath(__file__)), "c11_gen_trailer.v.in")


def fn_type(spec):
    pyname, cls, gname, params, defaults, ret, ending, variant, model = spec
    if pyname == "staticLimit":
        return FnT(SL_PARAMS, L("tree"))
    return FnT(params, ret)


def translate_source(text, origin="deap/gp.py"):
    """-> (Gallina text, {gen name: None | Refuse}).  A refused function gets the hand model as a placeholder."""
    status, module_refusal = {}, None
    top, methods, tree = {}, {}, None
    try:
        tree = ast.parse(text)
        top, methods = check_module(tree)
    except (SyntaxError, ValueError, RecursionError, MemoryError) as e:
        module_refusal = Refuse("Module", "source does not parse: %s" % e)
    except Refuse as r:
        module_refusal = r
    out = HEADER % origin
    glob, meth = {}, {}
    for spec in FUNCS:
        pyname, cls, gname, params, defaults, ret, ending, variant, model = spec
        sparams = SL_PARAMS if pyname == "staticLimit" else params
        sret = L("tree") if pyname == "staticLimit" else ret
        try:
            if module_refusal is not None:
                raise module_refusal
            if gname in os.environ.get("C11_FORCE_REFUSE", "").split(","):
                refuse("Module", "refusal forced for testing (C11_FORCE_REFUSE)")
            if cls is not None:
                ds = methods.get(pyname, [])
            else:
                ds = [b[3] for b in top.get(pyname, []) if b[0] == "def"]
                if len(top.get(pyname, [])) != len(ds):
                    ds = []
            if len(ds) != 1 or not isinstance(ds[0], ast.FunctionDef):
                refuse("Module", "%s is defined %d times / not by a plain def" % (pyname, len(ds)))
            if pyname == "staticLimit":
                text_f = translate_static_limit(ds[0], top, glob, meth, spec)
            else:
                text_f = translate_function(ds[0], top, glob, meth, spec)
            status[gname] = None
        except Refuse as r:
            status[gname] = r
            text_f = "(* REFUSED %s: %s -- placeholder: the hand model, tied by the correspondence only *)\n" \
                     "Definition %s %s : M %s :=\n  %s.\n" % (gname, str(r).replace("*)", "* )").replace("(*", "( *"), gname,
                                                              signature(sparams), coqtype(sret), model)
        except Exception as e:  # noqa  (a translator crash on an unforeseen construct is a refusal: fail closed)
            status[gname] = Refuse("FunctionDef", "translator error %s: %s" % (type(e).__name__, e))
            text_f = "(* REFUSED %s: translator error -- placeholder: the hand model *)\n" \
                     "Definition %s %s : M %s :=\n  %s.\n" % (gname, gname, signature(sparams), coqtype(sret), model)
        ft = fn_type(spec)
        if cls is not None:
            key = {"gen_setitem_slice": "setitem_slice", "gen_setitem_item": "setitem_item"}.get(gname, pyname)
            meth[key] = (gname, ft)
        else:
            glob[pyname] = (gname, ft)
        out += text_f + "\n"
    try:
        trailer = open(TRAILER_FILE).read()
    except OSError:
        trailer = ""
    return out + trailer, status


def translate_repo(repo):
    path = os.path.join(repo, "deap", "gp.py")
    try:
        src = open(path).read()
    except (OSError, UnicodeDecodeError) as e:
        src = "\x00 unreadable: %s" % e        # -> syntax error -> refusal
    return translate_source(src, path)


if __name__ == "__main__":
    import sys
    txt, st = translate_repo(sys.argv[1] if len(sys.argv) > 1 else "/repo")
    print(txt)
    for k, v in st.items():
        sys.stderr.write("%s: %s\n" % (k, "translated" if v is None else "REFUSED %s" % v))
