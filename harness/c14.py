"""C14 — elitist (1+lambda), active (1+lambda) and multi-objective CMA-ES (deap/cma.py, tools/indicator.py).

Drives the three strategies of the working tree under test through generate/update histories with
recorded numpy.random draws, evaluates the property statement directly on the strategy attributes
after every round (oracle, independent numpy recomputation) and sends rounds to the Coq model
(Model/C14_exec.v instantiated with primitive floats in Corr/C14.v) for the correspondence.
"""
import copy
import math
import warnings

import numpy as np

import glob
import json
import os

from vlib import cnat, cnatl, cbool, cbl, clist, copt, cpair, cfloat, cz, czl, VERIF

ATOL = 1e-12
RTOL = 1e-9
COND_MAX = 1e12

# ----------------------------------------------------------------------------------------------
# tie (T): regenerate coq/Gen/C14_gen.v from the working tree (harness/c14_py2coq.py)
# ----------------------------------------------------------------------------------------------
import re
import vlib

GEN = os.path.join(vlib.COQ, "Gen", "C14_gen.v")
METHOD_OF = {"plain_computeParams": "StrategyOnePlusLambda.computeParams",
             "plain_update_scalar": "StrategyOnePlusLambda.update (scalar slice)",
             "active_computeParams": "StrategyActiveOnePlusLambda.__init__ / _compute_lambda_parameters (parameters)",
             "mo_computeParams": "StrategyMultiObjective.__init__ (parameters)",
             "active_rank1_scalar": "StrategyActiveOnePlusLambda._rank1update (scalar slice)",
             "active_p_succ": "StrategyActiveOnePlusLambda.update (success frequency)"}


def _typechecks(txt):
    """does the regenerated text compile?  -> (ok, line number of the first error or None)"""
    import shutil
    import subprocess
    import tempfile
    d = tempfile.mkdtemp(prefix="c14gen_")
    try:
        fn = os.path.join(d, "C14_gen_probe.v")
        with open(fn, "w") as f:
            f.write(txt)
        p = subprocess.run(["timeout", "300", "coqc", "-Q", vlib.COQ, "DV", "-w", "none", fn], cwd=d,
                           stdout=subprocess.PIPE, stderr=subprocess.STDOUT, text=True)
        if p.returncode == 0:
            return True, None
        m = re.search(r'line (\d+), characters', p.stdout)
        return ("Error" not in p.stdout), (int(m.group(1)) if m else None)   # killed without a Coq error: no verdict
    finally:
        shutil.rmtree(d, ignore_errors=True)


def regen(repo=None):
    """Returns (ok, message, status) -- status: function key -> None (translated) | Refuse (placeholder = the hand
    model's term); ok is False when nothing could be translated.  A regenerated definition that does not type-check
    counts as a refusal of that function."""
    import c14_py2coq
    repo = repo or vlib.REPO
    forced = tuple(x for x in os.environ.get("C14_FORCE_REFUSE", "").split(",") if x)
    extra = {}
    try:
        txt, status = c14_py2coq.translate_repo(repo, forced)
        if os.path.exists(os.path.join(vlib.COQ, "Model", "C14_GenRt.vo")):
            for _ in range(len(status)):
                ok, line = _typechecks(txt)
                if ok:
                    break
                lines = txt.split("\n")[:line or 0]
                keys = [k for k in c14_py2coq.ORDER
                        if any(l.startswith(c14_py2coq.FUNCS[k]["header"].split(" (")[0] + " ") for l in lines)]
                bad = keys[-1] if keys else None
                if bad is None or bad in extra:
                    raise RuntimeError("regenerated text does not compile (line %s)" % line)
                extra[bad] = c14_py2coq.Refuse("FunctionDef", "the regenerated definition does not type-check")
                txt, status = c14_py2coq.translate_repo(repo, forced + tuple(extra))
                for k, v in extra.items():
                    status[k] = v
    except Exception as e:  # noqa  (a translator crash is a refusal of everything: fail closed)
        r = c14_py2coq.Refuse("Module", "translator error %s: %s" % (type(e).__name__, e))
        txt, status = c14_py2coq.translate_source("\x00")     # all placeholders
        status = {k: r for k in status}
    with vlib.BuildLock():
        os.makedirs(os.path.dirname(GEN), exist_ok=True)
        old = open(GEN).read() if os.path.exists(GEN) else None
        if old != txt:
            with open(GEN, "w") as f:
                f.write(txt)
    done = [METHOD_OF[k] for k, v in status.items() if v is None]
    refused = ["%s (%s)" % (METHOD_OF[k], v) for k, v in status.items() if v is not None]
    msg = "regenerated: %s" % (", ".join(done) or "nothing")
    if refused:
        msg += "; translator refused: " + "; ".join(refused)
    return bool(done), msg, status


def tie_T(run):
    """Regenerate, re-prove `regenerated = hand model` and the theorems on the regenerated definitions.
    Returns (check function of the correspondence, requires, translated-but-not-proved flag)."""
    ok, msg, status = regen()
    refused = {k: v for k, v in status.items() if v is not None}
    done = [METHOD_OF[k] for k, v in status.items() if v is None]
    run.extra_cov["regenerated_functions"] = done
    run.extra_cov["translator_refused"] = {METHOD_OF[k]: str(v) for k, v in refused.items()}
    for k, v in refused.items():
        run.notes.append("tie: correspondence-only (translator refused %s at line %s in %s: %s)"
                         % (v.node, v.line, METHOD_OF[k], v.why))
    if not ok:
        run.extra_cov["tie"] = "correspondence-only (%s)" % msg
        return "check", [], False
    gen_ok = run.build_props(props="Props/C14_gen.v", extra=["Corr/C14_gen.v"])
    if not gen_ok and run.broken and all("Error" not in (b.get("log") or "") for b in run.broken):
        run.notes.append("build of the regenerated tie interrupted without a Coq error (killed?); retried once")
        del run.broken[:]
        run.obligations[:] = [o for o in run.obligations if not o["name"].startswith("C14_gen_")]
        gen_ok = run.build_props(props="Props/C14_gen.v", extra=["Corr/C14_gen.v"])
    if gen_ok:
        run.notes.append("tie: regenerated (%s)" % ", ".join(done))
        run.extra_cov["tie"] = ("translation (regenerated definitions proved equal to the hand model: %s) + correspondence%s"
                                % (", ".join(done), "; correspondence-only for " + ", ".join(
                                    sorted(METHOD_OF[k] for k in refused)) if refused else
                                   "; correspondence-only for the matrix code (generate, covariance / factor / inverse "
                                   "updates, selection)"))
        run.trusted.append("translator harness/c14_py2coq.py and its signature table (source text of the scalar parameter / "
                           "step-size code of deap/cma.py -> coq/Gen/C14_gen.v; the matrix-side statements are sliced away "
                           "under a side-effect-freedom whitelist); the regenerated definitions are proved equal to the hand "
                           "model over a real closed field (Proofs/C14_gen_equiv.v) and evaluated at binary64 against the "
                           "implementation on every run")
        return "check_both", ["From DV Require Import Corr.C14_gen."], False
    run.extra_cov["tie"] = "translator succeeded but the regenerated definitions are no longer (provably) the model"
    try:        # keep the offending text for the replay
        with open(os.path.join(run.rundir, "C14_gen.v.broken"), "w") as f:
            f.write(open(GEN).read())
    except OSError:
        pass
    return "check", [], True


# ----------------------------------------------------------------------------------------------
# recording proxies (installed in the namespace of deap.cma only)
# ----------------------------------------------------------------------------------------------
class RandomLog(object):
    """numpy.random look-alike around a private RandomState; logs every call.  A call site that
    is not one of the modelled draw sites raises AttributeError (=> the check reports it)."""

    def __init__(self, seed):
        self.rs = np.random.RandomState(seed)
        self.log = []

    def standard_normal(self, size=None):
        r = self.rs.standard_normal(size)
        self.log.append(("normal", np.array(r, dtype=float, copy=True)))
        return r

    def randn(self, *shape):
        r = self.rs.randn(*shape)
        self.log.append(("normal", np.array(r, dtype=float, copy=True)))
        return r

    def randint(self, low, high=None, size=None):
        r = self.rs.randint(low, high, size)
        self.log.append(("randint", low, high, np.array(r, copy=True)))
        return r

    def rand(self, *shape):
        r = self.rs.rand(*shape)
        self.log.append(("rand", np.array(r, dtype=float, copy=True)))
        return r

    def geometric(self, p, size=None):
        r = self.rs.geometric(p, size)
        self.log.append(("geometric", p, np.array(r, copy=True)))
        return r

    def take(self):
        l, self.log = self.log, []
        return l


class NumpyProxy(object):
    def __init__(self, rl):
        self.random = rl

    def __getattr__(self, name):
        return getattr(np, name)


class Patched(object):
    """with Patched(cma, rl): ... replaces the name `numpy` inside deap.cma."""

    def __init__(self, cma, rl):
        self.cma, self.rl = cma, rl

    def __enter__(self):
        self.old = self.cma.numpy
        self.cma.numpy = NumpyProxy(self.rl)

    def __exit__(self, *a):
        self.cma.numpy = self.old


# ----------------------------------------------------------------------------------------------
# Coq literals
# ----------------------------------------------------------------------------------------------
def cv(v):
    return clist([cfloat(x) for x in v])


def cm(m):
    return clist([cv(r) for r in m])


def cvl(l):
    return clist([cv(v) for v in l])


def cml(l):
    return clist([cm(m) for m in l])


def cfit(wv, cvio):
    return "(FIT %s %s)" % (cv(wv), copt(cvio, lambda l: cbl([bool(b) for b in l])))


def rtol_for(*mats):
    c = 1.0
    for m in mats:
        try:
            c = max(c, float(np.linalg.cond(np.asarray(m, dtype=float))))
        except Exception:
            c = float("inf")
    return RTOL * c


def nclose(a, b, rtol):
    """normwise closeness of arrays (same shape)"""
    a, b = np.asarray(a, dtype=float), np.asarray(b, dtype=float)
    if a.shape != b.shape:
        return False
    if a.size == 0:
        return True
    if not (np.all(np.isfinite(a)) and np.all(np.isfinite(b))):
        return False
    return bool(np.max(np.abs(a - b)) <= ATOL + rtol * max(np.max(np.abs(a)), np.max(np.abs(b))))


# ----------------------------------------------------------------------------------------------
# objectives
# ----------------------------------------------------------------------------------------------
def f_sphere(x):
    return (float(sum(xi * xi for xi in x)),)


def f_ellipsoid(x):
    n = len(x)
    return (float(sum((10.0 ** (3.0 * i / max(1, n - 1)) * xi) ** 2 for i, xi in enumerate(x))),)


def f_rastrigin(x):
    return (float(10 * len(x) + sum(xi * xi - 10 * math.cos(2 * math.pi * xi) for xi in x)),)


def f_step(x):
    # plateaus: many ties between parent and offspring
    return (float(math.floor(4.0 * sum(xi * xi for xi in x)) / 4.0),)


def f_negsphere(x):
    return (-float(sum(xi * xi for xi in x)),)


def f_noise(x):
    # deterministic but chaotic in x: offspring are often worse than old ancestors (negative updates)
    return (float(math.sin(12345.678 * sum(x)) + 1.0 + 1e-3 * sum(xi * xi for xi in x)),)


def f_ulp(x):
    # values one or two ulps apart: comparisons must be exact, never tolerance based
    return (1.0 + (int(abs(sum(x)) * 1e6) % 3) * 2.0 ** -52,)


def f_zero(x):
    # +0.0 / -0.0: equal fitnesses of different sign bit
    return (0.0 if x[0] >= 0 else -0.0,)


def f_intval(x):
    # Python ints (not floats)
    return (int(sum(xi * xi for xi in x) * 8),)


def f_bigint(x):
    # ints above 2**53: several offspring collapse to one float fitness
    return (2 ** 60 + int(sum(xi * xi for xi in x) * 64),)


def f_npfloat(x):
    return (np.float64(sum(xi * xi for xi in x)),)


SINGLE = {"sphere": f_sphere, "ellipsoid": f_ellipsoid, "rastrigin": f_rastrigin, "step": f_step, "noise": f_noise,
          "ulp": f_ulp, "zero": f_zero, "intval": f_intval, "bigint": f_bigint, "npfloat": f_npfloat,
          "negsphere": f_negsphere}


def mo_two_spheres(x):
    n = len(x)
    return (float(sum((xi - 1.0) ** 2 for xi in x)), float(sum((xi + 1.0) ** 2 for xi in x)))


def mo_zdt1(x):
    # ZDT1 on the box [0,1]^n; outside the box the point is projected and a penalty added to both
    # objectives (MO-CMA samples without bounds)
    y = [min(1.0, max(0.0, xi)) for xi in x]
    pen = float(sum((xi - yi) ** 2 for xi, yi in zip(x, y)))
    g = 1.0 + 9.0 * sum(y[1:]) / max(1, len(y) - 1)
    f1 = y[0]
    f2 = g * (1.0 - math.sqrt(f1 / g))
    return (float(f1 + pen), float(f2 + pen))


def mo_stepped(x):
    a, b = mo_two_spheres(x)
    return (float(math.floor(2.0 * a) / 2.0), float(math.floor(2.0 * b) / 2.0))


MULTI = {"two_spheres": mo_two_spheres, "zdt1": mo_zdt1, "stepped": mo_stepped}


def default_constraint_specs(n, m):
    """the constraints of DEAP's own tests, as specs {"coef", "op", "b"}: violated iff coef.x op b"""
    e = lambda *idx: [1.0 if j in [i % n for i in idx] else 0.0 for j in range(n)]
    specs = [{"coef": e(0, 1) if n > 1 else e(0), "op": "lt", "b": 0.1}, {"coef": e(1), "op": "lt", "b": 0.1},
             {"coef": e(-1), "op": "lt", "b": 0.05}]
    return specs[:m]


def make_constraints(specs):
    def mk(sp):
        coef, op, b = [float(c) for c in sp["coef"]], sp["op"], float(sp["b"])
        if op == "lt":
            return lambda x: bool(sum(c * xi for c, xi in zip(coef, x)) < b)
        return lambda x: bool(sum(c * xi for c, xi in zip(coef, x)) > b)
    return [mk(sp) for sp in specs]


# ----------------------------------------------------------------------------------------------
# helpers shared by the oracles
# ----------------------------------------------------------------------------------------------
class Ctx(object):
    def __init__(self, run):
        self.run = run
        self.terms = []
        self.cases = []
        self.branch = {}

    def hit(self, name):
        self.branch[name] = self.branch.get(name, 0) + 1

    def add(self, term, case):
        self.terms.append(term)
        self.cases.append(case)


def creator_classes():
    from deap import base, creator
    with warnings.catch_warnings():
        warnings.simplefilter("ignore")
        if not hasattr(creator, "C14FMin"):
            creator.create("C14FMin", base.Fitness, weights=(-1.0,))
            creator.create("C14IndMin", list, fitness=creator.C14FMin)
            creator.create("C14FMax", base.Fitness, weights=(1.0,))
            creator.create("C14IndMax", list, fitness=creator.C14FMax)
            creator.create("C14FCon", base.ConstrainedFitness, weights=(-1.0,))
            creator.create("C14IndCon", list, fitness=creator.C14FCon)
            creator.create("C14FMO", base.Fitness, weights=(-1.0, -1.0))
            creator.create("C14IndMO", list, fitness=creator.C14FMO)
    return creator


def wv(ind):
    return tuple(float(x) for x in ind.fitness.wvalues)


def make_classes(fit_kind, weights, container):
    """creator classes on demand: fit_kind 'plain' / 'constrained'; container 'list' / 'array' / 'numpy'"""
    import array
    from deap import base, creator
    wname = "_".join(("m" if w < 0 else "p") + str(abs(w)).replace(".", "d") for w in weights)
    fname = "C14F_%s_%s" % (fit_kind, wname)
    iname = "C14I_%s_%s_%s" % (fit_kind, wname, container)
    with warnings.catch_warnings():
        warnings.simplefilter("ignore")
        if not hasattr(creator, fname):
            creator.create(fname, base.ConstrainedFitness if fit_kind == "constrained" else base.Fitness,
                           weights=tuple(float(w) for w in weights))
        if not hasattr(creator, iname):
            F = getattr(creator, fname)
            if container == "array":
                creator.create(iname, array.array, typecode="d", fitness=F)
            elif container == "numpy":
                creator.create(iname, np.ndarray, fitness=F)
            else:
                creator.create(iname, list, fitness=F)
    return getattr(creator, iname)


def fit_matches(ind, values):
    """the fitness of ind is the fitness obtained by assigning `values` (compared through a fresh
    fitness object of the same class, so that int / numpy-scalar values are converted the same way)"""
    fresh = type(ind.fitness)()
    fresh.values = values
    return tuple(fresh.wvalues) == tuple(ind.fitness.wvalues)


def guarded_call(run, what, case, fn, *a):
    try:
        return True, fn(*a)
    except Exception as e:      # noqa
        run.oracle_violation("%s raised %s" % (what, type(e).__name__), case, observed=repr(e)[:300])
        return False, None


def plain_expected_params(dim, kargs):
    lam = kargs.get("lambda_", 1)
    ptarg = kargs.get("ptarg", 1.0 / (5 + math.sqrt(lam) / 2.0))
    return {"lambda_": lam, "d": kargs.get("d", 1.0 + dim / (2.0 * lam)), "ptarg": ptarg,
            "cp": kargs.get("cp", ptarg * lam / (2 + ptarg * lam)), "cc": kargs.get("cc", 2.0 / (dim + 2.0)),
            "ccov": kargs.get("ccov", 2.0 / (dim ** 2 + 6.0)), "pthresh": kargs.get("pthresh", 0.44)}


def params_differ(s, exp):
    return [k for k, v in exp.items() if not (getattr(s, k) == v or abs(getattr(s, k) - v) <= 1e-15 * abs(v))]


# ==============================================================================================
# (1+lambda), plain
# ==============================================================================================
def plain_snapshot(s):
    return {"parent": [float(x) for x in s.parent], "pfit": list(wv(s.parent)), "sigma": float(s.sigma),
            "psucc": float(s.psucc), "pc": np.array(s.pc, dtype=float), "C": np.array(s.C, dtype=float),
            "A": np.array(s.A, dtype=float)}


def c_pstate(st):
    return "(PS %s %s %s %s %s %s %s)" % (cv(st["parent"]), cv(st["pfit"]), cfloat(st["sigma"]), cfloat(st["psucc"]),
                                          cv(st["pc"]), cm(st["C"]), cm(st["A"]))


def c_pparams(s):
    return "(PP %s %s %s %s %s %s %s)" % (cnat(s.lambda_), cfloat(s.d), cfloat(s.ptarg), cfloat(s.cp), cfloat(s.cc),
                                          cfloat(s.ccov), cfloat(s.pthresh))


def run_plain(ctx, cfg):
    from deap import cma
    run = ctx.run
    dim, rounds = cfg["dim"], cfg["rounds"]
    maximise = cfg["objective"] == "negsphere"
    f = SINGLE[cfg["objective"]]
    weights = cfg.get("weights", (1.0,) if maximise else (-1.0,))
    Ind = make_classes("plain", weights, cfg.get("container", "list"))
    kargs = dict(cfg.get("kargs", {}))
    if "lambda" in cfg and cfg["lambda"] is not None:
        kargs["lambda_"] = cfg["lambda"]          # cfg["lambda"] None: lambda_ omitted (default 1)
    rl = RandomLog(cfg["seed"])
    parent = Ind(cfg["parent"])
    parent.fitness.values = f(parent)
    case0 = dict(cfg, kind="plain")
    ok, s = guarded_call(run, "StrategyOnePlusLambda()", case0,
                         lambda: cma.StrategyOnePlusLambda(parent, cfg["sigma"], **kargs))
    if not ok:
        return
    lam = s.lambda_
    only_lambda = set(kargs) <= {"lambda_"}

    def check_params(case, kargs_now):
        bad = params_differ(s, plain_expected_params(dim, kargs_now))
        if bad:
            run.oracle_violation("(1+lambda): parameters are not the supplied values / documented defaults", case, observed=bad)
        if set(kargs_now) <= {"lambda_"}:
            ctx.add("CPlainParams %s %s %s" % (cnat(dim), cnat(s.lambda_), c_pparams(s)), dict(case, what="params"))
            if not (0.0 < s.cp < 1.0 and 0.0 < s.ptarg < 1.0 and s.d > 0 and 0.0 < s.ccov < 1.0 and 0.0 < s.cc <= 1.0):
                run.oracle_violation("default parameters outside their ranges", case,
                                     observed=[s.cp, s.ptarg, s.d, s.ccov, s.cc])

    check_params(case0, kargs)
    st0 = plain_snapshot(s)
    ctx.add("CPlainInit %s %s %s %s %s %s" % (cnat(dim), c_pparams(s), cv(st0["parent"]), cv(st0["pfit"]),
                                           cfloat(cfg["sigma"]), c_pstate(st0)), dict(case0, what="init"))
    state = {"best": wv(s.parent)}
    send = cfg["send"]
    relam = cfg.get("relam", {})
    repeat = cfg.get("repeat_update", ())

    def step(case, pre, pop, g, gen_terms):
        """update(pop) + oracle + correspondence; pop already evaluated.  False: stop the history."""
        lam = s.lambda_
        xs = [[float(v) for v in ind] for ind in pop]
        fits = [wv(ind) for ind in pop]
        evaluated = [(list(x), fw) for x, fw in zip(xs, fits)]
        with Patched(cma, rl):
            ok, _ = guarded_call(run, "update", case, s.update, pop)
        if not ok:
            return False
        if rl.take():
            run.oracle_violation("update consumed random draws", case)
        post = plain_snapshot(s)
        cond = float(np.linalg.cond(post["A"])) if np.all(np.isfinite(post["A"])) else float("inf")
        best_round = max(fits)
        state["best"] = max(state["best"], best_round)
        pw = tuple(post["pfit"])
        replaced = tuple(pre["pfit"]) <= best_round
        ctx.hit("plain.replaced" if replaced else "plain.kept")
        if best_round == tuple(pre["pfit"]):
            ctx.hit("plain.tie")
        if pw < tuple(pre["pfit"]):
            run.oracle_violation("(1+lambda): parent fitness got worse", case, observed=[pre["pfit"], post["pfit"]])
        if pw != state["best"]:
            run.oracle_violation("(1+lambda): parent fitness is not the best fitness evaluated so far", case,
                                 observed=[post["pfit"], list(state["best"])])
        if not fit_matches(s.parent, f(s.parent)):
            run.oracle_violation("(1+lambda): parent fitness does not match its genotype", case,
                                 observed=[list(s.parent.fitness.values), list(f(s.parent))])
        if any(s.parent is ind or s.parent.fitness is ind.fitness for ind in pop):
            run.oracle_violation("(1+lambda): parent shares an object with an offspring (later changes by the caller would change the parent)", case)
        if replaced:
            first_best = [x for x, fw in evaluated if fw == best_round][0]
            if post["parent"] != first_best:
                run.oracle_violation("(1+lambda): parent not replaced by the (first) best offspring although it is at least as good",
                                     case, observed=[post["parent"], first_best])
        elif post["parent"] != pre["parent"]:
            run.oracle_violation("(1+lambda): parent replaced by a worse offspring", case,
                                 observed=[pre["pfit"], list(best_round)])
        nsucc = sum(1 for fw in fits if tuple(pre["pfit"]) <= fw)
        exp_psucc = (1 - s.cp) * pre["psucc"] + s.cp * nsucc / float(lam)
        if not (0.0 <= post["psucc"] <= 1.0) or abs(post["psucc"] - exp_psucc) > 1e-12:
            run.oracle_violation("(1+lambda): success rate outside [0,1] or not the smoothed success frequency", case,
                                 observed=[post["psucc"], exp_psucc])
        exp_sigma = pre["sigma"] * math.exp((exp_psucc - s.ptarg) / (s.d * (1 - s.ptarg)))
        if not (post["sigma"] > 0.0) or abs(post["sigma"] - exp_sigma) > 1e-9 * exp_sigma:
            run.oracle_violation("(1+lambda): step size not positive / not the success-rule update", case,
                                 observed=[post["sigma"], exp_sigma])
        if post["psucc"] == s.pthresh:
            ctx.hit("plain.psucc_eq_pthresh")
        if replaced:
            xb = np.array([x for x, fw in evaluated if fw == best_round][0])
            stp = (xb - np.array(pre["parent"])) / pre["sigma"]
            if exp_psucc < s.pthresh:
                ctx.hit("plain.low")
                epc = (1 - s.cc) * pre["pc"] + math.sqrt(s.cc * (2 - s.cc)) * stp
                eC = (1 - s.ccov) * pre["C"] + s.ccov * np.outer(epc, epc)
            else:
                ctx.hit("plain.high")
                epc = (1 - s.cc) * pre["pc"]
                eC = (1 - s.ccov) * pre["C"] + s.ccov * (np.outer(epc, epc) + s.cc * (2 - s.cc) * pre["C"])
        else:
            epc, eC = pre["pc"], pre["C"]
        rt2 = RTOL * max(1.0, cond)
        if cond < COND_MAX:
            if not nclose(post["pc"], epc, rt2) or not nclose(post["C"], eC, rt2):
                run.oracle_violation("(1+lambda): covariance / path do not follow the published success rule", case,
                                     observed=[post["pc"].tolist(), np.asarray(epc).tolist()])
            A = post["A"]
            if not (np.allclose(A, np.tril(A), rtol=0, atol=0) and np.all(np.diag(A) > 0)
                    and nclose(A.dot(A.T), post["C"], rt2)):
                run.oracle_violation("(1+lambda): A is not a Cholesky factor of C", case, observed=A.tolist())
        run.note_case(case, nontrivial=True, sample=case if g == 0 else None)
        if cond < COND_MAX and g in send:
            for t in gen_terms:
                ctx.add(t, dict(case, what="generate"))
            obs_pop = [([float(v) for v in ind], list(wv(ind))) for ind in pop]     # sorted in place by update
            ctx.add("CPlainUpd %s %s %s %s %s %s" % (
                c_pparams(s), c_pstate(pre), clist([cpair(cv(x), cv(fw)) for x, fw in evaluated]), cfloat(rt2),
                c_pstate(post), clist([cpair(cv(x), cv(fw)) for x, fw in obs_pop])), dict(case, what="update"))
        return cond < COND_MAX

    for g in range(rounds):
        if g in relam:
            # documented route to change lambda: computeParams must be called again
            kargs = {"lambda_": relam[g]}
            ctx.hit("plain.lambda_changed")
            ok, _ = guarded_call(run, "computeParams", dict(case0, round=g), s.computeParams, kargs)
            if not ok:
                return
            check_params(dict(case0, round=g, what="params after computeParams"), kargs)
        lam = s.lambda_
        pre = plain_snapshot(s)
        case = dict(case0, round=g)
        with Patched(cma, rl):
            ok, pop = guarded_call(run, "generate", case, s.generate, Ind)
        if not ok:
            return
        log = rl.take()
        ok_draws = len(log) == 1 and log[0][0] == "normal" and log[0][1].shape == (lam, dim)
        if not ok_draws:
            run.oracle_violation("generate consumed unexpected random draws", case, observed=[l[0] for l in log])
            return
        arz = log[0][1]
        xs = [[float(v) for v in ind] for ind in pop]
        rt = rtol_for(pre["A"])
        if len(pop) != lam or any(len(x) != dim for x in xs):
            run.oracle_violation("generate did not return lambda individuals of the dimension", case, observed=len(pop))
            return
        exp_x = np.array(pre["parent"]) + pre["sigma"] * arz.dot(pre["A"].T)
        if not nclose(np.array(xs), exp_x, rt):
            run.oracle_violation("offspring are not parent + sigma * A z", case, observed=xs)
        if plain_snapshot(s)["parent"] != pre["parent"] or any(ind is s.parent for ind in pop):
            run.oracle_violation("generate changed the parent / returned the parent object", case)
        for ind in pop:
            ind.fitness.values = f(ind)
        gen_terms = ["CPlainGen %s %s %s %s" % (c_pstate(pre), cvl(arz), cfloat(rt), cvl(xs))]
        if not step(case, pre, pop, g, gen_terms):
            break
        if g in repeat:
            # the same population object handed to update a second time (no generate in between)
            ctx.hit("plain.update_twice")
            if not step(dict(case, second_update=True), plain_snapshot(s), pop, g, []):
                break
        # the caller goes on using (and changing) what it passed: the parent must not notice
        before = plain_snapshot(s)
        for ind in pop:
            ind[0] = ind[0] + 1.0
            del ind.fitness.values
        after = plain_snapshot(s)
        if before["parent"] != after["parent"] or before["pfit"] != after["pfit"]:
            run.oracle_violation("(1+lambda): changing the offspring after update changed the parent", case,
                                 observed=[before["pfit"], after["pfit"]])


# ==============================================================================================
# active (1+lambda)
# ==============================================================================================
def fit_tuple(fitness):
    """(wvalues, constraint_violation or None) of a fitness object"""
    cvio = getattr(fitness, "constraint_violation", None) if hasattr(fitness, "constraint_violation") else None
    return (tuple(float(x) for x in fitness.wvalues), None if cvio is None else tuple(bool(b) for b in cvio))


def act_snapshot(s):
    pf = fit_tuple(s.parent.fitness) if hasattr(s.parent, "fitness") else None
    return {"parent": [float(x) for x in s.parent], "pfit": pf, "sigma": float(s.sigma), "psucc": float(s.psucc),
            "pc": np.array(s.pc, dtype=float), "A": np.array(s.A, dtype=float), "invA": np.array(s.invA, dtype=float),
            "cvecs": None if s.constraint_vecs is None else np.array(s.constraint_vecs, dtype=float),
            "anc": [fit_tuple(fi) for fi in s.ancestors_fitness], "iIR": [int(i) for i in s.i_I_R]}


def c_fit_t(ft):
    return cfit(ft[0], ft[1])


def c_astate(st):
    return "(AS %s %s %s %s %s %s %s %s %s %s)" % (
        cv(st["parent"]), copt(st["pfit"], c_fit_t), cfloat(st["sigma"]), cfloat(st["psucc"]), cv(st["pc"]),
        cm(st["A"]), cm(st["invA"]), copt(st["cvecs"], cm), clist([c_fit_t(ft) for ft in st["anc"]]), cnatl(st["iIR"]))


def c_aparams(s):
    return "(AP %s %s %s %s %s %s %s %s %s %s %s)" % (
        cnat(s.lambda_), cfloat(s.d), cfloat(s.ptarg), cfloat(s.cp), cfloat(s.cc), cfloat(s.ccovp), cfloat(s.ccovn),
        cfloat(s.cconst), cfloat(s.beta), cfloat(s.pthresh), cv(s.S_int))


def violates(ft):
    return ft is not None and len(ft[0]) == 0 and ft[1] is not None and any(ft[1])


def fit_le(a, b):
    """ConstrainedFitness.__le__ / Fitness.__le__ restated on (wvalues, cv) pairs"""
    va, vb = violates(a), violates(b)
    if va:
        return True
    if vb:
        return False
    return a[0] <= b[0]


def fit_lt(a, b):
    va, vb = violates(a), violates(b)
    if va and vb:
        return False
    if va:
        return True
    if vb:
        return False
    return a[0] < b[0]


def run_active(ctx, cfg):
    from deap import cma
    run = ctx.run
    dim, rounds = cfg["dim"], cfg["rounds"]
    specs = cfg["constraints"]
    if isinstance(specs, int):
        specs = default_constraint_specs(dim, specs)
    ncons = len(specs)
    f = SINGLE[cfg["objective"]]
    cons = make_constraints(specs)
    mode = cfg.get("parent_mode", "bare" if cfg.get("bare_parent") else "feasible")
    weights = cfg.get("weights", (-1.0,))
    Ind = make_classes("constrained" if ncons else "plain", weights, cfg.get("container", "list"))
    kargs = dict(cfg.get("kargs", {}))
    if cfg.get("lambda") is not None:
        kargs["lambda_"] = cfg["lambda"]
    skip_eval = cfg.get("skip_eval", 0.0)      # plain Fitness only: some offspring are left unevaluated
    skip_rng = np.random.RandomState(cfg["seed"] ^ 0x5EED)
    rl = RandomLog(cfg["seed"])
    case0 = dict(cfg, kind="active")

    def evaluate(ind, may_skip=False):
        if may_skip and not ncons and skip_eval and skip_rng.rand() < skip_eval:
            ctx.hit("active.unevaluated_offspring")
            return
        if ncons:
            cvio = tuple(c(ind) for c in cons)
            if not any(cvio):
                ind.fitness.values = f(ind)
            ind.fitness.constraint_violation = cvio
        else:
            ind.fitness.values = f(ind)

    if mode == "bare":
        parent = np.array(cfg["parent"], dtype=float)           # no .fitness at all (as in DEAP's tests)
    elif mode == "unevaluated":
        parent = Ind(cfg["parent"])                             # fitness object without values
    else:
        parent = Ind(cfg["parent"])                             # "feasible" / "infeasible": evaluated as the offspring are
        evaluate(parent)
    ctx.hit("active.start_" + mode + ("_violating" if hasattr(parent, "fitness") and violates(fit_tuple(parent.fitness)) else ""))
    steps = cfg["steps"]
    with Patched(cma, rl):
        ok, s = guarded_call(run, "StrategyActiveOnePlusLambda()", case0,
                             lambda: cma.StrategyActiveOnePlusLambda(parent, cfg["sigma"], steps, **kargs))
    if not ok:
        return
    lam = s.lambda_

    def check_params(case, kargs_now):
        lam_ = kargs_now.get("lambda_", 1)
        ptarg = kargs_now.get("ptarg", 1.0 / (5 + math.sqrt(lam_) / 2.0))
        exp = {"lambda_": lam_, "d": kargs_now.get("d", 1.0 + dim / (2.0 * lam_)), "ptarg": ptarg,
               "cp": kargs_now.get("cp", ptarg * lam_ / (2 + ptarg * lam_)), "cc": kargs_now.get("cc", 2.0 / (dim + 2.0)),
               "ccovp": kargs_now.get("ccovp", 2.0 / (dim ** 2 + 6.0)), "ccovn": kargs_now.get("ccovn", 0.4 / (dim ** 1.6 + 1.0)),
               "cconst": kargs_now.get("cconst", 1.0 / (dim + 2.0)), "beta": kargs_now.get("beta", 0.1 / (lam_ * (dim + 2.0))),
               "pthresh": kargs_now.get("pthresh", 0.44)}
        bad = params_differ(s, exp)
        if bad:
            run.oracle_violation("active: parameters are not the supplied values / documented defaults", case, observed=bad)
        if set(kargs_now) <= {"lambda_"}:
            ctx.add("CActParams %s %s %s %s %s" % (cnat(dim), cnat(s.lambda_), cfloat(s.ccovn), cv(steps), c_aparams(s)),
                    dict(case, what="params"))
            if not (0.0 < s.cp < 1.0 and 0.0 < s.ptarg < 1.0 and 0.0 < s.ccovp < 1.0 and s.ccovn >= 0 and 0 < s.beta < 1
                    and s.ccovp * (1 + s.cc * (2 - s.cc)) < 1):
                run.oracle_violation("active: default parameters outside their ranges", case)

    check_params(case0, kargs)
    st0 = act_snapshot(s)
    ctx.add("CActInit %s %s %s %s %s %s" % (cnat(dim), c_aparams(s), cv(st0["parent"]), copt(st0["pfit"], c_fit_t),
                                         cfloat(cfg["sigma"]), c_astate(st0)), dict(case0, what="init"))
    # observers around the two internal update steps (instance attributes; behaviour unchanged)
    trace = []
    orig_r1, orig_inf = s._rank1update, s._infeasible_update

    def obs_r1(individual, p_succ):
        pre = act_snapshot(s)
        orig_r1(individual, p_succ)
        trace.append(("rank1", pre, individual, float(p_succ), act_snapshot(s)))

    def obs_inf(individual):
        pre = act_snapshot(s)
        orig_inf(individual)
        trace.append(("infeasible", pre, individual, None, act_snapshot(s)))

    s._rank1update, s._infeasible_update = obs_r1, obs_inf
    inv_log = []

    class LinalgProxy(object):
        LinAlgError = np.linalg.LinAlgError

        def inv(self, a):
            try:
                r = np.linalg.inv(a)
            except np.linalg.LinAlgError:
                inv_log.append(None)
                raise
            inv_log.append(np.array(r, dtype=float, copy=True))
            return r

        def __getattr__(self, name):
            return getattr(np.linalg, name)

    best_so_far = st0["pfit"] if (st0["pfit"] is not None and len(st0["pfit"][0]) > 0) else None
    send = cfg["send"]
    relam = cfg.get("relam", {})
    inject = cfg.get("inject", {})
    for g in range(rounds):
        if g in relam:
            # the documented route: assigning lambda_ recomputes the lambda-dependent parameters
            ctx.hit("active.lambda_changed")
            s.lambda_ = relam[g]
            kargs = dict(kargs, lambda_=relam[g])
            check_params(dict(case0, round=g, what="params after lambda_ assignment"), kargs)
        if g in inject:
            # public attributes reassigned by the caller between two rounds (exact threshold values)
            ctx.hit("active.state_injected")
            for k, v in inject[g].items():
                setattr(s, k, np.array(v, dtype=float) if isinstance(v, list) else v)
        lam = s.lambda_
        pre = act_snapshot(s)
        case = dict(case0, round=g)
        with Patched(cma, rl):
            ok, pop = guarded_call(run, "active generate", case, s.generate, Ind)
        if not ok:
            return
        log = rl.take()
        # ---- draws consumed by generate ----
        kinds = [l[0] for l in log]
        n_iir = len(pre["iIR"])
        if not kinds or kinds[0] != "normal" or log[0][1].shape != (lam, dim):
            run.oracle_violation("active: generate consumed unexpected random draws", case, observed=kinds)
            return
        z = log[0][1]
        us, gs, pm = [], [], []
        bad = False
        if n_iir == 0:
            bad = len(log) != 1
        else:
            rest = log[1:]
            if not rest or rest[-1][0] != "randint" or rest[-1][1:3] != (0, 2) or np.shape(rest[-1][3]) != (lam, dim):
                bad = True
            else:
                pm = [[int(v) for v in row] for row in rest[-1][3]]
                for l in rest[:-1]:
                    if l[0] == "rand" and np.shape(l[1]) == ():
                        us.append(float(l[1]))
                    elif l[0] == "geometric" and np.shape(l[2]) == ():
                        gs.append(float(l[2]))
                    else:
                        bad = True
        if bad:
            run.oracle_violation("active: generate consumed unexpected random draws", case, observed=kinds)
            return
        if n_iir:
            ctx.hit("active.integer_mutation_all" if n_iir == dim else "active.integer_mutation")
        xs = [[float(v) for v in ind] for ind in pop]
        ys = [[float(v) for v in ind._y] for ind in pop]
        zs = [[float(v) for v in ind._z] for ind in pop]
        rt = rtol_for(pre["A"])
        S = np.array(steps, dtype=float)
        exp_y = z.dot(pre["A"].T)
        if len(pop) != lam or not nclose(np.array(ys), exp_y, rt) or zs != z.tolist():
            run.oracle_violation("active: offspring do not carry their z and y = A z", case)
        # x = parent + sigma y + S_int * (integer mutation), integer coordinates on the step grid
        resid = np.array(xs) - (np.array(pre["parent"]) + pre["sigma"] * np.array(ys))
        for kx, row in enumerate(resid):
            for j in range(dim):
                if S[j] > 0:
                    q = xs[kx][j] / S[j]
                    if abs(q - round(q)) > 1e-9 * max(1.0, abs(q)):
                        run.oracle_violation("active: integer coordinate not a multiple of its step", case,
                                             observed=[xs[kx][j], float(S[j])])
                elif abs(row[j]) > ATOL + rt * max(1.0, abs(xs[kx][j])):
                    run.oracle_violation("active: continuous coordinate is not parent + sigma * y", case,
                                         observed=[xs[kx][j], float(row[j])])
        for ind in pop:
            evaluate(ind, may_skip=True)
        fts = [fit_tuple(ind.fitness) for ind in pop]
        valid = [ft for ft in fts if len(ft[0]) > 0]
        del trace[:]
        del inv_log[:]
        with Patched(cma, rl):
            proxy = cma.numpy
            proxy.linalg = LinalgProxy()
            with warnings.catch_warnings():
                warnings.simplefilter("ignore")
                ok, _ = guarded_call(run, "active update", case, s.update, pop)
        if not ok:
            return
        if rl.take():
            run.oracle_violation("active: update consumed random draws", case)
        post = act_snapshot(s)
        cond = float(np.linalg.cond(post["A"])) if np.all(np.isfinite(post["A"])) else float("inf")
        finite = all(np.all(np.isfinite(post[k])) for k in ("pc", "A", "invA")) and math.isfinite(post["sigma"])
        rt2 = RTOL * max(1.0, cond)
        # ---------------- oracle: elitism ----------------
        pre_has = pre["pfit"] is not None
        if valid:
            best_round = valid[0]
            for ft in valid[1:]:
                if best_round[0] < ft[0]:
                    best_round = ft
            replaced = (not pre_has) or fit_le(pre["pfit"], best_round)
            if best_so_far is None or best_so_far[0] < best_round[0]:
                best_so_far = best_round
        else:
            replaced = False
            best_round = None
        ctx.hit("active.replaced" if replaced else "active.kept")
        if violates(pre["pfit"]) and valid and len(valid) < len(fts):
            ctx.hit("active.violating_parent_mixed_generation")
        if post["pfit"] is not None and pre_has and fit_lt(post["pfit"], pre["pfit"]):
            run.oracle_violation("active: parent fitness got worse", case, observed=[pre["pfit"], post["pfit"]])
        if best_so_far is not None and (post["pfit"] is None or post["pfit"][0] != best_so_far[0]):
            run.oracle_violation("active: parent fitness is not the best fitness evaluated so far", case,
                                 observed=[post["pfit"], best_so_far])
        if hasattr(s.parent, "fitness") and any(s.parent is ind or s.parent.fitness is ind.fitness for ind in pop):
            run.oracle_violation("active: parent shares an object with an offspring", case)
        if hasattr(s.parent, "fitness") and s.parent.fitness.valid:
            if not fit_matches(s.parent, f(s.parent)) or (ncons and any(c(s.parent) for c in cons)):
                run.oracle_violation("active: parent fitness does not match its genotype", case,
                                     observed=[list(s.parent.fitness.values), list(f(s.parent))])
        if replaced:
            fb = [x for x, ft in zip(xs, fts) if len(ft[0]) > 0 and ft[0] == best_round[0]][0]
            if post["parent"] != fb:
                run.oracle_violation("active: parent not replaced by the first best offspring", case)
        elif post["parent"] != pre["parent"]:
            run.oracle_violation("active: parent replaced by a worse offspring", case)
        if not (0.0 <= post["psucc"] <= 1.0):
            run.oracle_violation("active: success rate outside [0,1]", case, observed=post["psucc"])
        if valid:
            nsucc = len(valid) if not pre_has else sum(1 for ft in valid if fit_le(pre["pfit"], ft))
            exp_psucc = (1 - s.cp) * pre["psucc"] + s.cp * nsucc / float(len(valid))
            if abs(post["psucc"] - exp_psucc) > 1e-12:
                run.oracle_violation("active: success rate is not the smoothed success frequency", case,
                                     observed=[post["psucc"], exp_psucc])
        if not (post["sigma"] > 0.0):
            run.oracle_violation("active: step size not positive", case, observed=post["sigma"])
        if post["psucc"] == s.pthresh:
            ctx.hit("active.psucc_eq_pthresh")
        # ---------------- oracle: factors, step by step ----------------
        if finite and cond < COND_MAX:
            for (kind, a, ind, p_succ, b) in trace:
                ca = rtol_for(b["A"])
                if not nclose(b["invA"].dot(b["A"]), np.eye(dim), ca):
                    run.oracle_violation("active: invA is not the inverse of A after %s" %
                                         ("the covariance update" if kind == "rank1" else "a constraint update"),
                                         case, observed=float(np.max(np.abs(b["invA"].dot(b["A"]) - np.eye(dim)))))
                AAt0, AAt1 = a["A"].dot(a["A"].T), b["A"].dot(b["A"].T)
                if kind == "rank1":
                    ft = fit_tuple(ind.fitness)
                    psn = (1 - s.cp) * a["psucc"] + s.cp * p_succ
                    if a["pfit"] is None or fit_le(a["pfit"], ft):
                        if psn < s.pthresh or np.allclose(a["pc"], 0):
                            ctx.hit("active.success_low")
                            v = (1 - s.cc) * a["pc"] + math.sqrt(s.cc * (2 - s.cc)) * np.array(ind._y)
                            al, be = 1 - s.ccovp, s.ccovp
                        else:
                            ctx.hit("active.success_high")
                            v = (1 - s.cc) * a["pc"]
                            al, be = 1 - s.ccovp * (1 + s.cc * (2 - s.cc)), s.ccovp
                        if not nclose(b["pc"], v, ca):
                            run.oracle_violation("active: evolution path not updated by the published rule", case)
                    elif len(a["anc"]) >= 5 and fit_lt(ft, a["anc"][0]) and psn < s.pthresh:
                        ctx.hit("active.negative")
                        zz = np.array(ind._z)
                        n2 = float(zz.dot(zz))
                        cn = s.ccovn
                        if 1 < cn * (2 * n2 - 1):
                            cn = 1 / (2 * n2 - 1)
                            ctx.hit("active.negative_clamped")
                        v = a["A"].dot(zz)
                        al, be = 1 + cn, -cn
                    else:
                        ctx.hit("active.no_cov_update")
                        v, al, be = np.zeros(dim), 1.0, 0.0
                    if not (al > 0) or not nclose(AAt1, al * AAt0 + be * np.outer(v, v), ca * max(1.0, float(np.linalg.cond(a["A"])))):
                        run.oracle_violation("active: covariance adaptation is not alpha*C + beta*v v^T with alpha > 0", case,
                                             observed=[al, be])
                else:
                    ft = fit_tuple(ind.fitness)
                    if ft[1] is None:
                        # fitness without constraint_violation attribute: _infeasible_update must do nothing
                        ctx.hit("active.infeasible_without_cv_attribute")
                        if not (np.array_equal(a["A"], b["A"]) and np.array_equal(a["invA"], b["invA"])):
                            run.oracle_violation("active: unevaluated offspring without constraint information changed the factors", case)
                        continue
                    ctx.hit("active.constraint_update")
                    nviol = sum(ft[1])
                    if np.array_equal(a["A"], b["A"]):
                        ctx.hit("active.constraint_update_ignored_singular")
                    elif nviol == 1 and b["cvecs"] is not None:
                        i = list(ft[1]).index(True)
                        vv = b["cvecs"][i]
                        w = a["invA"].dot(vv)
                        coef = (s.beta ** 2 - 2 * s.beta) / float(w.dot(w))
                        if not nclose(AAt1, AAt0 + coef * np.outer(vv, vv), ca * max(1.0, float(np.linalg.cond(a["A"])))):
                            run.oracle_violation("active: single-constraint update is not the rank-one reduction along the constraint vector", case)
        run.note_case(case, nontrivial=True, sample=case if g == 0 else None)
        # ---------------- correspondence ----------------
        if finite and cond < COND_MAX and g in send:
            obs_gen = clist(["(%s, %s, %s)" % (cv(x), cv(y), cv(zz)) for x, y, zz in zip(xs, ys, zs)])
            ctx.add("CActGen %s %s %s %s %s %s %s %s %s" % (
                cnat(dim), c_aparams(s), c_astate(pre), cvl(z), cv(us), cv(gs), clist([clist([cz(v) for v in r]) for r in pm]),
                cfloat(rt), obs_gen), dict(case, what="generate"))
            cpop = clist(["(AI %s %s %s %s)" % (cv(x), cv(y), cv(zz), c_fit_t(ft)) for x, y, zz, ft in zip(xs, ys, zs, fts)])
            # one oracle slot per invalid individual, in order: None where inv was not called
            # (no constraint_violation attribute) or raised LinAlgError
            il = list(inv_log)
            slots = []
            for ft in fts:
                if len(ft[0]) == 0:
                    slots.append(il.pop(0) if (ft[1] is not None and il) else None)
            cinvs = clist([copt(m, cm) for m in slots])
            rt3 = RTOL * max([1.0, cond] + [float(np.linalg.cond(t[4]["A"])) for t in trace])
            ctx.add("CActUpd %s %s %s %s %s %s %s" % (cnat(dim), c_aparams(s), c_astate(pre), cpop, cinvs, cfloat(rt3),
                                                   c_astate(post)), dict(case, what="update"))
        # the caller goes on changing what it passed: the parent must not notice
        before = act_snapshot(s)
        for ind in pop:
            ind[0] = ind[0] + 1.0
            if ind.fitness.valid:
                del ind.fitness.values
        after = act_snapshot(s)
        if before["parent"] != after["parent"] or before["pfit"] != after["pfit"] or before["anc"] != after["anc"]:
            run.oracle_violation("active: changing the offspring after update changed the parent / ancestors", case)
        if not (finite and cond < COND_MAX):
            break


# ==============================================================================================
# multi-objective
# ==============================================================================================
def mo_snapshot(s):
    return {"parents": [[float(v) for v in p] for p in s.parents], "pfits": [list(wv(p)) for p in s.parents],
            "sigmas": [float(x) for x in s.sigmas], "A": [np.array(a, dtype=float) for a in s.A],
            "invC": [np.array(a, dtype=float) for a in s.invCholesky], "pc": [np.array(a, dtype=float) for a in s.pc],
            "psucc": [float(x) for x in s.psucc], "ids": [id(p) for p in s.parents]}


def c_mstate(st):
    return "(MS %s %s %s %s %s %s %s)" % (cvl(st["parents"]), cvl(st["pfits"]), cv(st["sigmas"]), cml(st["A"]),
                                          cml(st["invC"]), cvl(st["pc"]), cv(st["psucc"]))


def c_mparams(s):
    return "(MP %s %s %s %s %s %s %s %s)" % (cnat(s.mu), cnat(s.lambda_), cfloat(s.d), cfloat(s.ptarg), cfloat(s.cp),
                                             cfloat(s.cc), cfloat(s.ccov), cfloat(s.pthresh))


def dominates_w(a, b):
    return all(x >= y for x, y in zip(a, b)) and any(x > y for x, y in zip(a, b))


def peel_ranks(wvs):
    """non-domination rank of every index (independent O(n^2) peeling)"""
    rest = list(range(len(wvs)))
    rank = {}
    r = 0
    while rest:
        front = [i for i in rest if not any(dominates_w(wvs[j], wvs[i]) for j in rest)]
        for i in front:
            rank[i] = r
        rest = [i for i in rest if i not in front]
        r += 1
    return rank


def run_mo(ctx, cfg):
    from deap import cma, tools
    from deap.tools import indicator as indicator_mod
    run = ctx.run
    dim, rounds = cfg["dim"], cfg["rounds"]
    f = MULTI[cfg["objective"]]
    Ind = make_classes("plain", cfg.get("weights", (-1.0, -1.0)), cfg.get("container", "list"))
    rl = RandomLog(cfg["seed"])
    case0 = dict(cfg, kind="mo")
    population = [Ind(p) for p in cfg["parents"]]
    for ind in population:
        ind.fitness.values = f(ind)
    kargs = dict(cfg.get("kargs", {}))
    if cfg.get("mu") is not None:
        kargs["mu"] = cfg["mu"]                 # None: mu omitted (defaults to len(population))
    if cfg.get("lambda") is not None:
        kargs["lambda_"] = cfg["lambda"]        # None: lambda_ omitted (defaults to 1)
    custom_calls = []
    if cfg.get("explicit_indicator"):
        def custom_indicator(front, **kw):
            custom_calls.append(len(front))
            return tools.hypervolume(front, **kw)
        kargs["indicator"] = custom_indicator
    with Patched(cma, rl):
        ok, s = guarded_call(run, "StrategyMultiObjective()", case0,
                             lambda: cma.StrategyMultiObjective(population, cfg["sigma"], **kargs))
    if not ok:
        return
    mu, lam = s.mu, s.lambda_
    ptarg = kargs.get("ptarg", 1.0 / (5.0 + 0.5))
    exp_params = {"mu": kargs.get("mu", len(population)), "lambda_": kargs.get("lambda_", 1),
                  "d": kargs.get("d", 1.0 + dim / 2.0), "ptarg": ptarg, "cp": kargs.get("cp", ptarg / (2.0 + ptarg)),
                  "cc": kargs.get("cc", 2.0 / (dim + 2.0)), "ccov": kargs.get("ccov", 2.0 / (dim ** 2 + 6.0)),
                  "pthresh": kargs.get("pthresh", 0.44)}
    bad = params_differ(s, exp_params)
    if bad:
        run.oracle_violation("MO: parameters are not the supplied values / documented defaults", case0, observed=bad)
    if set(kargs) <= {"mu", "lambda_", "indicator"}:
        ctx.add("CMoParams %s %s %s %s" % (cnat(dim), cnat(mu), cnat(lam), c_mparams(s)), dict(case0, what="params"))
    st_init = mo_snapshot(s)
    ctx.add("CMoInit %s %s %s %s %s" % (cnat(dim), c_mparams(s),
                                     clist([cpair(cv(x), cv(w)) for x, w in zip(st_init["parents"], st_init["pfits"])]),
                                     cfloat(cfg["sigma"]), c_mstate(st_init)), dict(case0, what="init"))
    if not (0.0 < s.cp < 1.0 and 0.0 < s.ptarg < 1.0 and 0.0 < s.ccov < 1.0 and s.d > 0):
        run.oracle_violation("MO: default parameters outside their ranges", case0)
    hv_log = []
    orig_ind = s.indicator

    def logging_indicator(front, **kargs):
        idx = orig_ind(front, **kargs)
        hv_log.append(([id(x) for x in front], int(idx), np.array(kargs.get("ref"), dtype=float)))
        return idx

    s.indicator = logging_indicator
    sel_log = []
    orig_select = s._select

    def logging_select(candidates):
        chosen_, not_chosen_ = orig_select(candidates)
        sel_log.append(([id(x) for x in chosen_], [id(x) for x in not_chosen_]))
        return chosen_, not_chosen_

    s._select = logging_select
    hvmod = indicator_mod.hv
    send = cfg["send"]
    for g in range(rounds):
        pre = mo_snapshot(s)
        case = dict(case0, round=g)
        if g in cfg.get("double_generate", ()):
            # a generated population that is thrown away: generate again before any update
            ctx.hit("mo.generate_twice")
            with Patched(cma, rl):
                guarded_call(run, "MO generate", case, s.generate, Ind)
            rl.take()
        with Patched(cma, rl):
            ok, pop = guarded_call(run, "MO generate", case, s.generate, Ind)
        if not ok:
            return
        log = rl.take()
        if not log or log[0][0] != "normal" or log[0][1].shape != (lam, dim):
            run.oracle_violation("MO: generate consumed unexpected random draws", case, observed=[l[0] for l in log])
            return
        arz = log[0][1]
        js = []
        for l in log[1:]:
            if l[0] != "randint" or l[1] != 0 or np.shape(l[3]) != ():
                run.oracle_violation("MO: generate consumed unexpected random draws", case, observed=[x[0] for x in log])
                return
            js.append(int(l[3]))
        if (lam == mu and js) or (lam != mu and len(js) != lam):
            run.oracle_violation("MO: generate consumed unexpected random draws", case, observed=len(js))
            return
        xs = [[float(v) for v in ind] for ind in pop]
        tags = [ind._ps for ind in pop]
        maxc = max(float(np.linalg.cond(a)) for a in pre["A"])
        rt = RTOL * max(1.0, maxc)
        okgen = len(pop) == lam and all(t[0] == "o" and 0 <= t[1] < len(pre["parents"]) for t in tags)
        if okgen:
            for kx, (x, t) in enumerate(zip(xs, tags)):
                p = t[1]
                ex = np.array(pre["parents"][p]) + pre["sigmas"][p] * pre["A"][p].dot(arz[kx])
                if not nclose(np.array(x), ex, rt):
                    okgen = False
            if lam != mu:
                # sampled parents must be non-dominated parents
                ranks = peel_ranks([tuple(w) for w in pre["pfits"]])
                if any(ranks[t[1]] != 0 for t in tags):
                    okgen = False
            elif [t[1] for t in tags] != list(range(lam)):
                okgen = False
        if not okgen:
            run.oracle_violation("MO: offspring are not parent[p] + sigma[p] * A[p] z with a (non-dominated) parent tag", case,
                                 observed=[list(t) for t in tags])
        for ind in pop:
            ind.fitness.values = f(ind)
        if g in cfg.get("clone_before_update", ()):
            # algorithms commonly clone what generate returned before handing it to update
            ctx.hit("mo.update_with_clones")
            pop = [copy.deepcopy(ind) for ind in pop]
        cands = list(pop) + list(s.parents)
        cand_id = {id(c): i for i, c in enumerate(cands)}
        cand_wv = [wv(c) for c in cands]
        cand_tag = [tuple(c._ps) for c in cands]
        del hv_log[:]
        del sel_log[:]
        del custom_calls[:]
        with Patched(cma, rl):
            ok, _ = guarded_call(run, "MO update", case, s.update, pop)
        if not ok:
            return
        if rl.take():
            run.oracle_violation("MO: update consumed random draws", case)
        post = mo_snapshot(s)
        finite = all(np.all(np.isfinite(a)) for a in post["A"] + post["invC"] + post["pc"]) and \
            all(math.isfinite(x) for x in post["sigmas"] + post["psucc"])
        maxc2 = max([1.0] + [float(np.linalg.cond(a)) for a in post["A"]]) if finite else float("inf")
        # ---------------- oracle: selection ----------------
        ok_sel = True
        chosen = [cand_id.get(i) for i in post["ids"]]
        if len(cands) <= mu:
            ctx.hit("mo.fewer_candidates_than_mu")
        if len(post["parents"]) != min(mu, len(cands)) or any(c is None for c in chosen) or len(set(chosen)) != len(chosen):
            run.oracle_violation("MO: not exactly mu parents chosen among offspring and old parents", case,
                                 observed=len(post["parents"]))
            ok_sel = False
        if ok_sel:
            ranks = peel_ranks(cand_wv)
            cset = set(chosen)
            worst_in = max(ranks[i] for i in cset)
            if any(ranks[i] < worst_in for i in range(len(cands)) if i not in cset):
                run.oracle_violation("MO: a better-ranked candidate was discarded while a worse-ranked one was kept", case)
                ok_sel = False
        if ok_sel:
            mid = [i for i in range(len(cands)) if ranks[i] == worst_in]
            removed = [i for i in mid if i not in cset]
            ref = np.max(-np.array(cand_wv), axis=0) + 1
            if removed:
                ctx.hit("mo.hv_removal")
            if cfg.get("explicit_indicator") and len(custom_calls) != len(removed):
                run.oracle_violation("MO: the indicator supplied by the caller was not the one used", case,
                                     observed=[len(custom_calls), len(removed)])
            if len(hv_log) != len(removed):
                run.oracle_violation("MO: number of indicator calls differs from the number of discarded mid-front members", case,
                                     observed=[len(hv_log), len(removed)])
            else:
                cur = set(mid)
                for (front_ids, idx, r) in hv_log:
                    fr = [cand_id.get(i) for i in front_ids]
                    if set(fr) != cur or not (0 <= idx < len(fr)) or not np.array_equal(r, ref):
                        run.oracle_violation("MO: indicator not applied to the current mid front with the population-wide reference point", case)
                        break
                    pts = -np.array([cand_wv[i] for i in fr])
                    vals = [hvmod.hypervolume(np.concatenate((pts[:i], pts[i + 1:])), ref) for i in range(len(fr))]
                    if vals[idx] < max(vals) - 1e-9 * abs(max(vals)) - ATOL:
                        run.oracle_violation("MO: discarded individual is not a least hypervolume contributor", case,
                                             observed=[vals, idx])
                        break
                    cur.discard(fr[idx])
                else:
                    if cur != (set(mid) & cset):
                        run.oracle_violation("MO: survivors of the mid front are not what the removals leave", case)
        if ok_sel and (len(sel_log) != 1 or [cand_id.get(i) for i in sel_log[0][0]] != chosen
                       or sorted(cand_id.get(i, -1) for i in sel_log[0][1]) != sorted(set(range(len(cands))) - set(chosen))):
            run.oracle_violation("MO: chosen / not chosen are not a partition of the candidates, or parents differ from the chosen", case)
            ok_sel = False
        # ---------------- oracle: alignment of the per-parent lists ----------------
        lists = [post["sigmas"], post["A"], post["invC"], post["pc"], post["psucc"]]
        if any(len(l) != len(post["parents"]) for l in lists):
            run.oracle_violation("MO: per-parent lists do not have one entry per parent", case,
                                 observed=[len(l) for l in lists])
        elif ok_sel and finite and maxc2 < COND_MAX:
            cp, cc, ccov, d, ptarg, pthresh = s.cp, s.cc, s.ccov, s.d, s.ptarg, s.pthresh
            nsucc = [0] * len(pre["parents"])
            nfail = [0] * len(pre["parents"])
            for i, t in enumerate(cand_tag):
                if t[0] == "o":
                    if i in cset:
                        nsucc[t[1]] += 1
                    else:
                        nfail[t[1]] += 1
            for i, ci in enumerate(chosen):
                t = cand_tag[ci]
                p = t[1]
                rtp = RTOL * max(1.0, float(np.linalg.cond(pre["A"][p])), float(np.linalg.cond(post["A"][i])))
                if tuple(s.parents[i]._ps) != t:
                    run.oracle_violation("MO: tag of a surviving individual changed", case)
                if t[0] == "p":
                    ps, sg = pre["psucc"][p], pre["sigmas"][p]
                    for _ in range(nsucc[p]):
                        ps = (1 - cp) * ps + cp
                        sg = sg * math.exp((ps - ptarg) / (d * (1 - ptarg)))
                    for _ in range(nfail[p]):
                        ps = (1 - cp) * ps
                        sg = sg * math.exp((ps - ptarg) / (d * (1 - ptarg)))
                    good = (np.array_equal(post["A"][i], pre["A"][p]) and np.array_equal(post["invC"][i], pre["invC"][p])
                            and np.array_equal(post["pc"][i], pre["pc"][p]) and abs(post["psucc"][i] - ps) <= 1e-12
                            and abs(post["sigmas"][i] - sg) <= 1e-9 * sg)
                    if not good:
                        run.oracle_violation("MO: parameters of a surviving parent are not its own (aligned) parameters", case,
                                             observed=[i, list(t)])
                else:
                    ps = (1 - cp) * pre["psucc"][p] + cp
                    sg = pre["sigmas"][p] * math.exp((ps - ptarg) / (d * (1 - ptarg)))
                    step = (np.array(post["parents"][i]) - np.array(pre["parents"][p])) / pre["sigmas"][p]
                    if ps < pthresh:
                        ctx.hit("mo.low")
                        epc = (1 - cc) * pre["pc"][p] + math.sqrt(cc * (2 - cc)) * step
                        al, be = 1 - ccov, ccov
                    else:
                        ctx.hit("mo.high")
                        epc = (1 - cc) * pre["pc"][p]
                        al, be = 1 - ccov + cc * (2 - cc), ccov
                    C0 = pre["A"][p].dot(pre["A"][p].T)
                    C1 = post["A"][i].dot(post["A"][i].T)
                    upd = nclose(C1, al * C0 + be * np.outer(epc, epc), rtp)
                    skip = np.array_equal(post["A"][i], pre["A"][p])
                    if skip:
                        ctx.hit("mo.skipped_update")
                    good = (abs(post["psucc"][i] - ps) <= 1e-12 and abs(post["sigmas"][i] - sg) <= 1e-9 * sg
                            and nclose(post["pc"][i], epc, rtp) and (upd or skip))
                    if not good:
                        run.oracle_violation("MO: parameters of a surviving offspring do not derive from its parent's (aligned) parameters by the rank-one rule", case,
                                             observed=[i, list(t)])
                if not nclose(post["invC"][i].dot(post["A"][i]), np.eye(dim), rtp):
                    run.oracle_violation("MO: stored inverse factor is not the inverse of the factor", case,
                                         observed=float(np.max(np.abs(post["invC"][i].dot(post["A"][i]) - np.eye(dim)))))
                if not (0.0 <= post["psucc"][i] <= 1.0) or not (post["sigmas"][i] > 0):
                    run.oracle_violation("MO: success rate outside [0,1] or step size not positive", case)
        run.note_case(case, nontrivial=True, sample=case if g == 0 else None)
        # ---------------- correspondence ----------------
        if ok_sel and finite and maxc2 < COND_MAX and g in send:
            ctx.add("CMoGen %s %s %s %s %s %s" % (c_mparams(s), c_mstate(pre), cvl(arz), cnatl(js), cfloat(rt),
                                               clist([cpair(cv(x), cnat(t[1])) for x, t in zip(xs, tags)])), dict(case, what="generate"))
            cpop = clist(["(MI %s %s true %s)" % (cv(x), cv(cand_wv[i]), cnat(tags[i][1])) for i, x in enumerate(xs)])
            not_chosen = [cand_id[i] for i in sel_log[0][1]] if len(sel_log) == 1 else []
            ctx.add("CMoUpd %s %s %s %s %s %s %s %s" % (
                c_mparams(s), c_mstate(pre), cpop, cnatl([h[1] for h in hv_log]), cfloat(RTOL * max(1.0, maxc, maxc2)),
                c_mstate(post), cnatl(chosen), cnatl(not_chosen)), dict(case, what="update"))
            # _select with the sorter the code calls: C04's model of sortLogNondominated (integer values) on the
            # per-objective ranks of the candidates' weighted values (an order isomorphism, so dominance, the
            # lexicographic order and hence the fronts and their internal order are those of the float values)
            nobj_ = len(cand_wv[0]) if cand_wv else 0
            if len(sel_log) == 1 and nobj_ >= 2 and all(len(w_) == nobj_ for w_ in cand_wv):
                levels = [sorted(set(float(w_[c_]) for w_ in cand_wv)) for c_ in range(nobj_)]
                pos_ = [{v_: r_ for r_, v_ in enumerate(lv_)} for lv_ in levels]
                ranks_ = [[pos_[c_][float(w_[c_])] for c_ in range(nobj_)] for w_ in cand_wv]
                ctx.hit("mo.select_log_sorter")
                ctx.add("CMoSelLog %s %s %s %s %s" % (cnat(mu), clist([czl(r_) for r_ in ranks_]), cnatl([h[1] for h in hv_log]),
                                                      cnatl(chosen), cnatl(not_chosen)), dict(case, what="select-log", ranks=ranks_))
        if not (finite and maxc2 < COND_MAX):
            break


# ==============================================================================================
# configurations
# ==============================================================================================
def pick_send(rng, rounds, k):
    if rounds <= k:
        return set(range(rounds))
    head = set(range(min(4, rounds)))
    rest = [g for g in range(rounds) if g not in head]
    return head | set(rng.sample(rest, max(0, k - len(head))))


def main(run):
    run.rule = ("histories of generate/update rounds of the three strategies from seeded configurations: dimension 2..10 "
                "(<= 6 for rounds sent to Coq), lambda 1..20, mu 1..10 (lambda = mu and lambda != mu), objectives sphere / "
                "ellipsoid / rastrigin / plateau (ties) / maximisation, two shifted spheres / ZDT1 / stepped (duplicate "
                "fitnesses), 1..3 constraints (DEAP's own and parent-relative tight/loose ones) with infeasible / feasible / unevaluated / fitness-less initial parents, integer steps, corpus/C14_*.json first; numpy.random draws recorded through a proxy in deap.cma's "
                "namespace. Every round is one case (distinct by configuration and round index); the oracle runs after "
                "every round, a sample of rounds of every history goes to the Coq model.")
    run.trusted += ["Coq 8.16.1 kernel and vm_compute", "mathcomp 1.15 (matrix algebra, real closed fields)",
                    "hand-written generic model coq/Model/C14_exec.v tied by correspondence within tolerance "
                    "(rtol 1e-9*max(1,cond), atol 1e-12); floating-point rounding not verified",
                    "numpy.linalg.cholesky / inv / cond, BLAS dot, math.exp as oracles with numerically checked contracts",
                    "deap's hypervolume routine (C14 checks the indicator's choice against it and against a 2-D sweep in Coq)",
                    "tools.sortLogNondominated is compared with independent peeling (Python) and with the model's peeling (Coq)"]
    run.assumptions += ["fitness values finite (no NaN)", "initial population of the MO strategy has exactly mu members",
                        "random vectors / evolution paths entering a rank-one update are non-zero (probability-one event)",
                        "condition number of the factors below 1e12"]
    if not run.build_props(extra=["Props/C14_log.v"]):
        # coqc killed by the OOM killer under machine-wide memory pressure leaves no "Error" text:
        # that is not a broken obligation -- try once more
        if run.broken and all("Error" not in (b.get("log") or "") for b in run.broken):
            run.notes.append("build interrupted without a Coq error (killed?); retried once")
            del run.broken[:]
            del run.obligations[:]
            run.build_props(extra=["Props/C14_log.v"])
    # _select with C04's model of sortLogNondominated (obligations + Print Assumptions of Props/C14_log.v)
    if not run.broken:
        run.build_props(props="Props/C14_log.v")
    # ---- tie (T): regenerate Gen/C14_gen.v from the working tree, re-prove `regenerated = model` and the theorems
    gen_check, gen_reqs, gen_unproved = ("check", [], False)
    if not run.broken:
        gen_check, gen_reqs, gen_unproved = tie_T(run)
    rng = run.rng
    ctx = Ctx(run)
    np.seterr(all="ignore")

    def rparent(dim, lo=-2.0, hi=3.0):
        return [round(rng.uniform(lo, hi), 3) for _ in range(dim)]

    # ---------------- corpus: past misses, run first on every tier ----------------
    for fn in sorted(glob.glob(os.path.join(VERIF, "corpus", "C14_*.json"))):
        for cfg in json.load(open(fn))["cases"]:
            cfg = dict(cfg)
            cfg["send"] = set(range(min(cfg["rounds"], 12))) if cfg["dim"] <= 6 else set()
            cfg["corpus"] = os.path.basename(fn)
            {"active": run_active, "plain": run_plain, "mo": run_mo}[cfg.pop("kind")](ctx, cfg)
    # ---------------- active (1+lambda), constrained, every kind of initial parent ----------------
    # (a) infeasible parent: constraint_violation recorded, no values (compares <= everything),
    # (b) feasible evaluated parent, (c) parent with a fitness object but never evaluated;
    # the first constraint is placed m*sigma from the parent (tight m = 0.3 / loose m = 1.2) so that the
    # first generations mix feasible and infeasible offspring
    n_cs = run.scale(15, 90)
    for h in range(n_cs):
        lam = [1, 2, 5, 10, 20][h % 5]
        mode = ["infeasible", "feasible", "unevaluated"][(h // 5) % 3]
        tight = (h + h // 15) % 2 == 0
        dim = rng.randint(2, 6) if h % 6 != 5 or not run.thorough else rng.randint(7, 10)
        sigma = rng.choice([0.3, 0.5, 1.0])
        parent = rparent(dim, -1.0, 2.0)
        m = 0.3 if tight else 1.2
        e0 = [1.0] + [0.0] * (dim - 1)
        specs = [{"coef": e0, "op": "lt", "b": parent[0] + (m if mode == "infeasible" else -m) * sigma}]
        if h % 3 != 0:
            c2 = [0.0] * dim
            c2[1 % dim] += 1.0
            c2[2 % dim] += 1.0
            specs.append({"coef": c2, "op": "gt", "b": sum(c * p for c, p in zip(c2, parent)) + (0.8 if tight else 2.0) * sigma})
        if h % 3 == 2:
            c3 = [0.0] * (dim - 1) + [1.0]
            specs.append({"coef": c3, "op": "lt", "b": parent[-1] - 1.0 * sigma})
        rounds = run.scale(25, 80)
        cfg = {"dim": dim, "lambda": lam, "sigma": sigma, "parent": parent,
               "objective": ["sphere", "ellipsoid", "step"][h % 3], "constraints": specs, "steps": [0.0] * dim,
               "parent_mode": mode, "rounds": rounds, "seed": rng.randrange(2 ** 31)}
        cfg["send"] = (set(range(6)) | pick_send(rng, rounds, run.scale(8, 14))) if dim <= 6 else set()
        run_active(ctx, cfg)
    # fitness-less parent (bare numpy array) with a tight parent-relative constraint: the first generation mixes
    # feasible and infeasible offspring while `hasattr(self.parent, "fitness")` is still false -- the branch
    # `lambda_succ = len(valid_population)` of update (gap exposed by the regenerated tie: a count over the whole
    # population there passed every generator)
    import random
    rb = random.Random("C14-bare-%d" % run.seed)      # own stream: the histories of the other families stay as they were
    for h in range(run.scale(8, 24)):
        lam = [2, 5, 10, 20][h % 4]
        dim = rb.randint(2, 5)
        sigma = rb.choice([0.3, 0.5, 1.0])
        parent = [round(rb.uniform(-1.0, 2.0), 3) for _ in range(dim)]
        e0 = [1.0] + [0.0] * (dim - 1)
        specs = [{"coef": e0, "op": "lt", "b": parent[0] - [0.3, 0.0, -0.3][h % 3] * sigma}]
        cfg = {"dim": dim, "lambda": lam, "sigma": sigma, "parent": parent, "objective": ["sphere", "step"][h % 2],
               "constraints": specs, "steps": [0.0] * dim, "parent_mode": "bare", "rounds": 4,
               "seed": rb.randrange(2 ** 31), "send": set(range(2))}
        run_active(ctx, cfg)
    # ---------------- hardening round: sequences, aliasing, value domains, rare routes, boundaries ----------------
    def short_send(r):
        return set(range(min(r, 4))) | pick_send(rng, r, run.scale(7, 12))

    reps = run.scale(1, 4)
    for rep in range(reps):
        r = run.scale(24, 60)
        sd = lambda: rng.randrange(2 ** 31)
        d3 = lambda: rng.randint(2, 5)
        thr = {"cp": 0.5, "ptarg": 0.25, "pthresh": 0.625}     # lambda 1: psucc hits pthresh exactly after a success
        thr2 = {"cp": 0.5, "ptarg": 0.25, "pthresh": 0.125}   # ... after a failure
        allk = {"d": 3.0, "ptarg": 0.2, "cp": 0.1, "cc": 0.3, "ccov": 0.05, "pthresh": 0.3}
        plain_cfgs = [
            {"lambda": None, "objective": "sphere"},
            {"lambda": 1, "objective": "sphere", "kargs": thr}, {"lambda": 1, "objective": "sphere", "kargs": thr2},
            {"lambda": 5, "objective": "ellipsoid", "kargs": allk},
            {"lambda": 4, "objective": "sphere", "relam": {5: 10, 12: 1, 18: 3}},
            {"lambda": 3, "objective": "step", "repeat_update": (1, 2, 5, 9)},
            {"lambda": 4, "objective": "sphere", "container": "array", "repeat_update": (3,)},
            {"lambda": 4, "objective": "rastrigin", "container": "numpy"},
            {"lambda": 3, "objective": "sphere", "weights": (-2.0,)},
            {"lambda": 3, "objective": "sphere", "weights": (0.5,)},
            {"lambda": 5, "objective": "ulp"}, {"lambda": 5, "objective": "zero"}, {"lambda": 4, "objective": "intval"},
            {"lambda": 6, "objective": "bigint"}, {"lambda": 3, "objective": "npfloat", "container": "numpy"},
            {"lambda": 4, "objective": "sphere", "offset": 1e9, "sigma": 1e-3},
            {"lambda": 4, "objective": "sphere", "offset": 0.0, "scale": 1e-9, "sigma": 1e-9},
            {"lambda": 2, "objective": "sphere", "sigma": 1e-12}, {"lambda": 2, "objective": "sphere", "sigma": 1e6},
            {"lambda": 3, "objective": "sphere", "dim": 1}, {"lambda": 1, "objective": "step", "dim": 1},
        ]
        for c in plain_cfgs:
            dim = c.pop("dim", d3())
            off, sc = c.pop("offset", 0.0), c.pop("scale", 1.0)
            cfg = dict({"dim": dim, "sigma": 0.5, "rounds": r, "seed": sd(),
                        "parent": [off + sc * v for v in rparent(dim)]}, **c)
            cfg["send"] = short_send(r)
            cfg["hardening"] = True
            run_plain(ctx, cfg)
        allka = {"d": 2.5, "ptarg": 0.2, "cp": 0.15, "cc": 0.3, "ccovp": 0.07, "ccovn": 0.05, "cconst": 0.2,
                 "beta": 0.02, "pthresh": 0.35}
        act_cfgs = [
            {"lambda": None, "objective": "sphere", "constraints": 0},
            {"lambda": 4, "objective": "sphere", "constraints": 2, "kargs": allka},
            {"lambda": 1, "objective": "sphere", "constraints": 0, "kargs": thr},
            {"lambda": 1, "objective": "sphere", "constraints": 0, "kargs": thr2},
            {"lambda": 4, "objective": "sphere", "constraints": 1, "relam": {4: 10, 9: 1, 15: 5}},
            {"lambda": 4, "objective": "ellipsoid", "constraints": 0, "container": "array"},
            {"lambda": 4, "objective": "sphere", "constraints": 2, "container": "numpy"},
            {"lambda": 3, "objective": "sphere", "constraints": 0, "container": "numpy", "parent_mode": "bare"},
            {"lambda": 5, "objective": "sphere", "constraints": 0, "skip_eval": 0.35},
            {"lambda": 1, "objective": "step", "constraints": 0, "skip_eval": 0.5},
            {"lambda": 2, "objective": "sphere", "constraints": 0, "sigma": 0.01, "far": 6.0,
             "inject": {3: {"pc": "1e-8", "psucc": 0.9}, 8: {"pc": "1.0000001e-8", "psucc": 0.9}, 12: {"pc": "0", "psucc": 0.9}}},
            {"lambda": 2, "objective": "sphere", "constraints": 1, "kargs": {"beta": 1.0}},
            {"lambda": 6, "objective": "sphere", "constraints": 0, "steps_all": 4.0},
            {"lambda": 3, "objective": "sphere", "constraints": 1, "weights": (-3.0,)},
            {"lambda": 4, "objective": "ulp", "constraints": 0}, {"lambda": 4, "objective": "zero", "constraints": 1},
            {"lambda": 4, "objective": "bigint", "constraints": 0}, {"lambda": 4, "objective": "npfloat", "constraints": 2},
            {"lambda": 3, "objective": "sphere", "constraints": 0, "offset": 1e9, "sigma": 1e-3},
            {"lambda": 3, "objective": "sphere", "constraints": 0, "scale": 1e-9, "sigma": 1e-9},
            {"lambda": 3, "objective": "sphere", "constraints": 0, "dim": 1}, {"lambda": 1, "objective": "noise", "constraints": 0, "dim": 1},
        ]
        for c in act_cfgs:
            dim = c.pop("dim", d3())
            off, sc, far = c.pop("offset", 0.0), c.pop("scale", 1.0), c.pop("far", 0.0)
            steps = [c.pop("steps_all", 0.0)] * dim
            parent = [off + sc * (far + round(rng.uniform(1.0, 3.0), 3)) for _ in range(dim)]
            if steps[0] > 0:
                parent = [round(p / steps[0]) * steps[0] for p in parent]
            if "inject" in c:
                val = {"1e-8": 1e-8, "1.0000001e-8": 1.0000001e-8, "0": 0.0}
                c["inject"] = {g: {"pc": [val[v["pc"]]] * dim, "psucc": v["psucc"]} for g, v in c["inject"].items()}
            if c["constraints"] and dim == 1:
                c["constraints"] = 0
            cfg = dict({"dim": dim, "sigma": 0.5, "rounds": r, "seed": sd(), "parent": parent, "steps": steps}, **c)
            cfg["send"] = short_send(r)
            cfg["hardening"] = True
            run_active(ctx, cfg)
        allkm = {"d": 2.0, "ptarg": 0.25, "cp": 0.2, "cc": 0.4, "ccov": 0.1, "pthresh": 0.4}
        mo_cfgs = [
            {"mu": None, "lambda": 3, "npar": 4}, {"mu": 3, "lambda": None, "npar": 3},
            {"mu": 3, "lambda": 3, "npar": 3, "explicit_indicator": True}, {"mu": 4, "lambda": 2, "npar": 4, "explicit_indicator": True},
            {"mu": 3, "lambda": 3, "npar": 3, "kargs": allkm}, {"mu": 2, "lambda": 5, "npar": 2, "kargs": allkm},
            {"mu": 3, "lambda": 3, "npar": 3, "weights": (-1.0, 1.0)}, {"mu": 4, "lambda": 2, "npar": 4, "weights": (-2.0, -0.5)},
            {"mu": 3, "lambda": 3, "npar": 3, "container": "array"}, {"mu": 3, "lambda": 2, "npar": 3, "container": "numpy"},
            {"mu": 6, "lambda": 2, "npar": 2}, {"mu": 5, "lambda": 1, "npar": 1},       # fewer initial parents than mu
            {"mu": 2, "lambda": 2, "npar": 5}, {"mu": 2, "lambda": 3, "npar": 5},       # more initial parents than mu
            {"mu": 3, "lambda": 3, "npar": 3, "double_generate": (0, 2, 3, 7), "clone_before_update": (1, 2, 5, 6)},
            {"mu": 3, "lambda": 4, "npar": 3, "double_generate": (1, 4), "clone_before_update": (0, 4, 8)},
            {"mu": 4, "lambda": 4, "npar": 4, "identical": True}, {"mu": 3, "lambda": 2, "npar": 3, "identical": True, "objective": "stepped"},
            {"mu": 1, "lambda": 1, "npar": 1}, {"mu": 1, "lambda": 4, "npar": 1},
            {"mu": 2, "lambda": 2, "npar": 2, "dim": 1}, {"mu": 3, "lambda": 2, "npar": 3, "dim": 1},
            {"mu": 3, "lambda": 3, "npar": 3, "offset": 1e6, "sigma": 1e-3}, {"mu": 3, "lambda": 3, "npar": 3, "sigma": 1e-9, "scale": 1e-9},
        ]
        for c in mo_cfgs:
            dim = c.pop("dim", d3())
            npar, ident = c.pop("npar"), c.pop("identical", False)
            off, sc = c.pop("offset", 0.0), c.pop("scale", 1.0)
            first = [off + sc * v for v in rparent(dim, -1.0, 1.0)]
            parents = [list(first) if ident else [off + sc * v for v in rparent(dim, -1.0, 1.0)] for _ in range(npar)]
            cfg = dict({"dim": dim, "sigma": 0.5, "rounds": r, "seed": sd(), "parents": parents,
                        "objective": ["two_spheres", "zdt1", "stepped"][rep % 3]}, **c)
            cfg["send"] = short_send(r)
            cfg["hardening"] = True
            run_mo(ctx, cfg)
    # ---------------- plain (1+lambda) ----------------
    n_hist = run.scale(16, 90)
    for h in range(n_hist):
        small = h % 3 != 2
        dim = rng.randint(2, 6) if small else rng.randint(7, 10)
        lam = rng.choice([1, 1, 2, 3, 5, 8, 10, 20]) if h >= 8 else [1, 2, 4, 10, 20, 1, 3, 7][h]
        rounds = run.scale(rng.choice([40, 100, 300]), rng.choice([100, 200, 300]))
        far = h % 4 == 3          # far from the optimum with a tiny step: success rate above the threshold
        cfg = {"dim": dim, "lambda": lam, "sigma": 0.01 if far else rng.choice([0.1, 0.5, 1.0, 5.0]),
               "parent": rparent(dim, 5.0, 9.0) if far else rparent(dim),
               "objective": "sphere" if far else ["sphere", "step", "ellipsoid", "negsphere", "rastrigin", "noise"][h % 6],
               "rounds": rounds, "seed": rng.randrange(2 ** 31)}
        cfg["send"] = pick_send(rng, rounds, run.scale(10, 25)) if dim <= 6 else set()
        run_plain(ctx, cfg)
    # ---------------- active (1+lambda) ----------------
    n_hist = run.scale(24, 120)
    for h in range(n_hist):
        small = h % 4 != 3
        dim = rng.randint(2, 6) if small else rng.randint(7, 10)
        lam = rng.choice([1, 1, 2, 4, 6, 10, 20]) if h >= 7 else [1, 2, 4, 10, 20, 1, 5][h]
        ncons = [0, 1, 2, 3, 0, 2][h % 6]
        integer = h % 3 == 1
        noisy = h % 8 in (0, 5)   # chaotic objective, low dimension: negative updates and the ccovn clamp
        far = h % 8 == 2
        if noisy:
            dim, ncons, integer = rng.randint(2, 3), 0, False
            lam = rng.choice([1, 2, 4])
        steps = [0.0] * dim
        if integer:
            for j in rng.sample(range(dim), rng.randint(1, dim)):
                steps[j] = rng.choice([0.1, 0.5, 1.0, 2.0])
        rounds = run.scale(rng.choice([60, 120, 300]), rng.choice([100, 200, 300]))
        parent = [round(rng.uniform(1.0, 3.0) + (5.0 if far else 0.0), 3) for _ in range(dim)]
        if integer:
            parent = [(round(p / s) * s if s > 0 else p) for p, s in zip(parent, steps)]
        cfg = {"dim": dim, "lambda": lam, "sigma": 0.01 if far else rng.choice([0.2, 0.5, 1.0]), "parent": parent,
               "objective": "noise" if noisy else ("sphere" if far else ["sphere", "ellipsoid", "step", "rastrigin"][h % 4]),
               "constraints": ncons, "steps": steps,
               "parent_mode": "bare" if h % 5 == 4 else "feasible", "rounds": rounds, "seed": rng.randrange(2 ** 31)}
        cfg["send"] = pick_send(rng, rounds, run.scale(10, 25)) if dim <= 6 else set()
        run_active(ctx, cfg)
    # ---------------- multi-objective ----------------
    n_hist = run.scale(16, 90)
    for h in range(n_hist):
        small = h % 3 != 2
        dim = rng.randint(2, 5) if small else rng.randint(6, 10)
        mu = rng.randint(1, 6) if small else rng.randint(3, 10)
        lam = mu if h % 2 == 0 else rng.choice([x for x in [1, 2, 3, 5, 8, 12, 20] if x != mu])
        if small:
            lam = min(lam, 8)
            if lam == mu and h % 2 == 1:
                lam = mu + 1
        far = h % 5 == 4
        rounds = run.scale(rng.choice([30, 60, 150]), rng.choice([60, 150, 300]))
        cfg = {"dim": dim, "mu": mu, "lambda": lam, "sigma": 0.01 if far else rng.choice([0.3, 1.0, 2.0]),
               "parents": [rparent(dim, 4.0, 6.0) if far else rparent(dim, -1.0, 1.0) for _ in range(mu)],
               "objective": "two_spheres" if far else ["two_spheres", "zdt1", "stepped"][h % 3], "rounds": rounds,
               "seed": rng.randrange(2 ** 31)}
        cfg["send"] = pick_send(rng, rounds, run.scale(8, 20)) if small else set()
        run_mo(ctx, cfg)

    if gen_unproved:
        # the regenerated definitions are no longer provably the model: search beyond the regular ranges (dimension
        # up to 48, lambda up to 80, mu up to 16) for an input on which the implementation leaves the property
        nw = 0
        for dim, lam in [(d_, l_) for d_ in (1, 2, 7, 10, 11, 12, 16, 25, 32, 48) for l_ in (1, 2, 20, 21, 24, 25, 26, 30, 50, 80)]:
            base = {"dim": dim, "lambda": lam, "sigma": 0.5, "rounds": 3, "seed": rng.randrange(2 ** 31), "send": set(),
                    "wide_search": True}
            run_plain(ctx, dict(base, parent=rparent(dim), objective=["sphere", "step"][nw % 2]))
            run_active(ctx, dict(base, parent=rparent(dim), objective="sphere", constraints=0, steps=[0.0] * dim,
                                 parent_mode="feasible"))
            mu = [1, 3, 16][nw % 3]
            run_mo(ctx, dict(base, mu=mu, parents=[rparent(dim, -1.0, 1.0) for _ in range(mu)],
                             objective="two_spheres"))
            nw += 3
        run.notes.append("tie (T) broke: %d short histories with dimension up to 48, lambda up to 80, mu up to 16 searched "
                         "in addition" % nw)
    run.extra_cov["branches_exercised"] = ctx.branch
    n0 = len(run.disagreements)
    kw = dict(shard=run.scale(24, 40), timeout=1500, requires=["From Coq Require Import PrimFloat."] + gen_reqs,
              check=gen_check)
    run.correspond("rounds", "C14", ctx.terms, ctx.cases, **kw)
    errs = [d for d in run.disagreements[n0:] if d.get("index") is None]
    if errs and all("Error" not in ((d.get("coq_error") or {}).get("log") or "") for d in errs):
        # shards whose coqc was killed without any Coq error (memory pressure): evaluate everything once more
        run.notes.append("%d correspondence shards interrupted without a Coq error (killed?); retried once" % len(errs))
        del run.disagreements[n0:]
        run.corr_groups.pop("rounds", None)
        run.correspond("rounds", "C14", ctx.terms, ctx.cases, **kw)
    if gen_check == "check_both":
        run.extra_cov["cases_also_evaluated_on_regenerated_definitions"] = sum(
            1 for t in ctx.terms if t.split(" ", 1)[0] in ("CPlainParams", "CActParams", "CMoParams", "CPlainUpd", "CActUpd"))
    if gen_unproved:
        # translated but not provably the model: do the regenerated definitions at least agree with the implementation?
        ok_, out = vlib.make_targets(["Corr/C14_gen.vo"])
        if ok_:
            idx = [i for i, t in enumerate(ctx.terms)
                   if t.split(" ", 1)[0] in ("CPlainParams", "CActParams", "CMoParams", "CPlainUpd", "CActUpd")]
            traces, ndis = run.traces, len(run.disagreements)
            try:
                bad = run.correspond("diagnosis_regenerated", "C14", [ctx.terms[i] for i in idx], [ctx.cases[i] for i in idx],
                                     check="check_gen", shard=run.scale(24, 40),
                                     requires=["From Coq Require Import PrimFloat.", "From DV Require Import Corr.C14_gen."])
                errs = run.corr_groups.get("diagnosis_regenerated", {}).get("errors")
                ng = None if errs else len(bad)
            except Exception as e:  # noqa
                ng = None
                run.notes.append("diagnosis step failed: %r" % (e,))
            finally:
                run.traces = traces
                del run.disagreements[ndis:]
                run.corr_groups.pop("diagnosis_regenerated", None)
            run.notes.append("diagnosis: the regenerated definitions (not provably equal to the model) disagree with the "
                             "implementation on %s of %d parameter / (1+lambda)-update cases" % (ng, len(idx)))
            run.extra_cov["regenerated_vs_implementation"] = {"sampled": len(idx), "disagree": ng}
        else:
            run.notes.append("diagnosis: the regenerated definitions do not compile: " + out[-400:])
