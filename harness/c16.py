"""C16 — created types clone and pickle faithfully and independently (creator.py, base.py, gp.py).

The harness builds classes with creator.create for every base type, instances with class-level and
per-instance attributes (nested, shared, cyclic), then runs operation sequences (instantiate, toolbox.clone,
pickle round trip, in-place mutation).  After every operation the real object graph is described
canonically (objects numbered by first visit) and
  * the property statement is evaluated directly on the objects (oracle), and
  * the Coq model replays the same operations and must predict exactly the same graph, sharing included.
Pickles are also loaded by a fresh interpreter (this file run with --fresh) which sends back descriptions.
"""
import array
import base64
import copy
import functools
import itertools
import json
import operator
import os
import pickle
import subprocess
import sys
import warnings

import numpy

HERE = os.path.dirname(os.path.abspath(__file__))

# ------------------------------------------------------------------------------------------------
# atoms: immutable Python values <-> integers (pure functions, identical in every interpreter)
# ------------------------------------------------------------------------------------------------
WEIGHTS = [w for n in (1, 2, 3) for w in itertools.product((1.0, -1.0), repeat=n)] + [(2.0,), (-0.5, 2.0)] + \
    [(1,), (-1,), (-1, 1), (2, -3), (1, -1, 2), (0.1,), (3.0, -0.1), (1e-3, 3.0, -1.0), (1, -1.0), (-3,), (0.1, -3, 1.0)]
WEIGHT_REPRS = [repr(w) for w in WEIGHTS]
HASH_BASE = 10 ** 12
_HASHED = {}          # id -> value, for values interned by hash in this process


def hashed_atom(x):
    """Opaque atom for any other immutable number / tuple of numbers: type and repr decide (exact, same in every process)."""
    import hashlib
    key = "%s.%s:%r" % (type(x).__module__, type(x).__name__, x)
    z = HASH_BASE + int(hashlib.sha1(key.encode()).hexdigest()[:14], 16)
    _HASHED[z] = x
    return z

TYPECODES = ["b", "i", "d", "f", "l", "H"]
NONE_ATOM = 5000
FLOAT_BASE = 100000


def fl(q):
    """atom id of the float q / 4"""
    return FLOAT_BASE + 4 * q

_PSET = None


def pset():
    """A fixed primitive set; its node objects are the atoms 6000.. (nodes are immutable and shared by design)."""
    global _PSET
    if _PSET is None:
        from deap import gp
        with warnings.catch_warnings():
            warnings.simplefilter("ignore")
            ps = gp.PrimitiveSet("C16MAIN", 1)
            ps.addPrimitive(operator.add, 2)
            ps.addPrimitive(operator.neg, 1)
            ps.addTerminal(1)
            ps.addEphemeralConstant("C16E", functools.partial(int, 3))
            ps.renameArguments(ARG0="x")
        _PSET = ps
    return _PSET


def node_atom(x):
    from deap import gp
    if isinstance(x, gp.Primitive):
        return {"add": 6000, "neg": 6001}[x.name]
    if type(x) is gp.Terminal:
        return {1: 6002, "x": 6003}[x.value]
    if isinstance(x, gp.Terminal):      # ephemeral
        assert type(x).__name__ == "C16E" and 0 <= x.value <= 9
        return 6100 + x.value
    raise ValueError("node %r" % (x,))


def atom_node(z):
    ps = pset()
    if z == 6000:
        return ps.mapping["add"]
    if z == 6001:
        return ps.mapping["neg"]
    if z == 6002:
        return ps.mapping["1"]
    if z == 6003:
        return ps.mapping["x"]
    if 6100 <= z <= 6109:
        e = ps.mapping["C16E"]()
        e.value = z - 6100
        return e
    raise ValueError(z)


def is_node(x):
    from deap import gp
    return isinstance(x, (gp.Primitive, gp.Terminal))


def atom_id(x):
    """Exact: equal ids <=> same type and same value (1, 1.0, numpy.float64(1.0), -0.0 / 0.0 are all different atoms)."""
    if isinstance(x, numpy.generic):
        return hashed_atom(x)
    if x is None:
        return NONE_ATOM
    if isinstance(x, bool):
        return hashed_atom(x)
    if type(x) is int:
        if not -1000 <= x <= 1000:
            return hashed_atom(x)
        return x
    if type(x) is float:
        if x != x:
            return hashed_atom(x)
        if x in (float("inf"), float("-inf")) or abs(x) > 1000 or x * 16 != int(x * 16) or (x == 0 and str(x)[0] == "-"):
            return hashed_atom(x)
        return FLOAT_BASE + int(x * 16)
    if isinstance(x, str):
        if x in TYPECODES:
            return 7100 + TYPECODES.index(x)
        if x[:1] == "s" and x[1:].isdigit():
            return 3000 + int(x[1:])
        raise ValueError("str atom %r" % x)
    if isinstance(x, tuple):
        if len(x) == 2 and x[1] == "t":
            return 4000 + x[0]
        if repr(x) in WEIGHT_REPRS:
            return 7000 + WEIGHT_REPRS.index(repr(x))
        if all(isinstance(e, (int, float, numpy.generic)) and not isinstance(e, bool) for e in x):
            return hashed_atom(x)
        raise ValueError("tuple atom %r" % (x,))
    if is_node(x):
        return node_atom(x)
    raise ValueError("not an atom: %r" % (x,))


def py_atom(z):
    if z in _HASHED:
        return _HASHED[z]
    if z == NONE_ATOM:
        return None
    if -1000 <= z <= 1000:
        return int(z)
    if FLOAT_BASE - 16000 <= z <= FLOAT_BASE + 16000:
        return (z - FLOAT_BASE) / 16.0
    if 3000 <= z < 3100:
        return "s%d" % (z - 3000)
    if 4000 <= z < 4100:
        return (z - 4000, "t")
    if 6000 <= z < 6200:
        return atom_node(z)
    if 7000 <= z < 7000 + len(WEIGHTS):
        return WEIGHTS[z - 7000]
    if 7100 <= z < 7100 + len(TYPECODES):
        return TYPECODES[z - 7100]
    raise ValueError(z)


# attribute names <-> ids
NAME_FIX = {"fitness": 0, "constraint_violation": 1, "strategy": 2, "typecode": 50, "weights": 51}
NAME_INV = dict((v, k) for k, v in NAME_FIX.items())


def name_id(s):
    if s in NAME_FIX:
        return NAME_FIX[s]
    if s[:1] == "x" and s[1:].isdigit():
        return int(s[1:])
    raise ValueError("attribute name %r" % s)


def id_name(n):
    return NAME_INV.get(n, "x%d" % n)


BTYPES = [list, dict, set, float, int]
K_CLASS, K_LIST, K_ARRAY, K_ND, K_SET, K_DICT, K_TREE, K_FIT, K_CFIT, K_PYLIST, K_PYDICT, K_PYSET, K_BUF = range(13)
KNAMES = ["class", "list", "array", "ndarray", "set", "dict", "tree", "fitness", "cfitness", "pylist", "pydict",
          "pyset", "buffer"]


def is_created_class(x):
    from deap import creator
    return isinstance(x, type) and type(x) is creator.MetaCreator


def kind_of(x):
    """None for atoms."""
    from deap import base, gp
    if isinstance(x, type):
        return K_CLASS if is_created_class(x) else None
    t = type(x)
    if is_created_class(t):
        if issubclass(t, gp.PrimitiveTree):
            return K_TREE
        if issubclass(t, list):
            return K_LIST
        if issubclass(t, array.array):
            return K_ARRAY
        if issubclass(t, numpy.ndarray):
            return K_ND
        if issubclass(t, set):
            return K_SET
        if issubclass(t, dict):
            return K_DICT
        if issubclass(t, base.ConstrainedFitness):
            return K_CFIT
        if issubclass(t, base.Fitness):
            return K_FIT
        raise ValueError("created class with unknown base %r" % (t.__mro__,))
    if t is list:
        return K_PYLIST
    if t is dict:
        return K_PYDICT
    if t is set:
        return K_PYSET
    if t is array.array or t is numpy.ndarray:
        return K_BUF
    return None


def base_code(c):
    from deap import base, gp
    for b, code in ((gp.PrimitiveTree, 6), (list, 1), (array.array, 2), (numpy.ndarray, 3), (set, 4), (dict, 5),
                    (base.ConstrainedFitness, 8), (base.Fitness, 7)):
        if issubclass(c, b):
            return code
    raise ValueError(c)


def obj_items(x, k):
    """The Python values held as items, in the model's order."""
    if k in (K_LIST, K_PYLIST, K_TREE):
        return list(x)
    if k in (K_ARRAY, K_ND, K_BUF):
        return [e.item() if isinstance(e, numpy.generic) else e for e in x]
    if k in (K_SET, K_PYSET):
        return sorted(x, key=atom_id)
    if k in (K_DICT, K_PYDICT):
        out = []
        for kk, vv in x.items():
            out += [kk, vv]
        return out
    if k in (K_FIT, K_CFIT):
        return list(x.wvalues)
    if k == K_CLASS:
        return [base_code(x)]
    raise ValueError(k)


def obj_attrs(x, k):
    """[(name id, Python value)] sorted by name id."""
    if k == K_CLASS:
        d = x.reduce_args[2]
    elif k in (K_PYLIST, K_PYDICT, K_PYSET, K_BUF):
        d = {}
    else:
        d = dict((n, v) for n, v in vars(x).items() if not (k in (K_FIT, K_CFIT) and n == "wvalues"))
    return sorted(((name_id(n), v) for n, v in d.items()), key=lambda p: p[0])


def obj_cls(x, k):
    if k == K_CLASS:
        return ("A", int(x.__name__.split("_")[1]))
    if k == K_PYLIST:
        return ("B", 0)
    if k == K_PYDICT:
        return ("B", 1)
    if k == K_PYSET:
        return ("B", 2)
    if k == K_BUF:
        return ("B", 5 if type(x) is array.array else 6)
    return None      # a created class: described through the walker


def describe(roots):
    """Canonical description.  Returns (objs, root_values, pyobjs): objs[i] = [kind, cls, items, attrs]
    with values ("A", z) | ("B", b) | ("R", i); pyobjs[i] is the real object numbered i.
    Order inside an object: class, [number assigned], attributes by name id, items."""
    objs, pyobjs, memo = [], [], {}

    def val(x):
        k = kind_of(x)
        if k is None:
            if isinstance(x, type):
                return ("B", BTYPES.index(x))
            return ("A", atom_id(x))
        if id(x) in memo:
            return ("R", memo[id(x)])
        c = obj_cls(x, k)
        if c is None:
            c = val(type(x))
        n = len(objs)
        memo[id(x)] = n
        objs.append(None)
        pyobjs.append(x)
        attrs = [(nm, val(v)) for nm, v in obj_attrs(x, k)]
        items = [val(v) for v in obj_items(x, k)]
        objs[n] = [k, c, items, attrs]
        return ("R", n)

    rv = [val(r) for r in roots]
    return objs, rv, pyobjs


# ------------------------------------------------------------------------------------------------
# Coq printers
# ------------------------------------------------------------------------------------------------
def cval(v):
    t, x = v
    if t == "A":
        return "(A (%d))" % x if x < 0 else "(A %d)" % x
    if t == "B":
        return "(B %d)" % x
    return "(R %d)" % x


def cobj(o):
    k, c, items, attrs = o
    return "O %d %s [%s] [%s]" % (k, cval(c), ";".join(cval(v) for v in items),
                                  ";".join("P %d %s" % (n, cval(v)) for n, v in attrs))


def cdesc(d):
    objs, rv = d[0], d[1]
    return "(D [%s] [%s])" % (";\n  ".join(cobj(o) for o in objs), ";".join(cval(v) for v in rv))


def czs(l):
    return "[" + ";".join("(%d)" % z if z < 0 else "%d" % z for z in l) + "]"


def cmut(m):
    if m[0] == "setitems":
        return "(MSetItems %s)" % czs(m[1])
    if m[0] == "append":
        return "(MAppend %s)" % czs(m[1])
    if m[0] == "setattr":
        return "(MSetAttr %d %s)" % (m[1], "(%d)" % m[2] if m[2] < 0 else "%d" % m[2])
    return "(MDelAttr %d)" % m[1]


def cop(op):
    if op[0] == "new":
        return "(ONew %d %s)" % (op[1], czs(op[2]))
    if op[0] == "clone":
        return "(OClone %d)" % op[1]
    if op[0] == "pickle":
        return "(OPickle %d)" % op[1]
    if op[0] == "group":
        return "(OGroup [%s])" % ";".join("%d%%nat" % i for i in op[1])
    return "(OMut %d %s)" % (op[1], cmut(op[2]))


def ckw(kw):
    return "[" + ";".join("K %d %s" % (n, "(%d)" % z if z < 0 else "%d" % z) for n, z in kw) + "]"


def cres(r):
    if r[0] == "call":
        return "(RCall %d %s %s)" % (r[1], czs(r[2]), ckw([(int(n[1:]), z) for n, z in r[3]]))
    return "(RDec %d %s)" % (r[1], cres(r[2]))


def unfold_real(x, k, stop_class, num):
    """What can be read from the real object x down to depth k, as a Coq `tree` term (the theorems' unfold).
    num: id -> number of the object in the accompanying description (used for classes that are not entered)."""
    kd = kind_of(x)
    if kd is None:
        if isinstance(x, type):
            return "(TB %d)" % BTYPES.index(x)
        z = atom_id(x)
        return "(TA (%d))" % z if z < 0 else "(TA %d)" % z
    if stop_class and kd == K_CLASS:
        return "(TL %d)" % num[id(x)]
    if k == 0:
        return "TCut"
    c = obj_cls(x, kd)
    if c is None:
        ct = unfold_real(type(x), k - 1, stop_class, num)
    else:
        ct = "(TA %d)" % c[1] if c[0] == "A" else "(TB %d)" % c[1]
    items = [unfold_real(v, k - 1, stop_class, num) for v in obj_items(x, kd)]
    attrs = ["TP %d %s" % (n, unfold_real(v, k - 1, stop_class, num)) for n, v in obj_attrs(x, kd)]
    return "(TN %d %s [%s] [%s])" % (kd, ct, ";".join(items), ";".join(attrs))


# ------------------------------------------------------------------------------------------------
# functions for the toolbox part: module level, so that aliases pickle by reference (c16.fn2 ...)
# ------------------------------------------------------------------------------------------------
def fn2(*a, **k):
    return ("call", 2, tuple(a), tuple(sorted(k.items(), key=lambda p: int(p[0][1:]))))


def fn3(*a, **k):
    return ("call", 3, tuple(a), tuple(sorted(k.items(), key=lambda p: int(p[0][1:]))))


def fn4(*a, **k):
    """documented"""
    return ("call", 4, tuple(a), tuple(sorted(k.items(), key=lambda p: int(p[0][1:]))))


fn4.note = "has a __dict__"
MODULE_FNS = {2: fn2, 3: fn3, 4: fn4}


def deco(d):
    def decorator(func):
        def wrapper(*args, **kw):
            if d % 2 == 1 and args:
                args = (args[0] + 1,) + tuple(args[1:])
            return ("dec", d, func(*args, **kw))
        return wrapper
    return decorator


def jres(r):
    """result -> JSON-able / comparable nested list"""
    if r[0] == "call":
        return ["call", r[1], list(r[2]), [[n, z] for n, z in r[3]]]
    return ["dec", r[1], jres(r[2])]


# ------------------------------------------------------------------------------------------------
# direct (model-free) observations used by the oracle
# ------------------------------------------------------------------------------------------------
def snapshot(x, stack=()):
    """Everything readable from x at instance level, by value (classes by name).  Attributes stored on a
    fitness object other than its values / constraint_violation are outside the statement and ignored."""
    k = kind_of(x)
    if k is None:
        if isinstance(x, type):
            return ("type", x.__name__)
        if is_node(x):
            return ("node", node_atom(x))
        return ("atom", type(x).__name__, repr(x))
    if k == K_CLASS:
        return ("class", x.__name__)
    if id(x) in stack:
        return ("cycle", len(stack) - stack.index(id(x)))
    stack = stack + (id(x),)
    items = [snapshot(v, stack) for v in obj_items(x, k)]
    if k in (K_FIT, K_CFIT):
        attrs = [("valid", x.valid), ("values", repr(x.values)),
                 ("wvalues", repr([(type(w).__name__, repr(w)) for w in x.wvalues])), ("weights", repr(x.weights))]
        if k == K_CFIT:
            attrs.append(("cv", snapshot(x.constraint_violation, stack)))
    else:
        attrs = [(n, snapshot(v, stack)) for n, v in obj_attrs(x, k)]
    extra = ()
    if k == K_ARRAY:
        extra = (x.typecode,)
    elif k == K_ND or (k == K_BUF and isinstance(x, numpy.ndarray)):
        extra = (str(x.dtype), x.shape)
    elif k == K_BUF:
        extra = (x.typecode,)
    return (KNAMES[k], type(x).__name__, extra, tuple(items), tuple(attrs))


def class_snapshot(c, stack=()):
    """A created class by value: name, bases, the dct it was created with."""
    if id(c) in stack:
        return ("cycle",)
    stack = stack + (id(c),)
    out = []
    for n, v in sorted(c.reduce_args[2].items()):
        if is_created_class(v):
            out.append((n, class_snapshot(v, stack)))
        else:
            out.append((n, snapshot(v)))
    return (c.__name__, tuple(b.__name__ for b in c.__bases__), tuple(out))


def inst_mutables(x, acc=None, through_class=False):
    """id -> object for every mutable object reachable from x without going through a class
    (or, with through_class, only going on through classes as well)."""
    if acc is None:
        acc = {}
    k = kind_of(x)
    if k is None:
        return acc
    if k == K_CLASS:
        if not through_class or id(x) in acc:
            return acc
        acc[id(x)] = x
        for _, v in obj_attrs(x, k):
            inst_mutables(v, acc, through_class)
        return acc
    if id(x) in acc:
        return acc
    acc[id(x)] = x
    if through_class and is_created_class(type(x)):
        inst_mutables(type(x), acc, True)
    for _, v in obj_attrs(x, k):
        inst_mutables(v, acc, through_class)
    for v in obj_items(x, k):
        inst_mutables(v, acc, through_class)
    return acc


# ------------------------------------------------------------------------------------------------
# mutations
# ------------------------------------------------------------------------------------------------
def numeric_kind(x):
    if isinstance(x, array.array):
        return "f" if x.typecode in "fd" else ("u" if x.typecode in "BHILQ" else "i")
    return "f" if x.dtype.kind == "f" else ("u" if x.dtype.kind == "u" else "i")


def apply_mutation(x, k, m):
    """Perform mutation m (model form) on the real object x of kind k."""
    from deap import gp  # noqa
    if m[0] == "setattr":
        setattr(x, id_name(m[1]), py_atom(m[2]))
        return
    if m[0] == "delattr":
        delattr(x, id_name(m[1]))
        return
    vals = [py_atom(z) for z in m[1]]
    if k in (K_LIST, K_PYLIST, K_TREE):
        if m[0] == "append":
            for v in vals:
                list.append(x, v)
        else:
            list.__setitem__(x, slice(None), vals)
    elif k == K_ARRAY or (k == K_BUF and isinstance(x, array.array)):
        if m[0] == "setitems":
            del x[:]
        x.extend(vals)
    elif k in (K_ND, K_BUF):
        assert m[0] == "setitems" and len(vals) == len(x)
        x[:] = vals
    elif k in (K_SET, K_PYSET):
        if m[0] == "setitems":
            x.clear()
        x.update(vals)
    elif k in (K_DICT, K_PYDICT):
        if m[0] == "setitems":
            dict.clear(x)
        for i in range(0, len(vals), 2):
            dict.__setitem__(x, vals[i], vals[i + 1])
    elif k in (K_FIT, K_CFIT):
        assert m[0] == "setitems"
        if vals:
            x.values = tuple(m[2])          # the objective values chosen by fit_values; m[1] = atoms of values * weights
            if [atom_id(w) for w in x.wvalues] != list(m[1]):
                raise ValueError("weighted values are not value * weight: %r" % (x.wvalues,))
        else:
            del x.values
    else:
        raise ValueError(k)


def odd_values():
    """immutable values of unusual type / magnitude (value domains): used as list items, dict values and attributes"""
    return [2 ** 53 + 1, -(10 ** 30), 2 ** 64 + 3, numpy.float64(0.1), numpy.int64(7), numpy.float32(0.1), numpy.int8(-3), -0.0,
            float("inf"), float("nan"), True, False, 0.1, 1e-9, 1e9 + 1e-3, 1.0 + 2.0 ** -40, 5e-324, 1, 1.0]


HUGE_INTS = [2 ** 53 + 1, -(2 ** 53 + 1), 2 ** 53, 2 ** 64 + 3, 10 ** 30, -(10 ** 30) - 7]


def fit_values(rng, weights):
    """Objective values for one fitness: dyadic floats, Python ints small and huge, doubles whose v*w/w*w does not
    round-trip, subnormal / near-overflow doubles, numpy scalars; types mixed inside one tuple."""
    out = []
    for w in weights:
        r = rng.random()
        if r < 0.3:
            v = rng.randint(-20, 20) / 4.0
        elif r < 0.45:
            v = rng.randint(-9, 9)
        elif r < 0.6:
            v = rng.choice(HUGE_INTS)
        elif r < 0.75:
            v = (rng.random() - 0.5) * 10.0 ** rng.randint(-5, 5)
        elif r < 0.82:
            v = rng.choice([5e-324, -5e-324, 1e308, -1e308, 2.2250738585072014e-308, 0.1, 1.0 / 3.0, 1e16 + 2.0])
        elif r < 0.9:
            v = rng.choice([numpy.float64(rng.random()), numpy.float64(0.1), numpy.float32(0.1), numpy.float64(2.0 ** 53 + 2.0)])
        else:
            v = rng.choice([numpy.int64(rng.randint(-9, 9)), numpy.int64(2 ** 53 + 1), numpy.int32(7)])
        if isinstance(v, numpy.integer) and isinstance(w, int) and abs(int(v) * w) >= 2 ** 62:
            v = int(v)                      # no silent int64 overflow
        out.append(v)
    return tuple(out)


def choose_mutation(rng, x, k, fresh):
    """A mutation applicable to x; `fresh` yields unused atom ids (ints), increasing."""
    opts = []
    if k in (K_LIST, K_PYLIST):
        opts += [("append", [rng.randint(-9, 9)]), ("append", [rng.randint(-9, 9), fl(rng.randint(-8, 8))]),
                 ("setitems", [rng.randint(-9, 9) for _ in range(rng.randint(0, 3))])]
    elif k == K_TREE:
        opts += [("append", [rng.choice([6000, 6001, 6002, 6003, 6100 + rng.randint(0, 9)])]),
                 ("setitems", [6001, 6003])]
    elif k in (K_ARRAY, K_BUF) and isinstance(x, array.array):
        nk = numeric_kind(x)

        def oddf():
            v = rng.choice([0.1, 1.0 / 3.0, 1e-9, 1e9 + 1e-3, -0.0, 1.0 + 2.0 ** -20])
            return atom_id(float(numpy.float32(v)) if x.typecode == "f" else v)
        mk = (lambda: oddf() if rng.random() < 0.3 else fl(rng.randint(-40, 40))) if nk == "f" else \
            ((lambda: rng.randint(0, 100)) if nk == "u" else (lambda: rng.randint(-100, 100)))
        opts += [("append", [mk()]), ("setitems", [mk() for _ in range(rng.randint(0, 3))])]
    elif k in (K_ND, K_BUF):
        if len(x) > 0 and x.ndim == 1:
            nk = numeric_kind(x)
            mk = (lambda: fl(rng.randint(-40, 40))) if nk == "f" else \
                ((lambda: rng.randint(0, 100)) if nk == "u" else (lambda: rng.randint(-100, 100)))
            opts += [("setitems", [mk() for _ in range(len(x))])]
    elif k in (K_SET, K_PYSET):
        big = max([atom_id(e) for e in x] + [0])
        opts += [("append", [max(big + 1, next(fresh))]), ("setitems", sorted(set(rng.randint(-9, 9) for _ in range(rng.randint(0, 3)))))]
    elif k in (K_DICT, K_PYDICT):
        opts += [("append", [next(fresh), rng.randint(-9, 9)]), ("setitems", [])]
    elif k in (K_FIT, K_CFIT):
        for _ in range(2):
            vals = fit_values(rng, x.weights)
            opts.append(("setitems", [atom_id(w) for w in map(operator.mul, vals, x.weights)], vals))
        if k == K_FIT:
            opts.append(("setitems", []))
    if k not in (K_PYLIST, K_PYDICT, K_PYSET, K_BUF, K_CLASS):
        w = 1 if k in (K_FIT, K_CFIT) else 3
        for _ in range(w):
            opts.append(("setattr", rng.randint(30, 34), rng.choice([rng.randint(-9, 9), 3000 + rng.randint(0, 5), NONE_ATOM])))
        have = [n for n, _ in obj_attrs(x, k) if 30 <= n <= 34]
        if have:
            opts.append(("delattr", rng.choice(have)))
    if not opts:
        return None
    return rng.choice(opts)


# ------------------------------------------------------------------------------------------------
# fresh interpreter side
# ------------------------------------------------------------------------------------------------
def redefine_classes(names):
    """Define the given creator names again, differently (state carried by deap.creator's globals): fitness classes get
    other weights, the others become list-based with another class-level attribute.  names: [[name, is_fitness, nobj]]"""
    from deap import base, creator
    with warnings.catch_warnings():
        warnings.simplefilter("ignore")
        for name, is_fit, nobj in names:
            if is_fit:
                creator.create(name, base.Fitness, weights=tuple([-7.0] * nobj))
            else:
                creator.create(name, list, x4=-999, x33=list)


def fresh_main(inp, outp):
    warnings.simplefilter("ignore")
    pset()
    jobs = json.load(open(inp))
    out = []
    for j in jobs:
        try:
            if j.get("predefine"):
                redefine_classes(j["predefine"])
            loads = pickle._loads if j.get("impl") == "py" else pickle.loads
            x = loads(base64.b64decode(j["blob"]))
            if j["what"] == "object":
                objs, rv, _ = describe([x])
                out.append({"ok": True, "objs": objs, "roots": rv, "snapshot": repr(snapshot(x)),
                            "class": repr(class_snapshot(type(x))) if is_created_class(type(x)) else None})
            else:
                r = x(*j["args"], **dict(j["kw"]))
                out.append({"ok": True, "res": jres(r)})
        except Exception as e:  # noqa
            out.append({"ok": False, "error": "%s: %s" % (type(e).__name__, e)})
    json.dump(out, open(outp, "w"))


def tolists(x):
    """JSON round trip turns tuples into lists: normalise for comparison."""
    if isinstance(x, (list, tuple)):
        return [tolists(e) for e in x]
    return x


# ------------------------------------------------------------------------------------------------
# the check
# ------------------------------------------------------------------------------------------------
def main(run):
    from deap import base, creator, gp
    warnings.simplefilter("ignore", RuntimeWarning)
    run.rule = ("each scenario creates 1-2 fitness classes (1..3 objectives, plain or constrained), optionally a strategy class, and an "
                "individual class whose base cycles through list, array.array('b','i','d'), numpy.ndarray, set, dict, gp.PrimitiveTree, "
                "with per-instance (type-valued) and class-level attributes (atoms and nested mutables, some shared between classes); "
                "1-2 instances get valid/invalid fitnesses, nested / aliased / cross-instance-shared / cyclic attributes; then 3-7 operations "
                "(instantiate, toolbox.clone incl. clone of clone, pickle round trip with protocol 0..5, in-place mutation of any reachable "
                "mutable object).  After every operation the whole object graph is described canonically and compared with the model; "
                "every pickle is also loaded in a fresh interpreter.  Toolbox scenarios: register / alias of alias / decorate / unregister / "
                "call / pickle sequences.  A case is distinct by its full description; non-trivial = at least one clone or pickle of an object with "
                "a mutable attribute.")
    run.trusted += ["Coq 8.16.1 kernel and vm_compute",
                    "hand-written model coq/Model/C16_ObjGraph.v tied to /repo by correspondence (harness/c16.py)",
                    "the harness's graph walker (describe) and atom interning",
                    "CPython's copy.deepcopy memo protocol, pickle reduce protocol, functools.partial, metaclass machinery, and "
                    "array/numpy buffer copying: not modelled beyond their contract, exercised by the differential run only"]
    run.assumptions += ["immutable values (numbers, strings, tuples of those, GP nodes) are atoms; GP nodes are shared by design",
                        "no per-instance attribute created by the class was deleted from the instance",
                        "attributes stored on the fitness object itself (other than values, constraint_violation) are outside the statement"]
    import time as _time
    t_start = _time.time()
    run.build_props()
    t_built = _time.time()
    if run.broken and not any("C16" in w for b in run.broken for w in b.get("where", [])):
        # the shared build tripped over another property's file (several checks build concurrently): once more
        import time
        time.sleep(20)
        run.broken[:] = []
        run.obligations[:] = []
        run.build_props()
    rng = run.rng
    toolbox = base.Toolbox()
    pset()
    counter = [0]
    created = []
    terms, cases = [], []
    fresh_jobs, fresh_expect = [], []
    fresh_box = [itertools.count(200)]

    class _Fresh(object):
        def __next__(self):
            return next(fresh_box[0])
    fresh_ints = _Fresh()

    def new_name():
        counter[0] += 1
        n = "C16_%d" % counter[0]
        created.append(n)
        return n

    def mk_nested(depth=2):
        """a small nested mutable Python value"""
        r = rng.random()
        if depth == 0 or r < 0.25:
            if rng.random() < 0.2:
                return atom_id(rng.choice(odd_values()))
            return rng.choice([rng.randint(-9, 9), fl(rng.randint(-8, 8)), 3000 + rng.randint(0, 5), 4000 + rng.randint(0, 3), NONE_ATOM])
        if r < 0.6:
            return ["L"] + [mk_nested(depth - 1) for _ in range(rng.randint(0, 3))]
        if r < 0.8:
            return ["D"] + [(3000 + i, mk_nested(depth - 1)) for i in range(rng.randint(0, 2))]
        if r < 0.9:
            return ["S"] + sorted(set(rng.randint(-9, 9) for _ in range(rng.randint(0, 3))))
        if r < 0.94:
            return ["AR", [fl(rng.randint(-8, 8)) for _ in range(rng.randint(0, 3))]]
        if r < 0.97:
            return ["ND32", [fl(rng.randint(-8, 8)) for _ in range(rng.randint(1, 3))]]
        return ["ND", [rng.randint(-9, 9) for _ in range(rng.randint(1, 3))]]

    def build(spec):
        if isinstance(spec, int):
            return py_atom(spec)
        t = spec[0]
        if t == "L":
            return [build(s) for s in spec[1:]]
        if t == "D":
            return dict((py_atom(k), build(v)) for k, v in spec[1:])
        if t == "S":
            return set(py_atom(z) for z in spec[1:])
        if t == "AR":
            return array.array("d", [py_atom(z) for z in spec[1]])
        if t == "ND32":
            return numpy.array([py_atom(z) for z in spec[1]], dtype=numpy.float32)
        return numpy.array([py_atom(z) for z in spec[1]])

    def content_for(code, tc=None, n=None):
        """atom ids for the constructor argument of a class with base `code`"""
        n = rng.randint(0, 4) if n is None else n
        if code == 1:
            return [atom_id(rng.choice(odd_values())) if rng.random() < 0.15 else rng.choice([rng.randint(-9, 9), fl(rng.randint(-8, 8))])
                    for _ in range(n)]
        if code == 2:
            if tc in ("d", "f"):
                odd = [0.1, 1.0 / 3.0, 1e-9, 1e9 + 1e-3, -0.0, 1.0 + 2.0 ** -20]
                return [atom_id(float(numpy.float32(rng.choice(odd))) if tc == "f" else rng.choice(odd)) if rng.random() < 0.2
                        else fl(rng.randint(-40, 40)) for _ in range(n)]
            if tc == "H":
                return [rng.randint(0, 100) for _ in range(n)]
            return [rng.randint(-100, 100) for _ in range(n)]
        if code == 3:
            if tc == "f":
                return [fl(rng.randint(-40, 40)) for _ in range(n)]
            if tc == "u":
                return [rng.randint(0, 100) for _ in range(n)]
            if tc == "i" or rng.random() < 0.5:
                return [rng.randint(-100, 100) for _ in range(n)]
            return [atom_id(rng.choice([0.1, 1.0 / 3.0, 1e-9, 1e9 + 1e-3])) if rng.random() < 0.2 else fl(rng.randint(-40, 40))
                    for _ in range(n)]
        if code == 4:
            return sorted(set(rng.randint(-9, 9) for _ in range(n)))
        if code == 5:
            out = []
            for i in range(min(n, 3)):
                out += [3000 + i, rng.randint(-9, 9)]
            return out
        if code == 6:
            return rng.choice([[6002], [6003], [6001, 6003], [6000, 6002, 6100 + rng.randint(0, 9)],
                               [6000, 6001, 6003, 6000, 6002, 6003], [6100 + rng.randint(0, 9)]])
        return []

    def nd_dtype():
        """(dtype or None, kind of content) for a numpy-based individual: mostly what numpy infers, sometimes a non-default dtype"""
        return rng.choice([(None, None), (None, None), (numpy.float32, "f"), (numpy.int8, "i"), (numpy.float16, "f"), (numpy.uint16, "u")])

    def instantiate(c, zs, dtype=None):
        code = base_code(c)
        vals = [py_atom(z) for z in zs]
        if code in (7, 8):
            return c(tuple(vals)) if vals else c()
        if code == 3 and dtype is not None:
            return c(numpy.array(vals, dtype=dtype))         # a non-default dtype
        if code == 5:
            return c(dict((vals[i], vals[i + 1]) for i in range(0, len(vals), 2)))
        return c(vals)

    # ---------------- oracle pieces ----------------
    def oracle_new(case, obj, c, before_ids):
        try:
            oracle_new_(case, obj, c, before_ids)
        except Exception as e:  # noqa
            run.oracle_violation("inspecting a new instance raised %s: %s" % (type(e).__name__, e), case)

    def oracle_new_(case, obj, c, before_ids):
        """fresh per-instance attributes"""
        dct = c.reduce_args[2]
        for n, t in dct.items():
            if isinstance(t, type):
                if n not in vars(obj) or type(getattr(obj, n)) is not t:
                    run.oracle_violation("new instance lacks its per-instance attribute %s" % n, case)
                    continue
                v = getattr(obj, n)
                shared = [i for i in inst_mutables(v) if i in before_ids]
                if shared:
                    run.oracle_violation("per-instance attribute %s of a new instance shares mutable state with an older object" % n, case)

    def oracle_copy(case, how, x, c, proto=None):
        try:
            oracle_copy_(case, how, x, c, proto)
        except Exception as e:  # noqa
            run.oracle_violation("%s: reading the copy raised %s: %s" % (how, type(e).__name__, e), case)

    def oracle_copy_(case, how, x, c, proto=None):
        kx = kind_of(x)
        sig = None
        if type(c).__name__ != type(x).__name__ or kind_of(c) != kx or \
                [b.__name__ for b in type(c).__bases__] != [b.__name__ for b in type(x).__bases__]:
            run.oracle_violation("%s: class of the copy is not equivalent" % how, case, signature=sig)
            return
        if how == "clone" and type(c) is not type(x):
            run.oracle_violation("clone: class differs", case)
        if is_created_class(type(x)) and class_snapshot(type(c)) != class_snapshot(type(x)):
            run.oracle_violation("%s: class-level attributes differ" % how, case)
        # content
        if [snapshot(e) for e in obj_items(c, kx)] != [snapshot(e) for e in obj_items(x, kx)] or \
                (kx in (K_LIST, K_TREE, K_PYLIST) and not all(kind_of(e) is not None or a == e or (a != a and e != e) for a, e in zip(list(c), list(x)))):
            run.oracle_violation("%s: content differs" % how, case, observed=[repr(obj_items(x, kx)), repr(obj_items(c, kx))])
        if kx == K_ARRAY and c.typecode != x.typecode:
            run.oracle_violation("%s: typecode differs" % how, case)
        if kx == K_ND and (c.dtype != x.dtype or c.shape != x.shape) and len(x) > 0:
            run.oracle_violation("%s: dtype/shape differs" % how, case)
        # fitness values and validity
        xvars = vars(x) if hasattr(x, "__dict__") else {}
        cvars = vars(c) if hasattr(c, "__dict__") else {}
        pairs_f = [(v, getattr(c, n, None)) for n, v in xvars.items() if isinstance(v, base.Fitness)]
        if kx in (K_FIT, K_CFIT):
            pairs_f.append((x, c))
        for v, w in pairs_f:
            if not isinstance(w, base.Fitness) or w.valid != v.valid or w.values != v.values or \
                    w.wvalues != v.wvalues or not (w == v) or w.weights != v.weights:
                run.oracle_violation("%s: fitness values / validity differ" % how, case,
                                     observed=[repr(v.wvalues), repr(getattr(w, "wvalues", None))])
                continue
            bad = fit_differences(v, w)
            if bad:
                run.oracle_violation("%s: fitness of the copy is not exactly the original's: %s" % (how, "; ".join(bad)), case,
                                     observed=[repr(v.weights), repr(v.wvalues), repr(w.wvalues)])
        # extra attributes
        if kx in (K_FIT, K_CFIT):
            pass        # attributes stored on a fitness object itself are outside the statement
        elif sorted(xvars) != sorted(cvars):
            run.oracle_violation("%s: attribute names differ" % how, case, observed=[sorted(xvars), sorted(cvars)])
        if snapshot(x) != snapshot(c):
            run.oracle_violation("%s: attributes differ" % how, case, observed=[repr(snapshot(x)), repr(snapshot(c))])
        # no shared mutable state
        mx, mc = inst_mutables(x), inst_mutables(c)
        common = [KNAMES[kind_of(mx[i])] for i in mx if i in mc]
        if common:
            run.oracle_violation("%s: copy shares mutable objects with the original: %s" % (how, common), case)
        if how != "clone":
            fx, fc = inst_mutables(x, None, True), inst_mutables(c, None, True)
            common = [KNAMES[kind_of(fx[i])] for i in fx if i in fc]
            if common:
                run.oracle_violation("%s: unpickled object shares objects (class level included) with the original: %s" % (how, common), case)

    def fit_differences(v, w):
        """exact equality of two fitnesses: weighted values with their types, every comparison operator between them,
        and the same verdicts against third fitnesses just below / at / just above"""
        bad = []
        ev = [(type(a).__name__, repr(a)) for a in v.wvalues]
        ew = [(type(a).__name__, repr(a)) for a in w.wvalues]
        if ev != ew:
            bad.append("weighted values %r became %r" % (ev, ew))
        if [(type(a).__name__, repr(a)) for a in v.weights] != [(type(a).__name__, repr(a)) for a in w.weights]:
            bad.append("weights differ")
        if not (v == w) or (v != w) or (v < w) or (v > w) or not (v <= w) or not (v >= w) or v.dominates(w) or w.dominates(v):
            bad.append("original and copy do not compare equal under ==, !=, <, >, <=, >=, dominates")
        if v.valid:
            if type(v).__hash__ is not None and hash(v) != hash(w):
                bad.append("hash differs")
            thirds = []
            for step in (-1, 0, 1):
                a = v.wvalues[0]
                if isinstance(a, (int, numpy.integer)):
                    b = int(a) + step
                else:
                    b = float(numpy.nextafter(float(a), float("inf") * step)) if step else float(a)
                t = type(v)()
                t.wvalues = (b,) + tuple(v.wvalues[1:])
                thirds.append(t)
            for t in thirds:
                rv = (v < t, v <= t, v == t, v != t, v > t, v >= t, t < v, v.dominates(t), t.dominates(v))
                rw = (w < t, w <= t, w == t, w != t, w > t, w >= t, t < w, w.dominates(t), t.dominates(w))
                if rv != rw:
                    bad.append("ordering against %r: original %r, copy %r" % (t.wvalues, rv, rw))
        return bad

    def oracle_frame(case, x, c, how):
        try:
            oracle_frame_(case, x, c, how)
        except Exception as e:  # noqa
            run.oracle_violation("%s: writing through / reading a copy raised %s: %s" % (how, type(e).__name__, e), case)

    def oracle_frame_(case, x, c, how):
        """write through every mutable location of one side; the other must read the same as before"""
        for a, b in ((x, c), (c, x)):
            for o in list(inst_mutables(a).values()):
                k = kind_of(o)
                m = choose_mutation(rng, o, k, fresh_ints)
                if m is None or m[0] == "delattr":
                    continue
                before = snapshot(b)
                apply_mutation(o, k, m)
                if snapshot(b) != before:
                    run.oracle_violation("%s: changing a %s reachable from one object changed the other" % (how, KNAMES[k]), case,
                                         observed={"mutation": list(m)})
                    return

    # ---------------- scenarios ----------------
    def scenario(idx, force=None):
        """force (the exhaustive grid): {"base": 0..7, "nobj": 1..3, "valid": bool, "proto": 0..5, "cycle": bool}"""
        force = force or {}
        bases = [(list, 1, None), (array.array, 2, "b"), (array.array, 2, "i"), (array.array, 2, "d"),
                 (numpy.ndarray, 3, None), (set, 4, None), (dict, 5, None), (gp.PrimitiveTree, 6, None),
                 (array.array, 2, "f"), (array.array, 2, "l"), (array.array, 2, "H")]
        pybase, code, tc = bases[force.get("base", idx) % len(bases)]
        fresh_box[0] = itertools.count(200)
        # fitness classes
        fits = []
        for _ in range(rng.choice([1, 1, 2])):
            nm = new_name()
            fb = base.ConstrainedFitness if rng.random() < 0.25 else base.Fitness
            kw = {"weights": rng.choice([w for w in WEIGHTS if "nobj" not in force or len(w) == force["nobj"]])}
            if "weights" in force:
                kw = {"weights": tuple(force["weights"])}
            if rng.random() < 0.15:
                kw["x20"] = build(mk_nested(1))
            creator.create(nm, fb, **kw)
            fits.append(getattr(creator, nm))
        shared_cls_level = build(["L", rng.randint(0, 9), ["L", rng.randint(0, 9)]])
        strat_cls = None
        if rng.random() < 0.35:
            nm = new_name()
            kw = {}
            if rng.random() < 0.5:
                creator.create(nm, array.array, typecode="d", **kw)
            else:
                if rng.random() < 0.5:
                    kw["x21"] = shared_cls_level
                creator.create(nm, list, **kw)
            strat_cls = getattr(creator, nm)
        dct = {}
        if rng.random() < 0.9 or force:
            dct["fitness"] = rng.choice(fits)
        r = rng.random()
        if r < 0.5:
            dct["strategy"] = strat_cls if strat_cls is not None and rng.random() < 0.7 else rng.choice([list, dict, set])
        elif r < 0.65:
            dct["strategy"] = None
        if rng.random() < 0.3:
            dct["x3"] = rng.choice([list, dict, float, int, fits[-1]])
        if rng.random() < 0.5:
            dct["x4"] = py_atom(rng.choice([rng.randint(-9, 9), 3000 + rng.randint(0, 5), 4000 + rng.randint(0, 3)]))
        if rng.random() < 0.5:
            dct["x5"] = build(mk_nested(2))
        if rng.random() < 0.3:
            dct["x6"] = shared_cls_level
        if tc is not None:
            dct["typecode"] = tc
        nm = new_name()
        creator.create(nm, pybase, **dct)
        icls = getattr(creator, nm)
        case = {"kind": "run", "base": KNAMES[code], "typecode": tc, "class": nm, "grid": force or None,
                "dct": sorted((k, getattr(v, "__name__", repr(v))) for k, v in dct.items())}
        # initial instances
        roots = []
        for _ in range(rng.choice([1, 1, 1, 2])):
            dt, dk = nd_dtype() if code == 3 else (None, tc)
            ind = instantiate(icls, content_for(code, dk), dt)
            roots.append(ind)
        setup = []
        for ind in roots:
            f = getattr(ind, "fitness", None)
            if isinstance(f, base.Fitness) and force.get("valid", rng.random() < 0.7):
                f.values = tuple(force["values"]) if "values" in force else fit_values(rng, f.weights)
                setup.append("valid")
            if isinstance(f, base.ConstrainedFitness) and rng.random() < 0.5:
                f.constraint_violation = rng.choice([[1, 0], [0], [0, 0, 1]])
            s = vars(ind).get("strategy", None)
            if kind_of(s) is not None:
                m = choose_mutation(rng, s, kind_of(s), fresh_ints)
                if m is not None and m[0] != "delattr":
                    apply_mutation(s, kind_of(s), m)
                if type(s) is list and rng.random() < 0.6:
                    s.append(build(mk_nested(2)))
            if rng.random() < 0.6:
                setattr(ind, "x7", build(mk_nested(2)))
            if rng.random() < 0.3 and kind_of(vars(ind).get("x7")) is not None:
                ind.x8 = ind.x7                                        # two attributes, one object
                setup.append("alias")
            if rng.random() < 0.25 and kind_of(s) is not None:
                ind.x9 = [s, s]                                        # shared sub-object below a list
                setup.append("dag")
            if rng.random() < 0.15:
                ind.x10 = rng.choice(fits)                             # a class as attribute value
            if rng.random() < 0.15 and strat_cls is not None:
                ind.x11 = strat_cls([0.5] if base_code(strat_cls) == 2 else [1, 2])
            if force.get("cycle", rng.random() < 0.3):
                if rng.random() < 0.5:
                    ind.x12 = ind                                      # cycle through the individual
                else:
                    ind.x12 = [ind]
                setup.append("cycle")
            if code == 1 and rng.random() < 0.3:
                list.append(ind, build(["L", rng.randint(0, 9), ["L", rng.randint(0, 9)]]))   # nested content
                setup.append("nested-content")
            if code == 5 and rng.random() < 0.3:
                ind[py_atom(3050)] = build(["L", rng.randint(0, 9)])
                setup.append("nested-content")
            if isinstance(f, base.Fitness) and rng.random() < 0.08:
                f.x13 = rng.randint(0, 9)                              # attribute stored on the fitness object
                setup.append("fitness-attr")
        if len(roots) == 2 and rng.random() < 0.4 and kind_of(vars(roots[0]).get("x7")) is not None:
            roots[1].x14 = roots[0].x7                                 # shared between two individuals
            setup.append("cross-shared")
        case["setup"] = setup
        objs, rv, pyobjs = describe(roots)
        h0 = (objs, rv)
        steps = []
        pairs = []
        ops_log = []
        nontrivial = False
        nops = rng.randint(4, 8)
        for step_i in range(nops):
            objs, rv, pyobjs = describe(roots)
            r = rng.random()
            force_cls = None
            if step_i == 0:
                r, force_cls = 0.7, icls          # a second instance of the individual class, through the model
            elif step_i == 1:
                r = 0.0
            elif step_i == 2:
                r = 0.4
            if len(roots) >= 7 and r < 0.65:
                r = 0.8
            if r < 0.35:
                i = rng.randrange(len(roots))
                before = snapshot(roots[i])
                c = toolbox.clone(roots[i])
                op = ("clone", i)
                case_op = dict(case, op=list(op), step=step_i)
                if snapshot(roots[i]) != before:
                    run.oracle_violation("clone changed the original", case_op)
                oracle_copy(case_op, "clone", roots[i], c)
                pairs.append((roots[i], c, "clone"))
                roots.append(c)
                nontrivial = nontrivial or len(inst_mutables(c)) > 1
            elif r < 0.65:
                i = rng.randrange(len(roots))
                proto = force.get("proto", rng.randint(0, 5))
                before = snapshot(roots[i])
                impl = rng.choice(["c", "c", "py"])             # the C pickler or the pure Python one
                redefine = rng.random() < 0.3                     # the names are defined again, differently, before loading
                names = [[o.__name__, base_code(o) in (7, 8), len(o.reduce_args[2].get("weights", ()))]
                         for o in inst_mutables(roots[i], None, True).values() if kind_of(o) == K_CLASS]
                try:
                    blob = (pickle._dumps if impl == "py" else pickle.dumps)(roots[i], proto)
                    if redefine:
                        redefine_classes(names)
                    c = (pickle._loads if impl == "py" else pickle.loads)(blob)
                except Exception as e:  # noqa
                    run.oracle_violation("pickle round trip (protocol %d) raised %s: %s" % (proto, type(e).__name__, e),
                                         dict(case, op=["pickle", i, proto], step=step_i))
                    break
                op = ("pickle", i)
                case_op = dict(case, op=["pickle", i, proto, impl, "redefined" if redefine else ""], step=step_i)
                if snapshot(roots[i]) != before:
                    run.oracle_violation("pickling changed the original", case_op)
                oracle_copy(case_op, "pickle protocol %d" % proto, roots[i], c, proto)
                # fresh interpreter
                d1 = describe([roots[i]])
                exp = {"case": case_op, "snapshot": repr(snapshot(roots[i])),
                       "class": repr(class_snapshot(type(roots[i]))) if is_created_class(type(roots[i])) else None,
                       "desc": (d1[0], d1[1])}
                fresh_jobs.append({"what": "object", "blob": base64.b64encode(blob).decode(), "impl": rng.choice(["c", "py"]),
                                   "predefine": names if rng.random() < 0.3 else None})
                fresh_expect.append(exp)
                pairs.append((roots[i], c, "pickle protocol %d" % proto))
                roots.append(c)
                nontrivial = nontrivial or len(inst_mutables(c)) > 1
            elif r < 0.69 and force_cls is None:
                # a population: a plain list of some of the objects (an object may appear twice)
                js = [rng.randrange(len(roots)) for _ in range(rng.randint(1, 3))]
                roots.append([roots[j] for j in js])
                op = ("group", js)
            elif r < 0.75:
                # instantiate a created class present in the description
                ks = [n for n, o in enumerate(pyobjs) if kind_of(o) == K_CLASS]
                k = rng.choice(ks)
                if force_cls is not None:
                    k = [n for n in ks if pyobjs[n] is force_cls][0]
                c = pyobjs[k]
                dt, dk = nd_dtype() if base_code(c) == 3 else (None, c.reduce_args[2].get("typecode"))
                zs = content_for(base_code(c), dk)
                before_ids = set()
                for rt in roots:
                    before_ids.update(inst_mutables(rt, None, True))
                if base_code(c) in (7, 8) and rng.random() < 0.5:
                    fv = fit_values(rng, c.weights)                  # the constructor route: Fitness(values)
                    zs = [atom_id(w) for w in map(operator.mul, fv, c.weights)]
                    obj = c(fv)
                else:
                    obj = instantiate(c, zs, dt)
                op = ("new", k, zs)
                oracle_new(dict(case, op=["new", c.__name__, zs], step=step_i), obj, c, before_ids)
                roots.append(obj)
            else:
                cand = [n for n, o in enumerate(pyobjs) if kind_of(o) != K_CLASS]
                k = rng.choice(cand)
                o = pyobjs[k]
                m = choose_mutation(rng, o, kind_of(o), fresh_ints)
                if m is None:
                    continue
                # deleting an attribute that the class re-creates per instance is outside the model
                apply_mutation(o, kind_of(o), m)
                op = ("mut", k, m)
            ops_log.append(repr(op))
            steps.append((op, describe(roots)))
        case["ops"] = ops_log
        prev = h0
        out = []
        for j, (op, d) in enumerate(steps):
            if op[0] == "mut" and j != len(steps) - 1:
                out.append("S0 %s" % cop(op))
                continue
            po, no = prev[0], d[0]
            changes = [(i, no[i]) for i in range(min(len(po), len(no))) if po[i] != no[i]]
            out.append("Sd %s %d [%s] [%s] [%s]" % (cop(op), len(no), ";".join("C %d (%s)" % (i, cobj(o)) for i, o in changes),
                                                  ";\n  ".join(cobj(o) for o in no[len(po):]), ";".join(cval(v) for v in d[1])))
            prev = d
        steps = out
        terms.append("CRun %s %s [%s] [%s]" % ("false" if "fitness-attr" in setup else "true",
                                                "[%s]" % ";\n  ".join(cobj(o) for o in h0[0]),
                                             ";".join(cval(v) for v in h0[1]), ";\n ".join(steps)))
        cases.append(case)
        run.note_case(case, nontrivial, sample=case if idx % 41 == 0 else None)
        # the theorems' vocabulary on the real objects: unfold of an original and of its first clone
        for x, c, how in pairs[:1]:
            objs2, rv2, py2 = describe([x, c])
            num = dict((id(o), n) for n, o in enumerate(py2))
            hterm = "[%s]" % ";\n  ".join(cobj(o) for o in objs2)
            for root, rvv, sc in ((x, rv2[0], True), (c, rv2[1], True), (c, rv2[1], False)):
                terms.append("CUnfold %s %s 3 %s %s" % (hterm, cval(rvv), "true" if sc else "false", unfold_real(root, 3, sc, num)))
                cu = dict(case, unfold=[how, sc])
                cases.append(cu)
                run.note_case(cu, True)
        # frame: destructive, so last
        for x, c, how in pairs:
            oracle_frame(dict(case, frame=how), x, c, how)
        # every protocol, directly
        for x in roots[:2]:
            for proto in range(6):
                try:
                    c = pickle.loads(pickle.dumps(x, proto))
                except Exception as e:  # noqa
                    run.oracle_violation("pickle round trip (protocol %d) raised %s: %s" % (proto, type(e).__name__, e),
                                         dict(case, op=["pickle-all", proto]))
                    continue
                oracle_copy(dict(case, op=["pickle-all", proto]), "pickle protocol %d" % proto, x, c, proto)

    # exhaustive grid: every base type / typecode x every pickle protocol x 1..3 objectives x valid / invalid fitness
    # (x with / without a reference cycle through the individual in the thorough tier)
    grid = [dict(base=b, nobj=n, valid=v, proto=p, cycle=c)
            for b in range(11 if run.thorough else 8) for p in range(6) for n in (1, 2, 3) for v in (True, False)
            for c in ((False, True) if run.thorough else ((b + p + n + v) % 2 == 0,))]
    nscen = run.scale(100, 4000)
    # corpus (past misses) first: every entry on every base type, with each pickle protocol in turn
    corpus = []
    cdir = os.path.join(os.path.dirname(HERE), "corpus")
    for fn in sorted(os.listdir(cdir)) if os.path.isdir(cdir) else []:
        if fn.startswith("C16") and fn.endswith(".json"):
            for j, e in enumerate(json.load(open(os.path.join(cdir, fn)))["cases"]):
                for b in range(8):
                    corpus.append(dict(base=b, weights=e["weights"], values=e["values"], nobj=len(e["weights"]), valid=True,
                                       proto=(b + j) % 6, cycle=False, corpus=fn))
    run.extra_cov["corpus_cases"] = len(corpus)
    jobs = [(i, g) for i, g in enumerate(corpus)] + [(i, None) for i in range(nscen)] + [(i, g) for i, g in enumerate(grid)]
    for idx, g in jobs:
        try:
            scenario(idx, g)
        except Exception as e:  # noqa
            import traceback
            run.oracle_violation("scenario raised %s: %s" % (type(e).__name__, e), {"kind": "run", "index": idx},
                                 observed=traceback.format_exc()[-1500:])

    # ---------------- supplementary exploration (oracle only): values the model treats as atoms or does not have ----
    # tuples holding mutables, frozensets, deques, bytearrays, 2-D / bool / complex numpy contents, nested tuple content
    import collections

    def gsnap(x, stack=()):
        """generic by-value snapshot"""
        if id(x) in stack:
            return ("cycle",)
        st2 = stack + (id(x),)
        if isinstance(x, numpy.ndarray):
            return ("nd", type(x).__name__, str(x.dtype), x.shape, repr(x.tolist()), gsnap(getattr(x, "__dict__", None), st2))
        if isinstance(x, array.array):
            return ("arr", type(x).__name__, x.typecode, list(x), gsnap(getattr(x, "__dict__", None), st2))
        if isinstance(x, base.Fitness):
            return ("fit", type(x).__name__, x.valid, repr(x.values), gsnap(getattr(x, "constraint_violation", None), st2))
        if isinstance(x, (list, tuple, collections.deque)):
            return (type(x).__name__, tuple(gsnap(e, st2) for e in x), gsnap(getattr(x, "__dict__", None), st2))
        if isinstance(x, (set, frozenset)):
            return (type(x).__name__, tuple(sorted((gsnap(e, st2) for e in x), key=repr)), gsnap(getattr(x, "__dict__", None), st2))
        if isinstance(x, dict):
            return (type(x).__name__, tuple((gsnap(k, st2), gsnap(v, st2)) for k, v in x.items()), gsnap(getattr(x, "__dict__", None), st2))
        if isinstance(x, type):
            return ("type", x.__name__)
        if is_node(x):
            return ("node", node_atom(x))
        return (type(x).__name__, repr(x))

    def gmut(x, acc=None):
        """id -> mutable object, generic, not through classes"""
        acc = {} if acc is None else acc
        if isinstance(x, type) or is_node(x) or id(x) in acc:
            return acc
        if isinstance(x, (list, dict, set, collections.deque, bytearray, numpy.ndarray, array.array, base.Fitness)):
            acc[id(x)] = x
        if isinstance(x, (list, tuple, set, frozenset, collections.deque)):
            for e in x:
                gmut(e, acc)
        elif isinstance(x, dict):
            for k, v in x.items():
                gmut(v, acc)
        if hasattr(x, "__dict__") and not isinstance(x, type):
            for v in vars(x).values():
                gmut(v, acc)
        return acc

    def gwrite(o):
        if isinstance(o, base.Fitness):
            o.values = tuple(7.0 for _ in o.weights)
        elif isinstance(o, numpy.ndarray):
            if o.size:
                o.flat[0] = not o.flat[0] if o.dtype == bool else o.flat[0] + 1
            else:
                o.x40 = 1
        elif isinstance(o, array.array):
            o.append(1 if o.typecode not in "fd" else 1.5)
        elif isinstance(o, bytearray):
            o.append(1)
        elif isinstance(o, (list, collections.deque)):
            list.append(o, "w") if isinstance(o, list) else o.append("w")
        elif isinstance(o, set):
            o.add("w")
        elif isinstance(o, dict):
            dict.__setitem__(o, "w", 1)

    def exotic(idx):
        bases = [(list, None, [1, (2, [3]), [4]]), (array.array, "d", [1.5, 2.0]), (array.array, "b", [1, -2]),
                 (numpy.ndarray, None, [[1, 2], [3, 4]]), (numpy.ndarray, None, [True, False, True]),
                 (numpy.ndarray, None, [1.5 + 2j]), (numpy.ndarray, None, [[[1.0]], [[2.0]]]), (numpy.ndarray, None, []),
                 (set, None, [1, (2, 3), frozenset([4])]), (dict, None, {"a": ([1], 2), (1, 2): {3: [4]}}),
                 (gp.PrimitiveTree, None, [py_atom(6000), py_atom(6002), py_atom(6105)])]
        pybase, tc, content = bases[idx % len(bases)]
        fn_, nm = new_name(), new_name()
        creator.create(fn_, base.Fitness, weights=rng.choice(WEIGHTS))
        kw = {"fitness": getattr(creator, fn_), "strategy": rng.choice([list, dict, collections.deque, bytearray])}
        if tc:
            kw["typecode"] = tc
        creator.create(nm, pybase, **kw)
        x = getattr(creator, nm)(content)
        if rng.random() < 0.7:
            x.fitness.values = tuple(rng.randint(-8, 8) / 4.0 for _ in x.fitness.weights)
        x.x7 = rng.choice([([1, 2], "a"), {"k": ([1], (2, [3]))}, [frozenset([1]), (1, [2])], numpy.array([[1.0, 2.0], [3.0, 4.0]]),
                           collections.deque([[1], 2]), bytearray(b"ab"), [numpy.array([1, 2]), array.array("i", [3])]])
        x.x8 = x.x7 if rng.random() < 0.4 else None
        case = {"kind": "exotic", "base": pybase.__name__, "typecode": tc, "content": repr(content), "x7": repr(x.x7)}
        run.note_case(case, True)
        copies = [("clone", toolbox.clone(x)), ("clone of clone", toolbox.clone(toolbox.clone(x)))]
        for proto in range(6):
            try:
                copies.append(("pickle protocol %d" % proto, pickle.loads(pickle.dumps(x, proto))))
            except Exception as e:  # noqa
                run.oracle_violation("pickle round trip (protocol %d) raised %s: %s" % (proto, type(e).__name__, e), case)
        ref = gsnap(x)
        for how, c in copies:
            if gsnap(c) != ref:
                run.oracle_violation("%s: copy differs (content / fitness / attributes)" % how, case, observed=[repr(ref), repr(gsnap(c))])
            if (c.x8 is c.x7) != (x.x8 is x.x7):
                run.oracle_violation("%s: sharing between two attributes not kept" % how, case)
            mx, mc = gmut(x), gmut(c)
            if [i for i in mx if i in mc]:
                run.oracle_violation("%s: copy shares mutable objects with the original" % how, case)
        for how, c in copies:
            for a, b in ((x, c), (c, x)):
                for o in list(gmut(a).values()):
                    before = gsnap(b)
                    gwrite(o)
                    if gsnap(b) != before:
                        run.oracle_violation("%s: changing a %s reachable from one object changed the other" % (how, type(o).__name__), case)

    for idx in range(run.scale(44, 440)):
        try:
            exotic(idx)
        except Exception as e:  # noqa
            import traceback
            run.oracle_violation("exploration scenario raised %s: %s" % (type(e).__name__, e), {"kind": "exotic", "index": idx},
                                 observed=traceback.format_exc()[-1500:])

    # ---------------- toolbox scenarios ----------------
    lambdas = {100: (lambda *a, **k: ("call", 100, tuple(a), tuple(sorted(k.items(), key=lambda p: int(p[0][1:]))))),
               101: (lambda *a, **k: ("call", 101, tuple(a), tuple(sorted(k.items(), key=lambda p: int(p[0][1:])))))}

    def fn_of(i):
        return MODULE_FNS[i] if i in MODULE_FNS else lambdas[i]

    def tool_scenario(idx):
        tb = base.Toolbox()
        spec = {}       # alias id -> (function object, frozen args, frozen kw, base ids involved, decorated?)
        ops, log = [], []
        case = {"kind": "toolbox", "ops": log}
        if not (hasattr(tb, "clone") and hasattr(tb, "map") and tb.clone.func is copy.deepcopy and tb.map.func is map):
            run.oracle_violation("a new toolbox lacks clone/map", case)
        ops.append("THas 0 true")
        ops.append("THas 1 true")

        def rargs():
            return [rng.randint(-5, 5) for _ in range(rng.randint(0, 3))]

        def rkw():
            ks = rng.sample(range(4), rng.randint(0, 2))
            return [(k, rng.randint(-5, 5)) for k in ks]

        def do_call(al):
            args, kw = rargs(), rkw()
            kwd = dict(("k%d" % k, v) for k, v in kw)
            got = getattr(tb, "al%d" % al)(*args, **kwd)
            t, fa, fk, _ = spec[al]
            want = t(*(tuple(fa) + tuple(args)), **dict(fk, **kwd))
            log.append(["call", al, args, kw, jres(got)])
            if got != want:
                run.oracle_violation("alias call is not function(*frozen, *call args, **{frozen kw, call kw})", case,
                                     observed=[jres(got), jres(want)])
            ops.append("TCall %d %s %s %s" % (al, czs(args), ckw(kw), cres(got)))

        for _ in range(rng.randint(4, 10)):
            r = rng.random()
            al = rng.randint(2, 5)
            if spec and not (r < 0.3 or 0.55 <= r < 0.62):
                al = rng.choice(sorted(spec))           # decorate / unregister / call / pickle: an existing alias
            name = "al%d" % al
            if r < 0.3 or not spec:
                args, kw = rargs(), rkw()
                if spec and rng.random() < 0.3:
                    b = rng.choice(sorted(spec))
                    f = getattr(tb, "al%d" % b)
                    src = "SAlias %d" % b
                    fobj = spec[b]
                    clean = fobj[3]
                    target = (lambda fo: (lambda *a, **k: fo[0](*(tuple(fo[1]) + a), **dict(fo[2], **k))))(fobj)
                else:
                    i = rng.choice([2, 3, 4, 100, 101])
                    f = fn_of(i)
                    src = "SBase %d" % i
                    clean = i < 100
                    target = f
                tb.register(name, f, *args, **dict(("k%d" % k, v) for k, v in kw))
                spec[al] = (target, list(args), dict(("k%d" % k, v) for k, v in kw), clean)
                ops.append("TReg %d (%s) %s %s" % (al, src, czs(args), ckw(kw)))
                log.append(["register", al, src, args, kw])
                got = getattr(tb, name)
                # (an alias of an alias keeps the inner alias' __name__: register copies function.__dict__ over it;
                #  cosmetic and outside the statement)
                if (got.__name__ != name and not src.startswith("SAlias")) or got.__doc__ != f.__doc__:
                    run.oracle_violation("alias does not carry the alias name / the function's doc", case)
            elif r < 0.45:
                if al in spec:
                    ds = rng.sample(range(6), rng.randint(1, 3))
                    tb.decorate(name, *[deco(d) for d in ds])
                    t, a, k, _ = spec[al]
                    for d in ds:
                        t = deco(d)(t)
                    spec[al] = (t, a, k, False)
                    ops.append("TDec %d [%s]" % (al, ";".join("%d%%nat" % d for d in ds)))
                    log.append(["decorate", al, ds])
                    do_call(al)
            elif r < 0.55:
                if al in spec:
                    tb.unregister(name)
                    del spec[al]
                    ops.append("TUnreg %d" % al)
                    log.append(["unregister", al])
            elif r < 0.62:
                ops.append("THas %d %s" % (al, "true" if hasattr(tb, name) else "false"))
                if hasattr(tb, name) != (al in spec):
                    run.oracle_violation("alias presence wrong after register/unregister", case)
            elif r < 0.9:
                if al in spec:
                    do_call(al)
            else:
                if al in spec:
                    alias = getattr(tb, name)
                    oks = []
                    for proto in range(6):
                        try:
                            blob = pickle.dumps(alias, proto)
                            back = pickle.loads(blob)
                            oks.append(True)
                            a0 = [1, 2]
                            if back(*a0) != alias(*a0):
                                run.oracle_violation("unpickled alias calls differently", case)
                            if proto in (0, 2, 5):
                                exp = {"case": dict(case, alias=al, proto=proto), "res": jres(alias(*a0))}
                                fresh_jobs.append({"what": "alias", "blob": base64.b64encode(blob).decode(), "args": a0, "kw": []})
                                fresh_expect.append(exp)
                        except Exception:  # noqa
                            oks.append(False)
                    ok = all(oks)
                    if any(oks) != ok:
                        run.oracle_violation("alias picklable with some protocols only", case, observed=oks)
                    if spec[al][3] and not ok:
                        run.oracle_violation("undecorated alias of a module-level function is not picklable", case)
                    ops.append("TPickle %d %s" % (al, "true" if ok else "false"))
                    log.append(["pickle", al, ok])
        terms.append("CTool [%s]" % ";\n ".join(ops))
        cases.append(case)
        run.note_case(case, len(ops) > 3)

    for idx in range(run.scale(150, 3000)):
        try:
            tool_scenario(idx)
        except Exception as e:  # noqa
            import traceback
            run.oracle_violation("toolbox scenario raised %s: %s" % (type(e).__name__, e), {"kind": "toolbox", "index": idx},
                                 observed=traceback.format_exc()[-1500:])

    # ---------------- fresh interpreter ----------------
    nfresh = 0
    if fresh_jobs:
        inp = os.path.join(run.rundir, "fresh_in.json")
        outp = os.path.join(run.rundir, "fresh_out.json")
        json.dump(fresh_jobs, open(inp, "w"))
        env = dict(os.environ)
        p = subprocess.run(["timeout", "900", sys.executable, os.path.abspath(__file__), "--fresh", inp, outp],
                           env=env, stdout=subprocess.PIPE, stderr=subprocess.STDOUT, text=True)
        if p.returncode != 0 or not os.path.exists(outp):
            raise RuntimeError("fresh interpreter failed: %s" % p.stdout[-2000:])
        res = json.load(open(outp))
        for job, exp, got in zip(fresh_jobs, fresh_expect, res):
            nfresh += 1
            c = dict(exp["case"], fresh=True)
            if not got["ok"]:
                run.oracle_violation("unpickling in a fresh interpreter raised %s" % got["error"], c)
                continue
            if job["what"] == "alias":
                if got["res"] != exp["res"]:
                    run.oracle_violation("alias unpickled in a fresh interpreter calls differently", c, observed=got["res"])
                continue
            if got["snapshot"] != exp["snapshot"] or got["class"] != exp["class"]:
                run.oracle_violation("object unpickled in a fresh interpreter differs", c,
                                     observed=[exp["snapshot"], got["snapshot"], exp["class"], got["class"]])
            d0 = exp["desc"]
            dg = (got["objs"], [tuple(v) for v in got["roots"]])
            objs = [[o[0], tuple(o[1]), [tuple(v) for v in o[2]], [(a[0], tuple(a[1])) for a in o[3]]] for o in dg[0]]
            same = (objs == [list(o) for o in d0[0]] or objs == d0[0]) and list(dg[1]) == list(d0[1])
            terms.append("CFresh [%s] %s %s" % (";\n  ".join(cobj(o) for o in d0[0]), cval(d0[1][0]),
                                                "None" if same else "(Some %s)" % cdesc((objs, dg[1]))))
            cases.append(c)
            run.note_case(c, True)
        for f in (inp, outp):
            try:
                os.remove(f)
            except OSError:
                pass
    run.extra_cov["fresh_interpreter_loads"] = nfresh
    before = len(run.disagreements)
    t_gen = _time.time()
    run.correspond("all", "C16", terms, cases, shard=60)
    run.extra_cov["timing_s"] = {"build": round(t_built - t_start, 1), "run_deap_and_oracle": round(t_gen - t_built, 1),
                                 "coq_correspondence": round(_time.time() - t_gen, 1)}
    if any(d.get("coq_error") for d in run.disagreements[before:]):
        # a coqc process died without a verdict (killed under memory pressure when many checks run at once):
        # evaluate everything again, four shards at a time; a second failure is reported
        import vlib
        del run.disagreements[before:]
        run.corr_groups.pop("all", None)
        run.notes.append("correspondence re-run after a coqc process died without output")
        ncpu, vlib.NCPU = vlib.NCPU, 4
        try:
            run.correspond("all", "C16", terms, cases, shard=60)
        finally:
            vlib.NCPU = ncpu
    # leave deap.creator as we found it
    for n in created:
        creator.__dict__.pop(n, None)


if __name__ == "__main__":
    if len(sys.argv) == 4 and sys.argv[1] == "--fresh":
        fresh_main(sys.argv[2], sys.argv[3])
