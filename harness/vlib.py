"""Common machinery for the per-property checks (see DESIGN.md sections 2 and 3).

A check is a module harness/cXX.py with a function main(run) that
  1. run.build_props()           -- compiles coq/Props/CXX.v (and what it needs), records obligations
  2. generates cases from run.rng, runs DEAP (from $VERIF_REPO, default /repo) on them,
     evaluates the property statement on what DEAP returned (the oracle) and
     calls run.oracle_violation(...) for every concrete failing input,
  3. run.correspond(...)         -- evaluates the Coq model on the same cases inside coqc (vm_compute)
  4. run.finish()                -- verdict, evidence, VIOLATION / KNOWN-FINDING lines, exit code
"""
import fcntl
import hashlib
import json
import os
import random
import re
import subprocess
import sys
import time
import traceback
from fractions import Fraction

VERIF = os.path.dirname(os.path.dirname(os.path.abspath(__file__)))
REPO = os.environ.get("VERIF_REPO", "/repo")
COQ = os.path.join(VERIF, "coq")
BUILD = os.path.join(VERIF, "build")
NCPU = os.cpu_count() or 4
COQ_DIRS = ["Base", "Model", "Proofs", "Props", "Corr", "Gen"]


def import_deap():
    """Force deap to come from the working tree under test."""
    os.environ["PYTHONPATH"] = REPO
    if sys.path[0] != REPO:
        sys.path.insert(0, REPO)
    for m in [m for m in sys.modules if m == "deap" or m.startswith("deap.")]:
        del sys.modules[m]
    import deap  # noqa
    got = os.path.realpath(os.path.dirname(os.path.dirname(deap.__file__)))
    if got != os.path.realpath(REPO):
        raise RuntimeError("deap imported from %s, expected %s" % (got, REPO))
    return deap


# ----------------------------------------------------------------------------
# Coq literals
# ----------------------------------------------------------------------------
def cz(i):
    i = int(i)
    return "(%d)%%Z" % i if i < 0 else "%d%%Z" % i


def cnat(i):
    i = int(i)
    assert i >= 0
    return "%d%%nat" % i


def cN(i):
    assert int(i) >= 0
    return "%d%%N" % int(i)


def cbool(b):
    return "true" if b else "false"


def clist(items):
    return "[" + "; ".join(items) + "]"


def czl(l):
    return clist([cz(x) for x in l])


def cnatl(l):
    return clist([cnat(x) for x in l])


def cbl(l):
    return clist([cbool(x) for x in l])


def copt(x, f):
    return "None" if x is None else "(Some %s)" % f(x)


def cpair(a, b):
    return "(%s, %s)" % (a, b)


def cq(x):
    """Fraction / int / exactly-representable float -> Coq Q literal."""
    fr = Fraction(x)
    n, d = fr.numerator, fr.denominator
    return "(%s # %d)" % ("(%d)" % n if n < 0 else "%d" % n, d)


def cstr(s):
    return '"' + s.replace('"', '""') + '"%string'


def cfloat(x):
    """Python float -> Coq primitive float literal (bit exact)."""
    x = float(x)
    if x != x:
        return "nan%float"
    if x == float("inf"):
        return "infinity%float"
    if x == float("-inf"):
        return "neg_infinity%float"
    h = x.hex()
    return "(%s)%%float" % h


# ----------------------------------------------------------------------------
# Build
# ----------------------------------------------------------------------------
class BuildLock:
    def __enter__(self):
        os.makedirs(BUILD, exist_ok=True)
        self.f = open(os.path.join(BUILD, ".lock"), "w")
        fcntl.flock(self.f, fcntl.LOCK_EX)
        return self

    def __exit__(self, *a):
        fcntl.flock(self.f, fcntl.LOCK_UN)
        self.f.close()


def coq_sources():
    out = []
    for d in COQ_DIRS:
        p = os.path.join(COQ, d)
        if os.path.isdir(p):
            for f in sorted(os.listdir(p)):
                if f.endswith(".v"):
                    out.append("%s/%s" % (d, f))
    return out


def ensure_makefile():
    """(Re)generate _CoqProject and Makefile when the set of source files changed. Call under BuildLock."""
    srcs = coq_sources()
    proj = "-Q . DV\n-arg -w -arg -notation-overridden,-deprecated-hint-without-locality,-deprecated-instance-without-locality\n" + "\n".join(srcs) + "\n"
    pp = os.path.join(COQ, "_CoqProject")
    old = open(pp).read() if os.path.exists(pp) else None
    if old != proj or not os.path.exists(os.path.join(COQ, "Makefile")):
        open(pp, "w").write(proj)
        subprocess.run(["coq_makefile", "-f", "_CoqProject", "-o", "Makefile"], cwd=COQ,
                       check=True, stdout=subprocess.DEVNULL, stderr=subprocess.DEVNULL)


def make_targets(targets, timeout=3000, jobs=NCPU):
    """make the given .vo targets. Returns (ok, output)."""
    with BuildLock():
        ensure_makefile()
        p = subprocess.run(["timeout", str(timeout), "make", "-j%d" % jobs] + targets, cwd=COQ,
                           stdout=subprocess.PIPE, stderr=subprocess.STDOUT, text=True)
    return p.returncode == 0, p.stdout


def coqc_file(path, timeout=1200, cwd=None):
    p = subprocess.run(["timeout", str(timeout), "coqc", "-Q", COQ, "DV", "-w",
                        "-notation-overridden,-deprecated-hint-without-locality,-deprecated-instance-without-locality", path],
                       cwd=cwd or os.path.dirname(path), stdout=subprocess.PIPE, stderr=subprocess.STDOUT, text=True)
    return p.returncode, p.stdout


# ----------------------------------------------------------------------------
# Known findings
# ----------------------------------------------------------------------------
def load_known():
    """KNOWN_FINDINGS.json plus per-property fragments known_findings/Cxx.json (same format)."""
    out = []
    files = [os.path.join(VERIF, "KNOWN_FINDINGS.json")]
    d = os.path.join(VERIF, "known_findings")
    if os.path.isdir(d):
        files += [os.path.join(d, f) for f in sorted(os.listdir(d)) if f.endswith(".json")]
    seen = set()
    for p in files:
        if os.path.exists(p):
            for k in json.load(open(p)).get("findings", []):
                key = (k.get("property"), k.get("signature"))
                if key not in seen:
                    seen.add(key)
                    out.append(k)
    return out


# ----------------------------------------------------------------------------
# One run of one property check
# ----------------------------------------------------------------------------
class Run:
    def __init__(self, pid, tier="quick", seed=0):
        self.pid = pid
        self.tier = tier
        self.seed = int(seed)
        self.rng = random.Random("%s:%d" % (pid, self.seed))
        self.t0 = time.time()
        self.obligations = []        # dicts: name, ok, axioms
        self.broken = []             # names of obligations / files that no longer check
        self.disagreements = []      # correspondence disagreements (dicts)
        self.oracle_viol = []        # concrete failing inputs on the implementation (dicts)
        self.known_hits = {}         # signature -> count
        self.samples = []
        self.case_keys = set()
        self.evaluations = 0
        self.nontrivial = 0
        self.traces = 0
        self.corr_groups = {}
        self.notes = []
        self.assumptions = []
        self.trusted = []
        self.rule = ""
        self.extra_cov = {}
        self.level = "proof"
        self.search_fn = None        # optional: extra counterexample search, run only when something broke
        self.rundir = os.path.join(BUILD, "run_%s_%d" % (pid, os.getpid()))
        os.makedirs(self.rundir, exist_ok=True)
        self.known = [k for k in load_known() if k.get("property") == pid]
        self.checker_cmd = ""

    @property
    def thorough(self):
        return self.tier == "thorough"

    def scale(self, quick, thorough):
        return thorough if self.thorough else quick

    # -- obligations -----------------------------------------------------
    def build_props(self, props=None, extra=(), timeout=3000):
        """Compile Props/<pid>.v and Corr/<pid>.v (and dependencies); parse Print Assumptions."""
        props = props or "Props/%s.v" % self.pid
        targets = [props + "o"] + [e + "o" for e in extra]
        corr = "Corr/%s.v" % self.pid
        if os.path.exists(os.path.join(COQ, corr)):
            targets.append(corr + "o")
        src = open(os.path.join(COQ, props)).read()
        thms = re.findall(r"^\s*(?:Theorem|Lemma|Corollary)\s+([A-Za-z0-9_']+)", src, re.M)
        printed = re.findall(r"^\s*Print Assumptions\s+([A-Za-z0-9_'.]+)\s*\.", src, re.M)
        self.checker_cmd = (self.checker_cmd + " ; " if self.checker_cmd else "") + \
            "make -C coq %s  (coqc 8.16.1, full .vo build) + coqc coq/%s for Print Assumptions" % (" ".join(targets), props)
        ok, out = make_targets(targets, timeout=timeout)
        for attempt in range(2):
            if ok or re.search(r'File "[^"]+", line \d+', out):
                break
            time.sleep(10)      # make died without a Coq error location (killed / resources): try again
            ok, out = make_targets(targets, timeout=timeout)
        if not ok:
            m = re.findall(r'File "\./([^"]+)", line (\d+)', out)
            where = ["%s:%s" % x for x in m] or ["build"]
            self.broken.append({"kind": "obligation_broken", "where": where, "log": out[-3000:]})
            for t in thms:
                self.obligations.append({"name": t, "ok": False, "axioms": None})
            return False
        # re-run coqc on the property file alone to capture Print Assumptions
        rc, out = coqc_file(os.path.join(COQ, props), cwd=COQ)
        if rc != 0:
            self.broken.append({"kind": "obligation_broken", "where": [props], "log": out[-3000:]})
            for t in thms:
                self.obligations.append({"name": t, "ok": False, "axioms": None})
            return False
        blocks = re.split(r"(?m)^(?=Closed under the global context|Axioms:)", out)
        blocks = [b for b in blocks if b.startswith("Closed under") or b.startswith("Axioms:")]
        ax_by_thm = {}
        for name, b in zip(printed, blocks):
            if b.startswith("Closed"):
                ax_by_thm[name] = []
            else:
                ax_by_thm[name] = re.findall(r"(?m)^([A-Za-z_][A-Za-z0-9_'.]*)\s*:", b[len("Axioms:"):])
        if len(blocks) != len(printed):
            self.notes.append("Print Assumptions blocks %d != commands %d" % (len(blocks), len(printed)))
        for t in thms:
            self.obligations.append({"name": t, "ok": True, "axioms": ax_by_thm.get(t)})
        return True

    # -- cases -------------------------------------------------------------
    def note_case(self, key, nontrivial=True, sample=None):
        """Record one explored case for the coverage counters."""
        self.evaluations += 1
        k = hashlib.sha1(repr(key).encode()).hexdigest()
        if k not in self.case_keys:
            self.case_keys.add(k)
            if nontrivial:
                self.nontrivial += 1
        if sample is not None and len(self.samples) < 6:
            self.samples.append(sample)

    def oracle_violation(self, what, case, signature=None, observed=None):
        """A concrete input on which the implementation violates the property statement."""
        for k in self.known:
            if signature is not None and k.get("signature") == signature:
                self.known_hits[signature] = self.known_hits.get(signature, 0) + 1
                return
        if len(self.oracle_viol) < 50:
            self.oracle_viol.append({"what": what, "case": case, "signature": signature, "observed": observed})
        else:
            self.oracle_viol.append(None)

    # -- correspondence --------------------------------------------------------
    def correspond(self, group, module, terms, cases=None, check="check", requires=(), shard=400,
                   timeout=1500, preamble=""):
        """Evaluate `check` of DV.Corr.<module> on the Coq terms; returns failing indices."""
        n = len(terms)
        if n == 0:
            return []
        files = []
        for s in range(0, n, shard):
            fn = os.path.join(self.rundir, "cases_%s_%s_%d.v" % (self.pid, group, s // shard))
            with open(fn, "w") as f:
                f.write("From Coq Require Import List ZArith QArith NArith Bool String.\n")
                f.write("From DV Require Import Base.Corr Corr.%s.\n" % module)
                for r in requires:
                    f.write("%s\n" % r)
                f.write("Import ListNotations.\nOpen Scope Z_scope.\n")
                f.write(preamble + "\n")
                f.write("Definition cases : list _ := [\n")
                f.write(";\n".join(terms[s:s + shard]))
                f.write("\n].\n")
                f.write("Eval vm_compute in (failing %s cases).\n" % check)
            files.append((s, fn))
        procs = []
        failing = []
        errors = []
        # run shards in parallel
        pending = list(files)
        running = []
        while pending or running:
            while pending and len(running) < NCPU:
                s, fn = pending.pop(0)
                p = subprocess.Popen(["timeout", str(timeout), "coqc", "-Q", COQ, "DV", "-w", "none", fn],
                                     cwd=self.rundir, stdout=subprocess.PIPE, stderr=subprocess.STDOUT, text=True)
                running.append((s, fn, p))
            s, fn, p = running.pop(0)
            out, _ = p.communicate()
            tries = 0
            while p.returncode != 0 and "Error" not in out and tries < 3:
                # killed / out of memory / timed out without a Coq error: not a verdict, run it again alone
                tries += 1
                time.sleep(5 * tries)
                p = subprocess.Popen(["timeout", str(timeout * 2), "coqc", "-Q", COQ, "DV", "-w", "none", fn],
                                     cwd=self.rundir, stdout=subprocess.PIPE, stderr=subprocess.STDOUT, text=True)
                out, _ = p.communicate()
            if p.returncode != 0:
                errors.append({"file": fn, "log": out[-2000:]})
                continue
            m = re.search(r"=\s*(\[.*?\])\s*:\s*list N", out, re.S)
            if not m:
                errors.append({"file": fn, "log": out[-2000:]})
                continue
            for x in re.findall(r"(\d+)%N", m.group(1)):
                failing.append(s + int(x))
        g = self.corr_groups.setdefault(group, {"cases": 0, "disagree": 0, "errors": 0})
        g["cases"] += n
        g["disagree"] += len(failing)
        g["errors"] += len(errors)
        self.traces += n - len(failing) if not errors else 0
        for i in failing[:20]:
            self.disagreements.append({"group": group, "index": i, "term": terms[i][:4000],
                                       "case": (cases[i] if cases is not None else None)})
        for e in errors[:3]:
            self.disagreements.append({"group": group, "index": None, "coq_error": e})
        if not failing and not errors:
            # keep the run directory small
            for _, fn in files:
                for ext in ("", "o", "ok", "os"):
                    try:
                        os.remove(fn + ext if ext else fn)
                    except OSError:
                        pass
                for suffix in (".glob", ".aux"):
                    try:
                        os.remove(fn[:-2] + suffix)
                    except OSError:
                        pass
        return failing

    # -- verdict -------------------------------------------------------------
    def write_replay(self, payload):
        d = os.path.join(VERIF, "replays", self.pid)
        os.makedirs(d, exist_ok=True)
        blob = json.dumps(payload, indent=1, sort_keys=True, default=repr)
        h = hashlib.sha1(blob.encode()).hexdigest()[:12]
        p = os.path.join(d, "%s.json" % h)
        open(p, "w").write(blob)
        return p

    def coqchk(self, timeout=2400):
        """Thorough tier: re-check the compiled property files and the correspondence runner of this property (and all they
        depend on, standard library included) with the independent checker coqchk, and record the axioms it reports.
        A coqchk error is a broken obligation; a run that was killed / timed out without an error is only noted."""
        if self.pid == "C17" or not self.obligations or any(not o["ok"] for o in self.obligations):
            return          # C17 runs its own coqchk step; nothing to re-check when the build itself is broken
        if self.pid == "C20":
            # measured: the closure of C20 contains Reals, Interval, Flocq and Coquelicot; a full coqchk run did not finish in
            # four hours, and admitting those libraries (-admit / -norec) runs into a coqchk anomaly about universes
            self.notes.append("coqchk not run for C20 (closure with Interval/Flocq/Coquelicot does not finish within hours); "
                              "checked by coqc only")
            return
        import glob
        mods = []
        for d in ("Props", "Corr"):
            for f in sorted(glob.glob(os.path.join(COQ, d, self.pid + "*.v"))):
                if os.path.exists(f + "o"):
                    mods.append("DV.%s.%s" % (d, os.path.basename(f)[:-2]))
        if not mods:
            return
        t0 = time.time()
        with BuildLock():       # nothing may rewrite .vo files while they are being read
            p = subprocess.run(["timeout", str(timeout), "coqchk", "-silent", "-o", "-Q", COQ, "DV"] + mods,
                               stdout=subprocess.PIPE, stderr=subprocess.STDOUT, text=True)
        out = p.stdout
        m = re.search(r"\* Axioms:(.*?)\* Constants/Inductives relying on type-in-type:(.*?)\* Constants/Inductives relying on unsafe"
                      r".*?:(.*?)\* Inductives whose positivity is assumed:(.*)", out, re.S)
        info = {"rc": p.returncode, "seconds": round(time.time() - t0, 1), "modules": mods}
        if m:
            info["axioms"] = m.group(1).split()
            info["type_in_type"], info["unsafe_fixpoints"], info["assumed_positivity"] = (m.group(i).strip() for i in (2, 3, 4))
        self.extra_cov["coqchk"] = info
        self.checker_cmd = (self.checker_cmd + " ; " if self.checker_cmd else "") + "coqchk -silent -o -Q coq DV " + " ".join(mods)
        if p.returncode not in (0, 124, 137, -9) or (m and any(info[k] != "<none>" for k in ("type_in_type", "unsafe_fixpoints", "assumed_positivity"))):
            self.broken.append({"kind": "obligation_broken", "where": ["coqchk " + " ".join(mods)], "log": out[-2000:]})
        elif p.returncode != 0:
            self.notes.append("coqchk did not complete (killed / timed out without an error); not a verdict")

    def finish(self):
        if self.tier == "thorough":
            try:
                self.coqchk()
            except Exception:
                self.notes.append("coqchk step raised: " + traceback.format_exc()[-800:])
        viol_lines = []
        broke = bool(self.broken) or bool(self.disagreements)
        if broke and not self.oracle_viol and self.search_fn is not None:
            try:
                self.search_fn(self)
            except Exception:
                self.notes.append("search_fn raised: " + traceback.format_exc()[-1500:])
        real = [v for v in self.oracle_viol if v is not None]
        if real:
            p = self.write_replay({"property": self.pid, "kind": "failing-input", "seed": self.seed,
                                   "tier": self.tier, "repo": REPO,
                                   "violations": real[:10], "total": len(self.oracle_viol),
                                   "broken_obligations": self.broken, "disagreements": self.disagreements[:5],
                                   "replay": "cd /verif && VERIF_SEED=%d ./check %s --tier %s" % (self.seed, self.pid, self.tier)})
            viol_lines.append("VIOLATION property=%s replay=%s" % (self.pid, p))
        elif broke:
            p = self.write_replay({"property": self.pid, "kind": "no-failing-input-found", "seed": self.seed,
                                   "tier": self.tier, "repo": REPO,
                                   "no_longer_checks": [b["where"] for b in self.broken] +
                                                       ["correspondence %s case %s" % (d.get("group"), d.get("index")) for d in self.disagreements[:10]],
                                   "broken_obligations": self.broken, "disagreements": self.disagreements[:10],
                                   "replay": "cd /verif && VERIF_SEED=%d ./check %s --tier %s" % (self.seed, self.pid, self.tier)})
            viol_lines.append("VIOLATION property=%s replay=%s no-failing-input-found" % (self.pid, p))
        for k in self.known:
            # a known finding is printed on every run (its witness is replayed by the property module,
            # which reports hits through oracle_violation(signature=...))
            print("KNOWN-FINDING: property=%s %s (signature %s, seen %d times this run)" %
                  (self.pid, k.get("what", ""), k.get("signature"), self.known_hits.get(k.get("signature"), 0)))
        nob = len(self.obligations)
        ndis = len([o for o in self.obligations if o["ok"]])
        axioms = sorted({a for o in self.obligations if o["axioms"] for a in o["axioms"]})
        cov = {
            "obligations": max(nob, 0),
            "discharged": ndis,
            "checker_cmd": self.checker_cmd or "none",
            "trusted_base": self.trusted + ["axioms reported by Print Assumptions: %s" % (", ".join(axioms) if axioms else "none (closed under the global context)")],
            "theorems": [{"name": o["name"], "checked": o["ok"], "axioms": o["axioms"]} for o in self.obligations],
            "evaluations": self.evaluations,
            "distinct_nontrivial": self.nontrivial,
            "rule": self.rule,
            "samples": self.samples[:6],
            "traces_validated_against_impl": self.traces,
            "correspondence": self.corr_groups,
            "correspondence_disagreements": len(self.disagreements),
            "oracle_violations": len(self.oracle_viol),
            "known_finding_hits": self.known_hits,
            "broken_obligations": [b["where"] for b in self.broken],
            "notes": self.notes,
        }
        cov.update(self.extra_cov)
        if self.level not in ("exploration", "fault_enumeration", "model_checking", "proof", "translation_validation", "other"):
            cov["level_detail"] = str(self.level)      # e.g. "partial": kept as a note; the schema level stays "proof"
            self.level = "proof"
        ev = {
            "property_id": self.pid, "tier": self.tier, "seed": self.seed, "level": self.level,
            "coverage": cov, "assumptions": self.assumptions,
            "wall_s": round(time.time() - self.t0, 2), "violations": len(viol_lines),
        }
        evdir = os.environ.get("VERIF_EVIDENCE_DIR") or os.path.join(VERIF, "evidence")
        os.makedirs(evdir, exist_ok=True)
        with open(os.path.join(evdir, "%s.json" % self.pid), "w") as f:
            json.dump(ev, f, indent=1, sort_keys=True, default=repr)
            f.write("\n")
        # the generated case files (and their .vo/.glob) are scratch: disk space is limited, so they go as soon as the run is
        # over; after a violation the directory is kept for inspection (VERIF_KEEP_RUN=1 keeps it always), and older
        # directories of this property are pruned either way (the replay file is what a report refers to)
        try:
            import shutil
            keep = bool(viol_lines) or os.environ.get("VERIF_KEEP_RUN") == "1"
            if not keep:
                shutil.rmtree(self.rundir, ignore_errors=True)
            import glob as _glob
            old = sorted((d for d in _glob.glob(os.path.join(BUILD, "run_%s_*" % self.pid)) if d != self.rundir),
                         key=os.path.getmtime)
            for d in old[:-2]:
                if time.time() - os.path.getmtime(d) > 3600:
                    shutil.rmtree(d, ignore_errors=True)
        except OSError:
            pass
        for l in viol_lines:
            print(l)
        print("%s tier=%s seed=%d: obligations %d/%d, cases %d (distinct non-trivial %d), model/impl traces agreeing %d, "
              "disagreements %d, oracle violations %d, %.1fs" %
              (self.pid, self.tier, self.seed, ndis, nob, self.evaluations, self.nontrivial, self.traces,
               len(self.disagreements), len(self.oracle_viol), time.time() - self.t0))
        sys.stdout.flush()
        return 1 if viol_lines else 0


def guarded(fn, *a, **k):
    """Run implementation code; exceptions become ('raise', ExceptionName)."""
    try:
        return ("ok", fn(*a, **k))
    except Exception as e:  # noqa
        return ("raise", type(e).__name__)
