"""Worker process for the C15 check: runs the hypervolume implementations of $VERIF_REPO on a job file.

All implementation code (the rebuilt C extension, pyhv, the wrappers) runs here and not in the checking
process, so that a segmentation fault or an endless loop in a (mutated) implementation becomes a reported
failing input instead of killing the check.

usage: c15_worker.py JOBS.jsonl OUT.jsonl HV_SO_PATH|-
Each job is a JSON object; before every back-end call a marker line "#<index> <backend>" is written, after the
job a line [index, {backend: result}].
"""
import importlib
import importlib.util
import json
import math
import os
import sys
import warnings


def load_ext(path):
    spec = importlib.util.spec_from_file_location("hv", path)
    mod = importlib.util.module_from_spec(spec)
    spec.loader.exec_module(mod)
    return mod


def ok(v):
    v = float(v)
    if math.isnan(v) or math.isinf(v):
        return ["err", "returned %r" % (v,)]
    return ["ok", v]


def err(e):
    return ["err", "raised %s: %s" % (type(e).__name__, str(e)[:200])]


class Recorder:
    """Stands in for the `hv` module attribute of a wrapper module; records what the back-end returned."""

    def __init__(self, real):
        self.real = real
        self.log = []

    def hypervolume(self, pts, ref):
        v = self.real.hypervolume(pts, ref)
        self.log.append(v)
        return v


def main():
    jobs_path, out_path, so_path = sys.argv[1:4]
    repo = os.environ.get("VERIF_REPO", "/repo")
    sys.path.insert(0, repo)
    warnings.simplefilter("ignore")
    import numpy
    import deap
    got = os.path.realpath(os.path.dirname(os.path.dirname(deap.__file__)))
    if got != os.path.realpath(repo):
        raise RuntimeError("deap imported from %s, expected %s" % (got, repo))
    from deap import base
    pyhv = importlib.import_module("deap.tools._hypervolume.pyhv")
    indmod = importlib.import_module("deap.tools.indicator")
    benchmod = importlib.import_module("deap.benchmarks.tools")
    mods = {"py": pyhv}
    if so_path != "-":
        mods["c"] = load_ext(so_path)

    fitcls = {}

    class Ind(list):
        pass

    def population(w, vals):
        key = tuple(w)
        if key not in fitcls:
            fitcls[key] = type("FitC15_%d" % len(fitcls), (base.Fitness,), {"weights": tuple(w)})
        pop = []
        for v in vals:
            ind = Ind(v)
            ind.fitness = fitcls[key]()
            ind.fitness.values = tuple(v)
            pop.append(ind)
        return pop

    def run_hv(job, be):
        mod = mods[be]
        pts, ref = job["pts"], job["ref"]
        try:
            if job.get("aslist") and (be != "py" or not any(ref)):
                # pyhv subtracts the reference in place (numpy) unless it is the origin; plain lists work then
                v = mod.hypervolume([list(p) for p in pts], list(ref))
            else:
                v = mod.hypervolume(numpy.array(pts, dtype=float).reshape(len(pts), len(ref)),
                                    numpy.array(ref, dtype=float))
            return ok(v)
        except Exception as e:  # noqa
            return err(e)

    def run_pop(job, be):
        mod = mods[be]
        w, vals, ref = job["w"], job["vals"], job["refo"]
        res = {}
        kw = {}
        if ref is not None:
            kw["ref"] = numpy.array(ref, dtype=float) if job.get("refarr") else list(ref)
        pop = population(w, vals)
        old = benchmod.hv
        benchmod.hv = Recorder(mod)
        try:
            try:
                v = benchmod.hypervolume(pop, kw["ref"]) if ref is not None else benchmod.hypervolume(pop)
                res["bt"] = ok(v)
            except Exception as e:  # noqa
                res["bt"] = err(e)
        finally:
            benchmod.hv = old
        old = indmod.hv
        rec = Recorder(mod)
        indmod.hv = rec
        try:
            try:
                i = indmod.hypervolume(pop, **kw)
                res["ind"] = ["ok", int(i)]
            except Exception as e:  # noqa
                res["ind"] = err(e)
        finally:
            indmod.hv = old
        res["contrib"] = [ok(x) for x in rec.log]
        return res

    with open(jobs_path) as jf, open(out_path, "w") as out:
        for idx, line in enumerate(jf):
            job = json.loads(line)
            res = {}
            for be in job["backends"]:
                if be in job.get("skip", ()):
                    continue
                if be not in mods:
                    continue
                out.write("#%d %s\n" % (idx, be))
                out.flush()
                res[be] = run_hv(job, be) if job["k"] == "hv" else run_pop(job, be)
            out.write(json.dumps([idx, res]) + "\n")
            out.flush()


if __name__ == "__main__":
    main()
