"""Worker process for the C15 check: runs the hypervolume implementations of $VERIF_REPO on a job file.

All implementation code (the rebuilt C extension, pyhv, the wrappers) runs here and not in the checking
process, so that a segmentation fault or an endless loop in a (mutated) implementation becomes a reported
failing input instead of killing the check.

usage: c15_worker.py JOBS.jsonl OUT.jsonl HV_SO_PATH|-|FALLBACK
Each job is a JSON object; before every back-end call a marker line "#<index> <backend>" is written, after the
job a line [index, {backend: result}].

With FALLBACK the import of the compiled extension is blocked BEFORE deap.tools / deap.benchmarks.tools are
imported, so the library takes its own `except ImportError` branch; the wrappers are then run unpatched
(back-end key "fb") and the result records which module the library selected.
"""
import array
import importlib
import importlib.util
import json
import math
import os
import sys
import warnings


def load_ext(path):
    spec = importlib.util.spec_from_file_location("hv", path)
    mod = importlib.util.module_from_spec(spec)
    spec.loader.exec_module(mod)
    return mod


def ok(v):
    try:
        v = float(v)
    except Exception as e:  # noqa
        return ["err", "returned a %s: %s" % (type(v).__name__, str(e)[:100])]
    if math.isnan(v) or math.isinf(v):
        return ["err", "returned %r" % (v,)]
    return ["ok", v]


def err(e):
    return ["err", "raised %s: %s" % (type(e).__name__, str(e)[:200])]


class Recorder:
    """Stands in for the `hv` module attribute of a wrapper module; records what the back-end returned."""

    def __init__(self, real):
        self.real = real
        self.log = []

    def hypervolume(self, pts, ref):
        v = self.real.hypervolume(pts, ref)
        self.log.append(v)
        return v


def nested(x):
    """Current content of an argument object as nested lists of floats (None if it cannot be read)."""
    try:
        return [[float(c) for c in row] for row in x]
    except Exception:  # noqa
        try:
            return [float(c) for c in x]
        except Exception:  # noqa
            return None


def main():
    jobs_path, out_path, so_path = sys.argv[1:4]
    repo = os.environ.get("VERIF_REPO", "/repo")
    sys.path.insert(0, repo)
    warnings.simplefilter("ignore")
    import numpy
    fallback = so_path == "FALLBACK"
    if fallback:
        sys.modules["deap.tools._hypervolume.hv"] = None          # `from ._hypervolume import hv` -> ImportError
    import deap
    got = os.path.realpath(os.path.dirname(os.path.dirname(deap.__file__)))
    if got != os.path.realpath(repo):
        raise RuntimeError("deap imported from %s, expected %s" % (got, repo))
    from deap import base
    import deap.tools as toolsmod
    pyhv = importlib.import_module("deap.tools._hypervolume.pyhv")
    indmod = importlib.import_module("deap.tools.indicator")
    benchmod = importlib.import_module("deap.benchmarks.tools")
    mods = {"py": pyhv}
    if fallback:
        mods = {"fb": None}
    elif so_path != "-":
        mods["c"] = load_ext(so_path)

    fitcls = {}

    class Ind(list):
        pass

    def conv(x, kind):
        if kind == "int":
            return int(x)
        if kind == "npfloat64":
            return numpy.float64(x)
        if kind == "npfloat32":
            return numpy.float32(x)
        if kind == "npint":
            return numpy.int64(int(x))
        return float(x)

    def fitness_class(w, wtype):
        key = (tuple(w), wtype)
        if key not in fitcls:
            ws = tuple(int(x) for x in w) if wtype == "int" else tuple(float(x) for x in w)
            fitcls[key] = type("FitC15_%d" % len(fitcls), (base.Fitness,), {"weights": ws})
        return fitcls[key]

    def population(w, vals, wtype="float", valtype="float", sameobj=()):
        cls = fitness_class(w, wtype)
        pop = []
        for v in vals:
            ind = Ind(v)
            ind.fitness = cls()
            ind.fitness.values = tuple(conv(x, valtype) for x in v)
            pop.append(ind)
        for a, b in sameobj:          # the very same individual object at two positions
            pop[b] = pop[a]
        return pop

    # ------------------------------------------------------------------ direct calls
    def build_args(job):
        pts, ref, form = job["pts"], job["ref"], job.get("form", "arr")
        n, d = len(pts), len(ref)
        r = numpy.array(ref, dtype=float)
        if form == "list":
            return [list(p) for p in pts], list(ref)
        if form == "tuple":
            return tuple(tuple(p) for p in pts), tuple(ref)
        if form == "intlist":
            return [[int(c) for c in p] for p in pts], [int(c) for c in ref]
        if form == "npscalars":
            return [[numpy.float64(c) for c in p] for p in pts], [numpy.float64(c) for c in ref]
        if form == "i64":
            return numpy.array([[int(c) for c in p] for p in pts], dtype=numpy.int64).reshape(n, d), r
        if form == "i64i64":
            return (numpy.array([[int(c) for c in p] for p in pts], dtype=numpy.int64).reshape(n, d),
                    numpy.array([int(c) for c in ref], dtype=numpy.int64))
        if form == "f32":
            return numpy.array(pts, dtype=numpy.float32).reshape(n, d), r
        if form == "fortran":
            return numpy.asfortranarray(numpy.array(pts, dtype=float).reshape(n, d)), r
        if form == "strided":
            big = numpy.full((2 * n + 1, 2 * d + 1), 7.5)
            big[1::2, 1::2] = numpy.array(pts, dtype=float).reshape(n, d)
            return big[1::2, 1::2], r
        if form == "refview":
            a = numpy.array(list(pts) + [list(ref)], dtype=float)      # the reference point is also a point
            return a, a[n]
        if form == "arrayd":
            return [array.array("d", p) for p in pts], r
        if form == "arrayrow_list":
            return [numpy.array(p, dtype=float) for p in pts], list(ref)
        return numpy.array(pts, dtype=float).reshape(n, d), r

    def run_hv(job, be):
        mod = mods[be]
        try:
            a, r = build_args(job)
        except Exception as e:  # noqa
            return {"v": [["err", "harness could not build the arguments: %s" % e]], "keep": True}
        vals = []
        for _ in range(2 if job.get("twice") else 1):
            try:
                vals.append(ok(mod.hypervolume(a, r)))
            except Exception as e:  # noqa
                vals.append(err(e))
        b, rr = build_args(job)
        keep = nested(a) == nested(b) and nested(r) == nested(rr)
        return {"v": vals, "keep": keep}

    def run_hvseq(job, be):
        """One pyhv._HyperVolume instance computing several fronts in a row (state kept in self.list)."""
        out = []
        try:
            inst = pyhv._HyperVolume(numpy.array(job["ref"], dtype=float))
        except Exception as e:  # noqa
            return [err(e)]
        for pts in job["fronts"]:
            try:
                out.append(ok(inst.compute(numpy.array(pts, dtype=float).reshape(len(pts), len(job["ref"])))))
            except Exception as e:  # noqa
                out.append(err(e))
        return out

    def run_probe(job, be):
        """Error paths of hv.cpp / pyhv: only 'does not kill the interpreter' is of interest."""
        mod = mods[be]
        out = []
        for a, r in ([7.0, [1.0]], [[1.0, 2.0], [3.0, 3.0]], [[[1.0, 2.0]], [3.0]], [[[1.0, 2.0]], 5.0],
                     [[[1.0, "x"]], [3.0, 3.0]], [[[1.0, 2.0], 3.0], [3.0, 3.0]]):
            try:
                mod.hypervolume(a, r)
                out.append("returned")
            except Exception as e:  # noqa
                out.append(type(e).__name__)
        return out

    # ------------------------------------------------------------------ wrappers
    def ref_object(job):
        ref, form = job["refo"], job.get("refform", "arr")
        if ref is None:
            return None
        if form == "list":
            return list(ref)
        if form == "tuple":
            return tuple(ref)
        if form == "intarr":
            return numpy.array([int(c) for c in ref], dtype=numpy.int64)
        return numpy.array(ref, dtype=float)

    def call_wrappers(pop, refobj, explicit_none, route, mod, times):
        """benchmarks.tools.hypervolume and tools.indicator.hypervolume, `times` times on the same objects."""
        res = {"bt": [], "ind": [], "contrib": []}
        indfn = toolsmod.hypervolume if route == "alias" else indmod.hypervolume
        for _ in range(times):
            old = benchmod.hv
            if mod is not None:
                benchmod.hv = Recorder(mod)
            try:
                try:
                    if refobj is not None:
                        v = benchmod.hypervolume(pop, refobj)
                    elif explicit_none:
                        v = benchmod.hypervolume(pop, None)
                    else:
                        v = benchmod.hypervolume(pop)
                    res["bt"].append(ok(v))
                except Exception as e:  # noqa
                    res["bt"].append(err(e))
            finally:
                benchmod.hv = old
            old = indmod.hv
            rec = Recorder(mod if mod is not None else old)
            indmod.hv = rec
            try:
                try:
                    if refobj is not None:
                        i = indfn(pop, ref=refobj)
                    elif explicit_none:
                        i = indfn(pop, ref=None)
                    else:
                        i = indfn(pop)
                    res["ind"].append(["ok", int(i)])
                except Exception as e:  # noqa
                    res["ind"].append(err(e))
            finally:
                indmod.hv = old
            res["contrib"].append([ok(x) for x in rec.log])
        return res

    def run_pop(job, be):
        mod = mods[be]
        pop = population(job["w"], job["vals"], job.get("wtype", "float"), job.get("valtype", "float"),
                         job.get("sameobj", ()))
        refobj = ref_object(job)
        before = ([[float(x) for x in ind.fitness.wvalues] for ind in pop], nested(refobj) if refobj is not None else None,
                  [list(ind) for ind in pop])
        res = call_wrappers(pop, refobj, job.get("explicit_none", False), job.get("route", "module"), mod,
                            2 if job.get("twice") else 1)
        after = ([[float(x) for x in ind.fitness.wvalues] for ind in pop], nested(refobj) if refobj is not None else None,
                 [list(ind) for ind in pop])
        res["keep"] = before == after
        if be == "fb":
            res["selected"] = [getattr(indmod.hv, "__name__", "?"), getattr(benchmod.hv, "__name__", "?")]
        return res

    def run_popseq(job, be):
        """One population object used in a sequence: call, change a fitness, call again, ..."""
        mod = mods[be]
        pop = population(job["w"], job["vals"], job.get("wtype", "float"), job.get("valtype", "float"))
        refobj = ref_object(job)
        out = [call_wrappers(pop, refobj, False, "module", mod, 1)]
        for op in job["ops"]:
            if op[0] == "set":
                pop[op[1]].fitness.values = tuple(float(x) for x in op[2])
            elif op[0] == "delset":
                del pop[op[1]].fitness.values
                pop[op[1]].fitness.values = tuple(float(x) for x in op[2])
            elif op[0] == "swap":
                pop[op[1]], pop[op[2]] = pop[op[2]], pop[op[1]]
            elif op[0] == "pop":
                pop.pop(op[1])
            elif op[0] == "append":
                ind = Ind(op[1])
                ind.fitness = fitness_class(job["w"], job.get("wtype", "float"))()
                ind.fitness.values = tuple(float(x) for x in op[1])
                pop.append(ind)
            out.append(call_wrappers(pop, refobj, False, "module", mod, 1))
        return out

    runners = {"hv": run_hv, "hvseq": run_hvseq, "probe": run_probe, "pop": run_pop, "popseq": run_popseq}
    with open(jobs_path) as jf, open(out_path, "w") as out:
        for idx, line in enumerate(jf):
            job = json.loads(line)
            res = {}
            for be in job["backends"]:
                if be in job.get("skip", ()):
                    continue
                if be not in mods:
                    continue
                out.write("#%d %s\n" % (idx, be))
                out.flush()
                res[be] = runners[job["k"]](job, be)
            out.write(json.dumps([idx, res]) + "\n")
            out.flush()


if __name__ == "__main__":
    main()
