"""C20 oracle: the published benchmark formulas, transcribed by hand from the docstrings of
deap/benchmarks/* and the cited papers -- index style, independent of the code's zip/slice/reduce
structure (and of the Coq model).  Plain Python floats with math.fsum; compared with the
implementation within 1e-9 * (1 + |value|).  Binary functions use exact integers; bin2float uses
fractions.
"""
import math
from fractions import Fraction
from math import sin, cos, exp, sqrt, pi, e, fsum


def S(terms):
    return fsum(terms)


def PROD(terms):
    r = 1.0
    for t in terms:
        r *= t
    return r


# ---------------- single objective ----------------
def plane(x):
    return [x[0]]


def sphere(x):
    return [S(x[i] ** 2 for i in range(len(x)))]


def cigar(x):
    return [x[0] ** 2 + 10 ** 6 * S(x[i] ** 2 for i in range(1, len(x)))]


def rosenbrock(x):
    n = len(x)
    return [S((1 - x[i]) ** 2 + 100 * (x[i + 1] - x[i] ** 2) ** 2 for i in range(n - 1))]


def h1(x):
    x1, x2 = x[0], x[1]
    return [(sin(x1 - x2 / 8) ** 2 + sin(x2 + x1 / 8) ** 2) / (sqrt((x1 - 8.6998) ** 2 + (x2 - 6.7665) ** 2) + 1)]


def ackley(x):
    n = len(x)
    return [20 - 20 * exp(-0.2 * sqrt(S(v ** 2 for v in x) / n)) + e - exp(S(cos(2 * pi * v) for v in x) / n)]


def bohachevsky(x):
    n = len(x)
    return [S(x[i] ** 2 + 2 * x[i + 1] ** 2 - 0.3 * cos(3 * pi * x[i]) - 0.4 * cos(4 * pi * x[i + 1]) + 0.7
              for i in range(n - 1))]


def griewank(x):
    n = len(x)
    return [S(v ** 2 for v in x) / 4000 - PROD(cos(x[i - 1] / sqrt(i)) for i in range(1, n + 1)) + 1]


def rastrigin(x):
    n = len(x)
    return [10 * n + S(v ** 2 - 10 * cos(2 * pi * v) for v in x)]


def rastrigin_scaled(x):
    n = len(x)
    out = []
    for i in range(1, n + 1):
        s = 10 ** ((i - 1) / (n - 1))
        out.append((s * x[i - 1]) ** 2 - 10 * cos(2 * pi * s * x[i - 1]))
    return [10 * n + S(out)]


def rastrigin_skew(x):
    n = len(x)
    y = [10 * v if v > 0 else v for v in x]
    return [10 * n + S(v ** 2 - 10 * cos(2 * pi * v) for v in y)]


def schaffer(x):
    n = len(x)
    out = []
    for i in range(n - 1):
        r = x[i] ** 2 + x[i + 1] ** 2
        out.append(r ** 0.25 * (sin(50 * r ** 0.10) ** 2 + 1.0))
    return [S(out)]


def schwefel(x):
    n = len(x)
    return [418.9828872724339 * n - S(v * sin(sqrt(abs(v))) for v in x)]


def himmelblau(x):
    x1, x2 = x[0], x[1]
    return [(x1 ** 2 + x2 - 11) ** 2 + (x1 + x2 ** 2 - 7) ** 2]


def shekel(x, a, c):
    return [S(1.0 / (c[i] + S((x[j] - a[i][j]) ** 2 for j in range(len(a[i])))) for i in range(len(c)))]


# ---------------- multi objective ----------------
def kursawe(x):
    n = len(x)
    f1 = S(-10 * exp(-0.2 * sqrt(x[i] ** 2 + x[i + 1] ** 2)) for i in range(n - 1))
    f2 = S(abs(v) ** 0.8 + 5 * sin(v ** 3) for v in x)
    return [f1, f2]


def schaffer_mo(x):
    return [x[0] ** 2, (x[0] - 2) ** 2]


def _zdt_g(x):
    n = len(x)
    return 1 + 9 / (n - 1) * S(x[i] for i in range(1, n))


def zdt1(x):
    g = _zdt_g(x)
    return [x[0], g * (1 - sqrt(x[0] / g))]


def zdt2(x):
    g = _zdt_g(x)
    return [x[0], g * (1 - (x[0] / g) ** 2)]


def zdt3(x):
    g = _zdt_g(x)
    return [x[0], g * (1 - sqrt(x[0] / g) - x[0] / g * sin(10 * pi * x[0]))]


def zdt4(x):
    n = len(x)
    g = 1 + 10 * (n - 1) + S(x[i] ** 2 - 10 * cos(4 * pi * x[i]) for i in range(1, n))
    return [x[0], g * (1 - sqrt(x[0] / g))]


def zdt6(x):
    n = len(x)
    g = 1 + 9 * (S(x[i] for i in range(1, n)) / (n - 1)) ** 0.25
    f1 = 1 - exp(-4 * x[0]) * sin(6 * pi * x[0]) ** 6
    return [f1, g * (1 - (f1 / g) ** 2)]


def _g13(xm):
    return 100 * (len(xm) + S((v - 0.5) ** 2 - cos(20 * pi * (v - 0.5)) for v in xm))


def _g2(xm):
    return S((v - 0.5) ** 2 for v in xm)


def dtlz1(x, m):
    g = _g13(x[m - 1:])
    f = []
    for k in range(1, m + 1):          # objective k, 1-based as in the paper
        v = 0.5 * (1 + g) * PROD(x[i] for i in range(0, m - k))
        if k > 1:
            v *= 1 - x[m - k]
        f.append(v)
    return f


def _spherical(r, theta, m):
    f = []
    for k in range(1, m + 1):
        v = r * PROD(cos(theta[i]) for i in range(0, m - k))
        if k > 1:
            v *= sin(theta[m - k])
        f.append(v)
    return f


def dtlz2(x, m):
    return _spherical(1 + _g2(x[m - 1:]), [0.5 * pi * x[i] for i in range(m - 1)], m)


def dtlz3(x, m):
    return _spherical(1 + _g13(x[m - 1:]), [0.5 * pi * x[i] for i in range(m - 1)], m)


def dtlz4(x, m, alpha):
    return _spherical(1 + _g2(x[m - 1:]), [0.5 * pi * x[i] ** alpha for i in range(m - 1)], m)


def _theta56(x, g, m):
    return [pi / 2 * x[0]] + [pi / (4 * (1 + g)) * (1 + 2 * g * x[i]) for i in range(1, m - 1)]


def dtlz5(x, m):
    g = _g2(x[m - 1:])
    return _spherical(1 + g, _theta56(x, g, m), m)


def dtlz6(x, m):
    g = S(v ** 0.1 for v in x[m - 1:])
    return _spherical(1 + g, _theta56(x, g, m), m)


def dtlz7(x, m):
    xm = x[m - 1:]
    g = 1 + 9 / len(xm) * S(xm)
    f = [x[i] for i in range(m - 1)]
    h = m - S(fi / (1 + g) * (1 + sin(3 * pi * fi)) for fi in f)
    return f + [(1 + g) * h]


def fonseca(x):
    c = 1 / sqrt(3)
    return [1 - exp(-S((x[i] - c) ** 2 for i in range(min(3, len(x))))),
            1 - exp(-S((x[i] + c) ** 2 for i in range(min(3, len(x)))))]


def poloni(x):
    def b1(u, v):
        return 0.5 * sin(u) - 2 * cos(u) + sin(v) - 1.5 * cos(v)

    def b2(u, v):
        return 1.5 * sin(u) - cos(u) + 2 * sin(v) - 0.5 * cos(v)
    return [1 + (b1(1, 2) - b1(x[0], x[1])) ** 2 + (b2(1, 2) - b2(x[0], x[1])) ** 2, (x[0] + 3) ** 2 + (x[1] + 1) ** 2]


def dent(x, lam=0.85):
    x1, x2 = x[0], x[1]
    d = lam * exp(-(x1 - x2) ** 2)
    s = sqrt(1 + (x1 + x2) ** 2) + sqrt(1 + (x1 - x2) ** 2)
    return [0.5 * (s + x1 - x2) + d, 0.5 * (s - x1 + x2) + d]


# ---------------- symbolic regression targets ----------------
def kotanchek(d):
    return exp(-(d[0] - 1) ** 2) / (3.2 + (d[1] - 2.5) ** 2)


def _sal(x):
    return exp(-x) * x ** 3 * cos(x) * sin(x) * (cos(x) * sin(x) ** 2 - 1)


def salustowicz_1d(d):
    return _sal(d[0])


def salustowicz_2d(d):
    return _sal(d[0]) * (d[1] - 5)


def unwrapped_ball(d):
    return 10 / (5 + S((v - 3) ** 2 for v in d))


def rational_polynomial(d):
    return 30 * (d[0] - 1) * (d[2] - 1) / (d[1] ** 2 * (d[0] - 10))


def sin_cos(d):
    return 6 * sin(d[0]) * cos(d[1])


def ripple(d):
    return (d[0] - 3) * (d[1] - 3) + 2 * sin((d[0] - 4) * (d[1] - 4))


def rational_polynomial2(d):
    return ((d[0] - 3) ** 4 + (d[1] - 3) ** 3 - (d[1] - 3)) / ((d[1] - 2) ** 4 + 10)


# ---------------- binary ----------------
def trap(b):
    u, k = sum(b), len(b)
    return k if u == k else k - 1 - u


def inv_trap(b):
    u, k = sum(b), len(b)
    return k if u == 0 else u - 1


def chuang_f1(b):
    body, f = b[:-1], (inv_trap if b[-1] == 0 else trap)
    return [sum(f(body[s:s + 4]) for s in range(0, len(body), 4))]


def chuang_f2(b):
    body = b[:-2]
    f = inv_trap if b[-2] == 0 else trap
    g = inv_trap if b[-1] == 0 else trap
    return [sum(f(b[s:s + 4]) + g(b[s + 4:s + 8]) for s in range(0, len(body), 8))]


def chuang_f3(b):
    n = len(b)
    if b[-1] == 0:
        return [sum(inv_trap(b[s:s + 4]) for s in range(0, n - 1, 4))]
    return [sum(inv_trap(b[s:s + 4]) for s in range(2, n - 3, 4)) + trap(b[n - 2:] + b[:2])]


def royal_road1(b, order):
    nblocks = len(b) // order
    return [sum(order for j in range(nblocks) if all(v == 1 for v in b[j * order:(j + 1) * order]))]


def royal_road2(b, order):
    total, n = 0, order
    while n < order ** 2:
        total += royal_road1(b, n)[0]
        n *= 2
    return [total]


def bin2float_decode(mn, mx, nbits, b):
    """exact rational value of every decoded gene"""
    out = []
    for i in range(len(b) // nbits):
        val = 0
        for bit in b[i * nbits:(i + 1) * nbits]:
            val = 2 * val + bit
        out.append(Fraction(mn) + Fraction(val, 2 ** nbits - 1) * (Fraction(mx) - Fraction(mn)))
    return out


# ---------------- moving peaks ----------------
def mp_cone(x, p, h, w):
    return h - w * sqrt(S((a - b) ** 2 for a, b in zip(x, p)))


def mp_function1(x, p, h, w):
    return h / (1 + w * S((a - b) ** 2 for a, b in zip(x, p)))


def mp_sphere_as_coded(x, p, h, w):
    # no published formula in DEAP's documentation; the code's own definition
    return h * S((a - b) ** 2 for a, b in zip(x, p))


def close(a, b, rtol=1e-9):
    if a == b:
        return True
    if a != a or b != b or math.isinf(a) or math.isinf(b):
        return False
    return abs(a - b) <= rtol * (1 + max(abs(a), abs(b)))
