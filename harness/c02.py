"""C02 — Variation never touches parents and never leaves a stale fitness (deap/algorithms.py varAnd, varOr).

Two independent things happen here:

* the ORACLE evaluates the property statement directly on what DEAP returned (snapshots, object
  identities, fitness validity) -- on the instrumented populations used for the correspondence and on
  populations of list / array.array / numpy / nested-list / gp.PrimitiveTree individuals varied by the
  library's own operators;
* the CORRESPONDENCE reruns every instrumented case in the Coq model (coq/Corr/C02.v) inside coqc and
  compares result, call log and the final content of every object.
"""
import array
import copy
import itertools
import math
import operator
import os
import random as _pyrandom
import types

import vlib
from vlib import cz, czl, cnat, cnatl, cbool, copt, clist, cfloat

GEN = os.path.join(vlib.COQ, "Gen", "C02_gen.v")
GEN_LOOPS = os.path.join(vlib.COQ, "Gen", "C02_gen_loops.v")


def regen(repo=None):
    """Tie (T): regenerate coq/Gen/C02_gen.v from the working tree's deap/algorithms.py (varAnd, varOr).
    Returns (ok, message, status) -- status: function -> None (translated) | Refuse (placeholder = hand model);
    ok is False when nothing could be translated."""
    import c02_py2coq
    repo = repo or vlib.REPO
    try:
        txt, status = c02_py2coq.translate_repo(repo)
    except Exception as e:  # noqa  (a translator crash is a refusal of everything: fail closed)
        r = c02_py2coq.Refuse("Module", "translator error %s: %s" % (type(e).__name__, e))
        status = {f[0]: r for f in c02_py2coq.FUNCS}
        txt, _ = c02_py2coq.translate_source("\x00")     # all placeholders
    with vlib.BuildLock():
        os.makedirs(os.path.dirname(GEN), exist_ok=True)
        old = open(GEN).read() if os.path.exists(GEN) else None
        if old != txt:
            with open(GEN, "w") as f:
                f.write(txt)
    done = [k for k, v in status.items() if v is None]
    refused = ["%s (%s)" % (k, v) for k, v in status.items() if v is not None]
    msg = "regenerated: %s" % (", ".join(done) or "nothing")
    if refused:
        msg += "; translator refused: " + "; ".join(refused)
    lok, lmsg, lstatus = regen_loops(repo)
    regen.loops = (lok, lmsg, lstatus)
    return bool(done), msg + " | loops " + lmsg, status


def regen_loops(repo=None):
    """Tie (T) for the packaged loops: regenerate coq/Gen/C02_gen_loops.v (eaSimple, eaMuPlusLambda, eaMuCommaLambda).
    Same conventions as regen()."""
    import c02_py2coq
    repo = repo or vlib.REPO
    try:
        txt, status = c02_py2coq.translate_loops_repo(repo)
    except Exception as e:  # noqa
        r = c02_py2coq.Refuse("Module", "translator error %s: %s" % (type(e).__name__, e))
        status = {f[0]: r for f in c02_py2coq.LOOP_FUNCS}
        txt, _ = c02_py2coq.translate_loops_source("\x00")
    with vlib.BuildLock():
        os.makedirs(os.path.dirname(GEN_LOOPS), exist_ok=True)
        old = open(GEN_LOOPS).read() if os.path.exists(GEN_LOOPS) else None
        if old != txt:
            with open(GEN_LOOPS, "w") as f:
                f.write(txt)
    done = [k for k, v in status.items() if v is None]
    refused = ["%s (%s)" % (k, v) for k, v in status.items() if v is not None]
    msg = "regenerated: %s" % (", ".join(done) or "nothing")
    if refused:
        msg += "; translator refused: " + "; ".join(refused)
    return bool(done), msg, status

# --------------------------------------------------------------------------- draws
NEXT_BELOW_ONE = math.nextafter(1.0, 0.0)


class RandomProxy(object):
    """Stands in for the name `random` inside deap.algorithms.  Values come from the scripts (lists
    consumed from the front) and, when a script is exhausted, from the seeded generator.  Every call
    is logged as ('R', u) / ('S', n, i, j) / ('C', n, i); sample/choice are implemented by position so
    that repeated individuals in the population stay distinguishable."""

    def __init__(self, seed, script_r=(), script_s=(), script_c=()):
        self.rng = _pyrandom.Random(seed)
        self.script_r, self.script_s, self.script_c = list(script_r), list(script_s), list(script_c)
        self.log = []

    def random(self):
        u = self.script_r.pop(0) if self.script_r else self.rng.random()
        self.log.append(("R", u))
        return u

    def sample(self, population, k):
        n = len(population)
        if k != 2:
            self.log.append(("X", "sample k=%r" % (k,)))
            return self.rng.sample(population, k)
        if n < 2:
            raise ValueError("Sample larger than population or is negative")
        if self.script_s:
            i, j = self.script_s.pop(0)
            i, j = i % n, j % n
            if i == j:
                j = (j + 1) % n
        else:
            i, j = self.rng.sample(range(n), 2)
        self.log.append(("S", n, i, j))
        return [population[i], population[j]]

    def choice(self, seq):
        n = len(seq)
        if n == 0:
            raise IndexError("Cannot choose from an empty sequence")
        i = (self.script_c.pop(0) % n) if self.script_c else self.rng.randrange(n)
        self.log.append(("C", n, i))
        return seq[i]

    def __getattr__(self, name):
        # any other use of `random` in the code under test is recorded and will not match the model
        def f(*a, **k):
            self.log.append(("X", name))
            return getattr(self.rng, name)(*a, **k)
        return f


def cdraw(d):
    if d[0] == "R":
        return "DRandom %s" % cfloat(d[1])
    if d[0] == "S":
        return "DSample %s %s %s" % (cnat(d[1]), cnat(d[2]), cnat(d[3]))
    if d[0] == "C":
        return "DChoice %s %s" % (cnat(d[1]), cnat(d[2]))
    return "DChoice 0%nat 0%nat"      # unknown call: cannot match


# --------------------------------------------------------------------------- identity bookkeeping
class Canon(object):
    """Object ids numbered by first appearance; every object seen is kept alive so ids are not reused."""

    def __init__(self):
        self.ind, self.fit, self.inds, self.fits = {}, {}, [], []

    def uid(self, o):
        k = id(o)
        if k not in self.ind:
            self.ind[k] = len(self.inds)
            self.inds.append(o)
            f = getattr(o, "fitness", None)
            if f is not None:
                self.fid(f)
        return self.ind[k]

    def fid(self, f):
        k = id(f)
        if k not in self.fit:
            self.fit[k] = len(self.fits)
            self.fits.append(f)
        return self.fit[k]

    def individuals(self):
        return list(self.inds)


def fitvals(ind):
    f = ind.fitness
    return tuple(int(v) for v in f.values) if f.valid else None


def setfit(ind, vals):
    if vals is None:
        del ind.fitness.values
    else:
        ind.fitness.values = tuple(float(v) for v in vals)


def cross(p, g1, g2):
    return g1[:p] + g2[p:]


def inc_at(i, g):
    g = list(g)
    if i < len(g):
        g[i] += 1
    return g


MATE_KINDS = ["id", "tail", "tail_swap", "new", "mixed", "setfit", "new_first", "revert"]
MUT_KINDS = ["id", "inc", "new", "setfit", "new_touch", "revert"]


def cmk(k):
    return "MK_id" if k[0] == "id" else "(MK_%s %s)" % (k[0], cnat(k[1]))


def cuk(k):
    if k[0] in ("inc", "new", "revert"):
        return "(UK_%s %s)" % (k[0], cnat(k[1]))
    return "UK_%s" % k[0]


def mate_impl(kind, a, b, mk):
    """Same functions as mate_k in coq/Corr/C02.v; mk(genotype, fitness values) makes a new individual."""
    name, p = kind
    g1, g2, f1, f2 = list(a), list(b), fitvals(a), fitvals(b)
    if name == "id":
        return a, b
    if name == "tail":
        a[:] = cross(p, g1, g2); b[:] = cross(p, g2, g1)
        return a, b
    if name == "tail_swap":
        a[:] = cross(p, g1, g2); b[:] = cross(p, g2, g1)
        return b, a
    if name == "new":
        n1 = mk(cross(p, g1, g2), f1); n2 = mk(cross(p, g2, g1), f2)
        return n1, n2
    if name == "mixed":
        a[:] = cross(p, g1, g2)
        return mk(cross(p, g2, g1), f2), a
    if name == "setfit":
        a[:] = cross(p, g1, g2); b[:] = cross(p, g2, g1)
        setfit(a, (7,)); setfit(b, None)
        return a, b
    if name == "new_first":
        b[:] = cross(p, g2, g1)
        return mk(cross(p, g1, g2), (9,)), b
    if name == "revert":        # like gp.staticLimit: both rewritten in place, first result is a new copy of the old a
        a[:] = cross(p, g1, g2); b[:] = cross(p, g2, g1)
        return mk(g1, f1), b
    raise AssertionError(kind)


def mut_impl(kind, a, mk):
    name, i = kind
    g, f = list(a), fitvals(a)
    if name == "id":
        return (a,)
    if name == "inc":
        a[:] = inc_at(i, g)
        return (a,)
    if name == "new":
        return (mk(inc_at(i, g), f),)
    if name == "setfit":
        a[:] = inc_at(0, g); setfit(a, (5,))
        return (a,)
    if name == "new_touch":
        a[:] = inc_at(0, g)
        return (mk(g, (3,)),)
    if name == "revert":        # like gp.staticLimit: argument rewritten in place, result is a new copy of the old one
        a[:] = inc_at(i, g)
        return (mk(g, f),)
    raise AssertionError(kind)


# --------------------------------------------------------------------------- snapshots and the oracle
def geno_snapshot(ind):
    import numpy
    from deap import gp
    if isinstance(ind, numpy.ndarray):
        return ("numpy", ind.tolist())
    if isinstance(ind, array.array):
        return ("array", ind.typecode, ind.tolist())
    if isinstance(ind, gp.PrimitiveTree):
        # node descriptors are shared between a tree and its copies; an ephemeral constant carries its value on the node
        return ("tree", [n.name for n in ind], [id(n) for n in ind], [repr(getattr(n, "value", None)) for n in ind])
    return ("list", copy.deepcopy(list(ind)))


def deep_snapshot(ind):
    f = ind.fitness
    return {"geno": geno_snapshot(ind), "valid": bool(f.valid), "values": tuple(f.values) if f.valid else (),
            "wvalues": tuple(f.wvalues), "fitness_id": id(f), "fitness_class": type(f).__name__,
            "fitness_attrs": fitness_attrs(f),
            "attrs": sorted((k, repr(v)) for k, v in vars(ind).items() if k != "fitness")}


def fitness_attrs(f):
    """every attribute of the fitness object besides wvalues (ConstrainedFitness.constraint_violation, ...)"""
    return sorted((k, repr(v)) for k, v in getattr(f, "__dict__", {}).items() if k != "wvalues")


def constrain(ind, rng):
    """Replace ind.fitness by a base.ConstrainedFitness in one of its states: evaluated (with a list / tuple / no
    constraint_violation), violating (no values, list-valued constraint_violation with a True), or unevaluated."""
    creator = get_classes()
    old = ind.fitness
    cls = creator.C02CFit if len(old.weights) == 1 else creator.C02CFit2
    k = len(old.weights)
    state = rng.choice(["valid_list", "valid_list", "violating", "violating", "valid_tuple", "valid_none", "unevaluated"])
    if state == "violating":
        f = cls(constraint_violation=[True] + [rng.random() < 0.5 for _ in range(rng.randint(0, 2))])
    elif state == "unevaluated":
        f = cls()
    else:
        cv = {"valid_list": [False, False], "valid_tuple": (False,), "valid_none": None}[state]
        f = cls(constraint_violation=list(cv) if isinstance(cv, list) else cv)
        f.values = tuple(float(rng.randint(0, 3)) for _ in range(k))
    ind.fitness = f
    return state


_IMMUTABLE = (int, float, complex, str, bytes, bool, type(None), type, types.FunctionType,
              types.BuiltinFunctionType, types.ModuleType, frozenset)


def mutable_ids(obj, depth=4):
    """ids of the mutable objects reachable from an individual (itself, its fitness object, its attribute
    values, nested containers).  GP node descriptors (gp.Primitive / gp.Terminal) are shared constants of the
    primitive set and are treated like numbers."""
    from deap import gp
    seen = {}

    def walk(x, d):
        if isinstance(x, _IMMUTABLE) or isinstance(x, (gp.Primitive, gp.Terminal)):
            return
        if isinstance(x, tuple):
            for e in x:
                walk(e, d)
            return
        if id(x) in seen:
            return
        seen[id(x)] = x
        if d == 0:
            return
        if isinstance(x, (list, set)):
            for e in x:
                walk(e, d - 1)
        elif isinstance(x, dict):
            for e in x.values():
                walk(e, d - 1)
        if hasattr(x, "__dict__"):
            for e in vars(x).values():
                walk(e, d - 1)
    walk(obj, depth)
    return seen


def shares_buffer(a, b):
    import numpy
    if isinstance(a, numpy.ndarray) and isinstance(b, numpy.ndarray):
        return bool(numpy.shares_memory(a, b))
    return False


def oracle(run, which, case, pop, before, pop_ids_before, outcome, varied_ids, lam, cxpb, mutpb, draws,
           mate_same_twice=False):
    """The statement of C02 evaluated on one call; objects that cannot even be inspected as individuals
    (no fitness, fitness without values, ...) are a violation, not a crash of the check.
    mate_same_twice: toolbox.mate itself returned one object in both positions during this call (outside the
    hypothesis of the pairwise clauses; the clauses about the inputs are still checked)."""
    try:
        _oracle(run, which, case, pop, before, pop_ids_before, outcome, varied_ids, lam, cxpb, mutpb, draws,
                mate_same_twice)
    except Exception as e:      # noqa
        run.oracle_violation("%s returned objects that cannot be inspected as individuals (%s: %s)"
                             % (which, type(e).__name__, e), case)


def _oracle(run, which, case, pop, before, pop_ids_before, outcome, varied_ids, lam, cxpb, mutpb, draws,
            mate_same_twice=False):
    """before: {id(parent): deep_snapshot}."""
    def bad(what, **obs):
        run.oracle_violation(what, case, observed=obs or None)

    # (1) no input individual modified -- whatever the outcome
    if [id(p) for p in pop] != pop_ids_before:
        bad("the population list given to %s was modified" % which)
    for p in {id(x): x for x in pop}.values():
        now = deep_snapshot(p)
        if now != before[id(p)]:
            bad("%s modified an individual of the input population" % which,
                before=before[id(p)], after=now)
    kind, val = outcome
    if kind == "raise":
        if which == "varOr" and lam > 0 and cxpb + mutpb <= 1.0:
            first = draws[-1] if draws else None
            crossover = bool(draws) and draws[-1][0] == "R" and draws[-1][1] < cxpb
            if (val == "ValueError" and len(pop) < 2 and crossover) or \
               (val == "IndexError" and len(pop) == 0 and not crossover):
                return          # the documented guards: random.sample / random.choice on a too small population
        if which == "varOr" and val == "AssertionError" and not (cxpb + mutpb <= 1.0):
            return
        bad("%s raised %s instead of returning the requested offspring" % (which, val))
        return
    off = val
    if not isinstance(off, list) or any(not isinstance(getattr(getattr(o, "fitness", None), "valid", None), bool) for o in off):
        bad("%s returned something that is not a list of individuals carrying a fitness" % which,
            types=[type(o).__name__ for o in off][:8] if isinstance(off, list) else type(off).__name__)
        return
    # (2) exactly the requested number, all different objects
    want = len(pop) if which == "varAnd" else max(int(lam), 0)
    if len(off) != want:
        bad("%s returned %d offspring, %d requested" % (which, len(off), want))
    if len({id(o) for o in off}) != len(off) and not mate_same_twice:
        slots = {}
        for idx, o in enumerate(off):
            slots.setdefault(id(o), []).append(idx)
        bad("%s returned the same object in several offspring slots" % which,
            slots=[v for v in slots.values() if len(v) > 1])
    # (3) independent of every input individual
    parent_objs = {id(x): x for x in pop}.values()
    parent_mut = {}
    for p in parent_objs:
        parent_mut.update(mutable_ids(p))
    for idx, o in enumerate(off):
        shared = [type(v).__name__ for k, v in mutable_ids(o).items() if k in parent_mut]
        if shared:
            bad("offspring %d of %s shares mutable state with an input individual" % (idx, which), shared=shared)
        elif any(shares_buffer(o, p) for p in parent_objs):
            bad("offspring %d of %s shares its numpy buffer with an input individual" % (idx, which))
    fit_ids = [id(o.fitness) for o in off]
    if len(set(fit_ids)) != len({id(o) for o in off}):
        bad("two offspring of %s share one fitness object" % which)
    # ... and of each other: no mutable object reachable from two different offspring objects
    owner = {}
    distinct_off = list({id(o): o for o in off}.values())
    for o in distinct_off:
        for k, v in mutable_ids(o).items():
            if k in owner and owner[k] is not o:
                bad("two offspring of %s share mutable state" % which, shared=type(v).__name__)
                break
            owner[k] = o
    for i1 in range(len(distinct_off)):
        for i2 in range(i1 + 1, len(distinct_off)):
            if shares_buffer(distinct_off[i1], distinct_off[i2]):
                bad("two offspring of %s share one numpy buffer" % which)
    # (4) varied => invalid ; (5) valid => copy of an input
    snaps = list(before.values())
    for idx, o in enumerate(off):
        if id(o) in varied_ids and o.fitness.valid:
            bad("offspring %d of %s went through mate/mutate and still has a valid fitness" % (idx, which),
                values=tuple(o.fitness.values))
        if o.fitness.valid:
            g, v, fa = geno_snapshot(o), tuple(o.fitness.values), fitness_attrs(o.fitness)
            wv = tuple(o.fitness.wvalues)

            def same_w(a, b):       # exact and type-exact: 2**60 + 1 is not 2.0**60
                return len(a) == len(b) and all(x == y and type(x) is type(y) for x, y in zip(a, b))
            if not any(same_geno(s["geno"], g) and s["valid"] and s["values"] == v for s in snaps):
                bad("offspring %d of %s has a valid fitness but is not a copy of an input individual" % (idx, which),
                    genotype=g[:2], values=v)
            elif not any(same_geno(s["geno"], g) and s["valid"] and s["values"] == v and same_w(s["wvalues"], wv) for s in snaps):
                bad("offspring %d of %s has a valid fitness whose weighted values are not exactly those of the input individual "
                    "it copies" % (idx, which), genotype=g[:2], wvalues=[repr(x) for x in wv])
            elif not any(same_geno(s["geno"], g) and s["valid"] and s["values"] == v and
                         (s["fitness_attrs"] == fa or s["fitness_class"] != type(o.fitness).__name__) for s in snaps):
                bad("offspring %d of %s has a valid fitness whose other attributes (constraint_violation) are not "
                    "those of the input individual it copies" % (idx, which), fitness_attrs=fa)
        elif id(o) not in varied_ids:
            # an offspring no operator saw keeps the whole fitness of an input, also when that fitness is not valid
            # (a violating ConstrainedFitness: no values, constraint_violation list)
            g, fa = geno_snapshot(o), fitness_attrs(o.fitness)
            if not any(same_geno(s["geno"], g) and not s["valid"] and
                       (s["fitness_attrs"] == fa or s["fitness_class"] != type(o.fitness).__name__) for s in snaps):
                bad("offspring %d of %s was not varied but does not carry the (unevaluated/violating) fitness of the "
                    "input individual it copies" % (idx, which), genotype=g[:2], fitness_attrs=fa)


def same_geno(a, b):
    # tree snapshots carry node ids last (identity of shared descriptors); compare structure only
    if a[0] == "tree" and b[0] == "tree":
        return a[1] == b[1]
    return a == b


# --------------------------------------------------------------------------- running DEAP
def call_variation(which, pop, toolbox, lam, cxpb, mutpb, proxy):
    from deap import algorithms
    saved = algorithms.random
    algorithms.random = proxy
    try:
        try:
            if which == "varAnd":
                return ("ok", algorithms.varAnd(pop, toolbox, cxpb, mutpb))
            return ("ok", algorithms.varOr(pop, toolbox, lam, cxpb, mutpb))
        except Exception as e:      # noqa
            return ("raise", type(e).__name__)
    finally:
        algorithms.random = saved


def get_classes():
    import numpy
    from deap import base, creator, gp
    if not hasattr(creator, "C02Fit"):
        creator.create("C02Fit", base.Fitness, weights=(-1.0,))
        creator.create("C02Fit2", base.Fitness, weights=(1.0, -1.0))
        creator.create("C02Ind", list, fitness=creator.C02Fit)
        creator.create("C02List", list, fitness=creator.C02Fit2, tag=None)
        creator.create("C02Arr", array.array, typecode="b", fitness=creator.C02Fit2)
        creator.create("C02ArrD", array.array, typecode="d", fitness=creator.C02Fit)
        creator.create("C02Np", numpy.ndarray, fitness=creator.C02Fit2)
        creator.create("C02Tree", gp.PrimitiveTree, fitness=creator.C02Fit)
        creator.create("C02FitInt", base.Fitness, weights=(-1, 1))          # integer weights: weighted values stay integers
        creator.create("C02ListInt", list, fitness=creator.C02FitInt)
        creator.create("C02CFit", base.ConstrainedFitness, weights=(-1.0,))
        creator.create("C02CFit2", base.ConstrainedFitness, weights=(1.0, -1.0))
    return creator


# --------------------------------------------------------------------------- instrumented cases
def random_cvs(rng, fits):
    """constraint_violation per fitness object (None entry list = plain base.Fitness population)."""
    out = []
    for fv in fits:
        if fv is None:
            out.append(rng.choice([None, [True], [True, False], [False, True, True]]))     # unevaluated / violating
        else:
            out.append(rng.choice([None, [False, False], [False], (False,)]))
    return out


def instrumented_case(run, which, objs, fits, pop_idx, lam, cxpb, mutpb, mks, uks, proxy, terms, cases, cvs="auto"):
    """One instrumented case; an exception while driving or observing it never aborts the run: it is recorded
    as a disagreement for this case (the oracle has normally already judged what DEAP returned).
    cvs: None = individuals carry base.Fitness; a list = they carry base.ConstrainedFitness with these
    constraint_violation values; "auto" = decided here (about 40% constrained)."""
    n0 = len(terms)
    if cvs == "auto":
        cvs = random_cvs(run.rng, fits) if run.rng.random() < 0.4 else None
    try:
        return _instrumented_case(run, which, objs, fits, pop_idx, lam, cxpb, mutpb, mks, uks, proxy, terms, cases, cvs)
    except Exception:       # noqa
        import traceback
        case = {"kind": which, "objs": objs, "fits": fits, "pop": pop_idx, "lambda": lam, "cxpb": cxpb, "mutpb": mutpb,
                "draws": list(proxy.log), "mate_kinds": mks, "mutate_kinds": uks, "constraint_violation": cvs,
                "harness_exception": traceback.format_exc()[-1500:]}
        del terms[n0:]
        del cases[n0:]
        run.disagreements.append({"group": "variation", "index": None, "case": case,
                                  "what": "the case could not be driven/observed: " + case["harness_exception"][-300:]})
        run.note_case(case, True)
        return ("raise", "HarnessException")


def _instrumented_case(run, which, objs, fits, pop_idx, lam, cxpb, mutpb, mks, uks, proxy, terms, cases, cvs=None):
    """objs: [(genotype, fitness object index)], fits: [None | [v]]; pop_idx: positions into objs."""
    from deap import base
    creator = get_classes()
    canon = Canon()
    fobjs = []
    for k, fv in enumerate(fits):
        if cvs is None:
            f = creator.C02Fit()
        else:
            cv = cvs[k]
            f = creator.C02CFit(constraint_violation=list(cv) if isinstance(cv, list) else cv)
        if fv is not None:
            f.values = tuple(float(v) for v in fv)
        fobjs.append(f)
    inds = []
    for g, r in objs:
        ind = creator.C02Ind(g)
        ind.fitness = fobjs[r]
        inds.append(ind)
    for f in fobjs:
        canon.fid(f)              # fitness objects 0..m-1 in `fits` order
    for ind in inds:
        canon.uid(ind)            # parents 0..n-1
    pop = [inds[i] for i in pop_idx]
    before = {id(p): deep_snapshot(p) for p in pop}
    pop_ids = [id(p) for p in pop]

    tb = base.Toolbox()
    real_clone = tb.clone
    events, varied = [], set()
    state = {"k": 0, "same_twice": False}

    def mk(g, fv):
        n = creator.C02Ind(g)
        setfit(n, fv) if fv is not None else None
        return n

    def clone(x):
        # whatever is handed over is deep-copied and logged; a non-individual simply gets its own number
        c = real_clone(x)
        events.append("EClone %s %s" % (cnat(canon.uid(x)), cnat(canon.uid(c))))
        return c

    def mate(a, b):
        k = state["k"]; state["k"] += 1
        ua, ub = canon.uid(a), canon.uid(b)
        r = mate_impl(mks[k] if k < len(mks) else ("id", 0), a, b, mk)
        if r[0] is r[1]:
            state["same_twice"] = True
        events.append("EMate %s %s %s %s %s" % (cnat(k), cnat(ua), cnat(ub), cnat(canon.uid(r[0])), cnat(canon.uid(r[1]))))
        varied.update([id(a), id(b), id(r[0]), id(r[1])])
        return r

    def mutate(a):
        k = state["k"]; state["k"] += 1
        ua = canon.uid(a)
        r = mut_impl(uks[k] if k < len(uks) else ("id", 0), a, mk)
        events.append("EMut %s %s %s" % (cnat(k), cnat(ua), cnat(canon.uid(r[0]))))
        varied.update([id(a), id(r[0])])
        return r

    tb.register("clone", clone)
    tb.register("mate", mate)
    tb.register("mutate", mutate)
    outcome = call_variation(which, pop, tb, lam, cxpb, mutpb, proxy)
    case = {"kind": which, "objs": objs, "fits": fits, "pop": pop_idx, "lambda": lam, "cxpb": cxpb, "mutpb": mutpb,
            "draws": list(proxy.log), "mate_kinds": mks, "mutate_kinds": uks, "constraint_violation": cvs,
            "outcome": None}
    if outcome[0] == "ok":
        res_ids = [canon.uid(o) for o in outcome[1]]
        ores = "(OList %s)" % cnatl(res_ids)
        case["outcome"] = res_ids
    else:
        name = outcome[1] if outcome[1] in ("AssertionError", "ValueError", "IndexError") else "DrawMismatch"
        ores = "(ORaise %s)" % name
        case["outcome"] = outcome[1]
    oracle(run, which, case, pop, before, pop_ids, outcome, varied, lam, cxpb, mutpb, proxy.log,
           mate_same_twice=state.get("same_twice", False))
    # final content of every object that existed (something that is not an individual cannot match the model)
    # last component: through which fitness object (first in canonical order) the mutable attribute values of this
    # object's fitness (constraint_violation, ...) are reachable -- the model predicts "its own"
    snap, attr_owner = [], {}
    for o in canon.individuals():
        try:
            fid = canon.fid(o.fitness)
            owner = fid
            for v in mutable_ids(o.fitness).values():
                if v is o.fitness:
                    continue
                first = attr_owner.setdefault(id(v), fid)
                if first != fid:
                    owner = first
            snap.append("(%s, %s, %s, %s)" % (czl([int(x) for x in o]), cnat(fid), copt(fitvals(o), czl), cnat(owner)))
        except Exception:       # noqa
            snap.append("([(-1)%Z], 0%nat, None, 0%nat)")
    head = "%s %s %s" % (clist(["(%s, %s)" % (czl(g), cnat(r)) for g, r in objs]),
                         clist([copt(f, czl) for f in fits]), cnatl(pop_idx))
    tail = "%s %s %s %s %s %s" % (clist([cdraw(d) for d in proxy.log]), clist([cmk(k) for k in mks]),
                                  clist([cuk(k) for k in uks]), ores, clist(events), clist(snap))
    if which == "varAnd":
        term = "CAnd %s %s %s %s" % (head, cfloat(cxpb), cfloat(mutpb), tail)
    else:
        term = "COr %s %s %s %s %s" % (head, cz(lam), cfloat(cxpb), cfloat(mutpb), tail)
    terms.append(term)
    cases.append(case)
    nontrivial = bool(events) or outcome[0] == "raise"
    run.note_case(case, nontrivial, sample=case if len(cases) % 211 == 7 else None)
    return outcome


def random_kinds(rng, n, glen):
    mks = [(rng.choice(MATE_KINDS), rng.randint(0, glen)) for _ in range(n)]
    uks = [(rng.choice(MUT_KINDS), rng.randint(0, glen)) for _ in range(n)]
    mks = [("id", 0) if k[0] == "id" else k for k in mks]
    uks = [k if k[0] in ("inc", "new", "revert") else (k[0], 0) for k in uks]
    return mks, uks


def random_heap(rng, n, glen, share=False):
    """n distinct individuals; fitness objects mostly private, sometimes shared between two parents."""
    fits, objs = [], []
    for i in range(n):
        g = [rng.randint(0, 9) for _ in range(glen)]
        if share and fits and rng.random() < 0.3:
            r = rng.randrange(len(fits))
        else:
            fits.append(None if rng.random() < 0.35 else [rng.randint(0, 5)])
            r = len(fits) - 1
        objs.append((g, r))
    return objs, fits


def u_values(p, fire):
    """draw values that make `u < p` true / false, including the boundary u == p and the extremes."""
    if fire:
        c = [u for u in (0.0, p / 2, math.nextafter(p, 0.0)) if 0.0 <= u < p and u < 1.0]
    else:
        c = [u for u in (p, (p + 1) / 2, NEXT_BELOW_ONE, math.nextafter(p, 2.0)) if p <= u < 1.0]
    return c


def instrumented_cases(run, terms, cases):
    rng = run.rng
    # ---- varAnd: sizes 0..4, every firing pattern of the n//2 + n draws, forced extremes 0 and 1
    for n in range(0, 5):
        nd = n // 2 + n
        for pattern in itertools.product([False, True], repeat=nd):
            reps = run.scale(2, 6) if n >= 2 else 1
            for rep in range(reps):
                if all(pattern) and rep == 0:
                    cxpb = mutpb = 1.0
                elif not any(pattern) and rep == 0:
                    cxpb = mutpb = 0.0
                else:
                    cxpb, mutpb = rng.choice([0.5, 0.25, 0.1, 0.9, 1.0 / 3]), rng.choice([0.5, 0.2, 0.7, 0.05])
                script = []
                ok = True
                for i, fire in enumerate(pattern):
                    p = cxpb if i < n // 2 else mutpb
                    c = u_values(p, fire)
                    if not c:
                        ok = False
                        break
                    script.append(rng.choice(c))
                if not ok:
                    continue
                glen = rng.choice([2, 3, 4])
                objs, fits = random_heap(rng, max(n, 1), glen, share=(rep % 2 == 1))
                pop_idx = list(range(n)) if rep % 3 != 2 or n == 0 else [rng.randrange(max(n, 1)) for _ in range(n)]
                mks, uks = random_kinds(rng, nd + 1, glen)
                instrumented_case(run, "varAnd", objs, fits, pop_idx, 0, cxpb, mutpb, mks, uks,
                                  RandomProxy(rng.getrandbits(32), script), terms, cases)
    # ---- varOr: sizes 0..4, lambda 0..3 (4 thorough), every branch pattern
    configs = [(0.0, 0.0), (1.0, 0.0), (0.0, 1.0), (0.5, 0.5), (0.25, 0.5), (0.1, 0.2), (0.3, 0.3), (0.5, 0.0), (0.0, 0.5)]
    for n in range(0, 5):
        for lam in range(0, run.scale(4, 5)):
            for branches in itertools.product("cmr", repeat=lam):
                for rep in range(run.scale(1, 3)):
                    good = [c for c in configs if all(branch_values(c, b) for b in branches)]
                    if not good:
                        continue
                    cxpb, mutpb = rng.choice(good)
                    script = [rng.choice(branch_values((cxpb, mutpb), b)) for b in branches]
                    glen = rng.choice([2, 3, 4])
                    objs, fits = random_heap(rng, max(n, 1), glen, share=(rep == 1))
                    pop_idx = list(range(n)) if rng.random() < 0.7 or n == 0 else [rng.randrange(n) for _ in range(n)]
                    mks, uks = random_kinds(rng, lam + 1, glen)
                    instrumented_case(run, "varOr", objs, fits, pop_idx, lam, cxpb, mutpb, mks, uks,
                                      RandomProxy(rng.getrandbits(32), script), terms, cases)
    # the call on which the unrepaired code returned the parents themselves (fix 80d9b4e), replayed on every run
    objs, fits = [([1, 2, 3], 0), ([4, 5, 6], 1), ([7, 8, 9], 2)], [[1], [2], None]
    out = instrumented_case(run, "varOr", objs, fits, [0, 1, 2], 6, 0.0, 0.0, [], [],
                            RandomProxy(rng.getrandbits(32)), terms, cases)
    run.extra_cov["fixed_defect_witness"] = ("varOr(pop, toolbox, 6, 0.0, 0.0) -> %s" %
                                             (cases[-1]["outcome"] if cases and out[1] != "HarnessException" else out,))
    # populations in which one object occupies several slots, with operators that rewrite their argument in place
    # AND return a new object carrying the old content (what gp.staticLimit does when the limit triggers)
    for rep_ in range(run.scale(60, 600)):
        which = "varAnd" if rep_ % 3 != 2 else "varOr"
        shape = [[0, 1, 0, 2, 1, 0], [0, 0], [0, 0, 0], [1, 0, 1], [0, 1, 1, 0], [2, 2, 1, 0, 2]][rep_ % 6]
        glen = rng.choice([2, 3])
        objs, fits = random_heap(rng, 3, glen)
        if rep_ % 2 == 0:
            fits = [[rng.randint(0, 5)] for _ in fits]          # all parents evaluated: a stale fitness would show
        n = len(shape)
        ncalls = n // 2 + n + 1
        mks = [(rng.choice(["revert", "revert", "tail", "mixed", "new_first"]), rng.randint(0, glen)) for _ in range(ncalls)]
        uks = [(rng.choice(["revert", "revert", "new_touch", "inc"]), rng.randint(0, glen - 1)) for _ in range(ncalls)]
        uks = [k if k[0] in ("inc", "new", "revert") else (k[0], 0) for k in uks]
        if which == "varAnd":
            cxpb, mutpb = rng.choice([(0.0, 0.5), (0.0, 0.5), (0.5, 0.5), (1.0, 0.5), (0.0, 1.0)])
            lam = 0
        else:
            cxpb, mutpb = rng.choice([(0.0, 0.5), (0.5, 0.5), (0.3, 0.3)])
            lam = rng.choice([2, 4, 6])
        instrumented_case(run, which, objs, fits, shape, lam, cxpb, mutpb, mks, uks,
                          RandomProxy(rng.getrandbits(32)), terms, cases)
    # negative lambda, failed assertion
    for lam, cxpb, mutpb in [(-1, 0.5, 0.5), (-3, 1.0, 0.0), (2, 0.75, 0.5), (0, 1.0, 0.5), (3, 0.6, 0.41)]:
        objs, fits = random_heap(rng, 3, 3)
        mks, uks = random_kinds(rng, 4, 3)
        instrumented_case(run, "varOr", objs, fits, [0, 1, 2], lam, cxpb, mutpb, mks, uks,
                          RandomProxy(rng.getrandbits(32)), terms, cases)
    # ---- seeded random, larger populations, unscripted draws
    for _ in range(run.scale(250, 4000)):
        which = rng.choice(["varAnd", "varOr"])
        n = rng.choice([0, 1, 2, 3, 5, 6, 7, 8]) if rng.random() < 0.8 else rng.randint(9, 14)
        glen = rng.choice([1, 2, 3, 5])
        objs, fits = random_heap(rng, max(n, 1), glen, share=rng.random() < 0.3)
        pop_idx = list(range(n)) if rng.random() < 0.6 or n == 0 else [rng.randrange(n) for _ in range(n)]
        lam = rng.choice([0, 1, 2, 3, 5, 8, 12])
        if which == "varAnd":
            cxpb, mutpb = rng.choice([0.0, 1.0, 0.5, 0.3, 0.8]), rng.choice([0.0, 1.0, 0.5, 0.1, 0.9])
        else:
            cxpb, mutpb = rng.choice(configs + [(0.6, 0.4), (0.7, 0.3), (0.2, 0.1)])
        ncalls = (n // 2 + n if which == "varAnd" else lam) + 1
        mks, uks = random_kinds(rng, ncalls, glen)
        instrumented_case(run, which, objs, fits, pop_idx, lam, cxpb, mutpb, mks, uks,
                          RandomProxy(rng.getrandbits(32)), terms, cases)


def branch_values(cfg, b):
    """draw values selecting branch b (c crossover, m mutation, r reproduction) under cfg, boundaries included."""
    cxpb, mutpb = cfg
    s = cxpb + mutpb          # the float sum the code computes
    if b == "c":
        c = (0.0, cxpb / 2, math.nextafter(cxpb, 0.0))
        return [u for u in c if 0.0 <= u < cxpb and u < 1.0]
    if b == "m":
        c = (cxpb, (cxpb + s) / 2, math.nextafter(s, 0.0))
        return [u for u in c if cxpb <= u < s and u < 1.0]
    c = (s, (s + 1.0) / 2, NEXT_BELOW_ONE)
    return [u for u in c if s <= u < 1.0]


# --------------------------------------------------------------------------- real operator pairs
def make_pset():
    from deap import gp
    pset = gp.PrimitiveSet("C02MAIN", 1)
    pset.addPrimitive(operator.add, 2)
    pset.addPrimitive(operator.sub, 2)
    pset.addPrimitive(operator.neg, 1)
    pset.addTerminal(1)
    pset.addTerminal(0)
    import functools
    pset.addEphemeralConstant("c02eph", functools.partial(_pyrandom.randint, -9, 9))
    return pset


def real_operator_runs(run):
    """The statement checked directly on the library's own operators over every representation."""
    import numpy
    from functools import partial
    from deap import base, tools, gp
    creator = get_classes()
    rng = run.rng
    pset = make_pset()

    def cx_two_point_copy(ind1, ind2):
        size = len(ind1)
        a = _pyrandom.randint(1, size)
        b = _pyrandom.randint(1, size - 1)
        if b >= a:
            b += 1
        else:
            a, b = b, a
        ind1[a:b], ind2[a:b] = ind2[a:b].copy(), ind1[a:b].copy()
        return ind1, ind2

    def mut_nested(ind):
        i = _pyrandom.randrange(len(ind))
        ind[i][_pyrandom.randrange(len(ind[i]))] += 1
        ind.tag["hits"] = ind.tag.get("hits", 0) + 1
        return ind,

    def cx_nested(a, b):
        i = _pyrandom.randrange(min(len(a), len(b)))
        a[i], b[i] = b[i], a[i]
        a[0].append(7)
        return a, b

    def fit2():
        return (float(rng.randint(0, 3)), float(rng.randint(0, 3)))

    def mk_list(L):
        return creator.C02List([rng.randint(0, 1) for _ in range(L)]), fit2

    def mk_list_int(L):
        # integer objectives beyond 2**53 under integer weights: pairwise different fitnesses that one double cannot tell apart
        return (creator.C02ListInt([rng.randint(0, 1) for _ in range(L)]),
                (lambda: (2 ** 60 + rng.randint(0, 7), -(2 ** 53) - rng.randint(0, 7))))

    def mk_arr(L):
        return creator.C02Arr([rng.randint(0, 1) for _ in range(L)]), fit2

    def mk_arrd(L):
        return creator.C02ArrD([float(rng.randint(0, 5)) for _ in range(L)]), (lambda: (float(rng.randint(0, 3)),))

    def mk_np(L):
        return creator.C02Np(numpy.array([rng.randint(0, 1) for _ in range(L)])), fit2

    def mk_nested(L):
        ind = creator.C02List([[rng.randint(0, 3) for _ in range(2)] for _ in range(L)])
        ind.tag = {"hits": 0}
        return ind, fit2

    def mk_tree(L):
        _pyrandom.seed(rng.getrandbits(32))
        return creator.C02Tree(gp.genHalfAndHalf(pset, 1, 3)), (lambda: (float(rng.randint(0, 3)),))

    expr_mut = partial(gp.genFull, min_=0, max_=2)
    expr_big = partial(gp.genFull, min_=1, max_=3)
    height = operator.attrgetter("height")
    lim3 = gp.staticLimit(key=height, max_value=3)      # population trees have height <= 3: within the limit
    lim2 = gp.staticLimit(key=height, max_value=2)      # some population trees are already above the limit
    lim_len = gp.staticLimit(key=len, max_value=7)
    reps = [
        ("list cxTwoPoint/mutFlipBit", mk_list, tools.cxTwoPoint, partial(tools.mutFlipBit, indpb=0.5)),
        ("list cxOnePoint/mutShuffleIndexes", mk_list, tools.cxOnePoint, partial(tools.mutShuffleIndexes, indpb=0.5)),
        ("list cxUniform/mutUniformInt", mk_list, partial(tools.cxUniform, indpb=0.5), partial(tools.mutUniformInt, low=0, up=3, indpb=0.5)),
        ("list with exact integer fitness beyond 2**53 cxTwoPoint/mutFlipBit", mk_list_int, tools.cxTwoPoint, partial(tools.mutFlipBit, indpb=0.5)),
        ("array('b') cxTwoPoint/mutFlipBit", mk_arr, tools.cxTwoPoint, partial(tools.mutFlipBit, indpb=0.5)),
        ("array('d') cxBlend/mutGaussian", mk_arrd, partial(tools.cxBlend, alpha=0.5), partial(tools.mutGaussian, mu=0, sigma=1, indpb=0.5)),
        ("numpy cxTwoPointCopy/mutFlipBit", mk_np, cx_two_point_copy, partial(tools.mutFlipBit, indpb=0.5)),
        ("numpy cxTwoPoint/mutFlipBit", mk_np, tools.cxTwoPoint, partial(tools.mutFlipBit, indpb=0.5)),
        ("nested list in-place", mk_nested, cx_nested, mut_nested),
        ("PrimitiveTree cxOnePoint/mutUniform", mk_tree, gp.cxOnePoint, partial(gp.mutUniform, expr=expr_mut, pset=pset)),
        ("PrimitiveTree cxOnePointLeafBiased/mutNodeReplacement", mk_tree, partial(gp.cxOnePointLeafBiased, termpb=0.2),
         partial(gp.mutNodeReplacement, pset=pset)),
        ("PrimitiveTree cxOnePoint/mutEphemeral(one)", mk_tree, gp.cxOnePoint, partial(gp.mutEphemeral, mode="one")),
        ("PrimitiveTree cxOnePointLeafBiased/mutEphemeral(all)", mk_tree, partial(gp.cxOnePointLeafBiased, termpb=0.5),
         partial(gp.mutEphemeral, mode="all")),
        # gp.staticLimit: the wrapped operator edits its argument in place but returns a different object
        # (a copy of the argument as it was) when the limit triggers
        ("PrimitiveTree staticLimit(height<=3) cxOnePoint/mutUniform", mk_tree, lim3(gp.cxOnePoint),
         lim3(partial(gp.mutUniform, expr=expr_big, pset=pset))),
        ("PrimitiveTree staticLimit(len<=7) cxOnePointLeafBiased/mutInsert", mk_tree,
         lim_len(partial(gp.cxOnePointLeafBiased, termpb=0.2)), lim_len(partial(gp.mutInsert, pset=pset))),
        ("PrimitiveTree staticLimit(height<=2, some trees above) cxOnePoint/mutUniform", mk_tree, lim2(gp.cxOnePoint),
         lim2(partial(gp.mutUniform, expr=expr_big, pset=pset))),
    ]
    dup_shapes = [[0, 1, 0, 2, 1, 0], [0, 0], [0, 1, 1, 0], [0, 0, 0], [1, 0, 1], [2, 2, 1, 0, 2]]
    stats = {"runs": 0, "with_repeated_members": 0, "mate_returned_same_object_twice": 0, "new_object_returned": 0,
             "constrained_individuals": 0}

    def one_run(name, mkind_, mate, mutate, it):
        limited = "staticLimit" in name
        which = "varAnd" if it % 2 == 0 else "varOr"
        n = [0, 1, 2, 3, 4, 6][it % 6] if it < 24 else rng.randint(0, 7)
        L = rng.randint(3, 6)
        shape = None
        if (limited and it % 4 != 3) or (not limited and it % 5 == 4):
            shape = dup_shapes[it % len(dup_shapes)]        # one object in several slots of the population
            n = len(shape)
        distinct = []
        fitness_mode = ["plain", "constrained", "plain", "mixed", "plain", "constrained"][(it // 2) % 6]
        for _ in range(max(n, 1)):
            ind, fv = mkind_(L)
            if rng.random() < (0.9 if shape else 0.6):
                ind.fitness.values = fv()
            if fitness_mode == "constrained" or (fitness_mode == "mixed" and rng.random() < 0.5):
                constrain(ind, rng)         # base.ConstrainedFitness: evaluated / violating (list) / unevaluated
                stats["constrained_individuals"] += 1
            distinct.append(ind)
        pop = [distinct[i] for i in range(n)]
        if shape is not None:
            pop = [distinct[i] for i in shape]
        elif n and rng.random() < 0.3:
            pop = [distinct[rng.randrange(n)] for _ in range(n)]
        if which == "varAnd":
            cxpb, mutpb = rng.choice([(0.0, 0.0), (1.0, 1.0), (1.0, 0.0), (0.0, 1.0), (0.5, 0.5), (0.7, 0.2), (0.0, 0.5)])
            if shape is not None and it % 2 == 0 and it % 3 == 0:
                cxpb, mutpb = 0.0, 0.5
            lam = 0
        else:
            cxpb, mutpb = rng.choice([(0.0, 0.0), (1.0, 0.0), (0.0, 1.0), (0.5, 0.5), (0.3, 0.3), (0.6, 0.4)])
            lam = rng.choice([0, 1, 2, 5, 9])
        tb = base.Toolbox()
        varied = set()
        keep = []
        flags = {"same_twice": False}

        def w_mate(a, b):
            r = mate(a, b)
            keep.extend([a, b, r[0], r[1]])
            varied.update([id(a), id(b), id(r[0]), id(r[1])])
            if r[0] is r[1]:
                flags["same_twice"] = True
            if r[0] is not a and r[0] is not b:
                stats["new_object_returned"] += 1
            return r

        def w_mut(a):
            r = mutate(a)
            keep.extend([a, r[0]])
            varied.update([id(a), id(r[0])])
            if r[0] is not a:
                stats["new_object_returned"] += 1
            return r

        tb.register("mate", w_mate)
        tb.register("mutate", w_mut)
        seed = rng.getrandbits(32)
        _pyrandom.seed(seed)
        numpy.random.seed(seed % (2 ** 32))
        before = {id(p): deep_snapshot(p) for p in pop}
        pop_ids = [id(p) for p in pop]
        proxy = RandomProxy(rng.getrandbits(32))
        outcome = call_variation(which, pop, tb, lam, cxpb, mutpb, proxy)
        slot_of = {}
        for p in pop:
            slot_of.setdefault(id(p), len(slot_of))
        case = {"kind": "real-operators", "which": which, "representation": name, "n": n, "lambda": lam,
                "cxpb": cxpb, "mutpb": mutpb, "seed": seed,
                "population_slots": [slot_of[id(p)] for p in pop],
                "population": [before[id(p)]["geno"][:2] + (before[id(p)]["values"], before[id(p)]["fitness_class"],
                                                            before[id(p)]["fitness_attrs"]) for p in pop],
                "outcome": outcome[1] if outcome[0] == "raise" else len(outcome[1])}
        oracle(run, which, case, pop, before, pop_ids, outcome, varied, lam, cxpb, mutpb, proxy.log,
               mate_same_twice=flags["same_twice"])
        stats["runs"] += 1
        stats["with_repeated_members"] += int(len(slot_of) < len(pop))
        stats["mate_returned_same_object_twice"] += int(flags["same_twice"])
        run.note_case(case, bool(proxy.log), sample=case if it == 7 else None)

    count = 0
    per = run.scale(40, 400)
    for name, mkind_, mate, mutate in reps:
        for it in range(per):
            try:
                one_run(name, mkind_, mate, mutate, it)
            except Exception:       # noqa -- never abort the run because one case could not be driven
                import traceback
                tbk = traceback.format_exc()[-1500:]
                case = {"kind": "real-operators", "representation": name, "iteration": it, "harness_exception": tbk}
                run.disagreements.append({"group": "real-operators", "index": None, "case": case,
                                          "what": "the case could not be driven/observed: " + tbk[-300:]})
                run.note_case(case, True)
            count += 1
    run.extra_cov["real_operator_stats"] = stats
    return count


def corpus_runs(run):
    """corpus/C02_*.json: minimised inputs of past misses, replayed first on every run (list individuals, the library's
    cxTwoPoint/mutFlipBit, fitness objects as described; the oracle judges the outcome)."""
    import glob
    import json
    import os
    from functools import partial
    from deap import base, tools
    creator = get_classes()
    here = os.path.dirname(os.path.dirname(os.path.abspath(__file__)))
    n = 0
    for path in sorted(glob.glob(os.path.join(here, "corpus", "C02_*.json"))):
        try:
            spec = json.load(open(path))
            distinct = []
            for d in spec["individuals"]:
                ind = creator.C02List(d["genotype"])
                if d.get("fitness_class") == "ConstrainedFitness":
                    cv = d.get("constraint_violation")
                    ind.fitness = creator.C02CFit2(constraint_violation=list(cv) if isinstance(cv, list) else cv)
                if d.get("values") is not None:
                    ind.fitness.values = tuple(float(v) for v in d["values"])
                distinct.append(ind)
            pop = [distinct[i] for i in spec["population_slots"]]
            tb = base.Toolbox()
            varied, keep = set(), []

            def w_mate(a, b):
                r = tools.cxTwoPoint(a, b)
                keep.extend([a, b, r[0], r[1]]); varied.update([id(a), id(b), id(r[0]), id(r[1])])
                return r

            def w_mut(a):
                r = tools.mutFlipBit(a, indpb=0.5)
                keep.extend([a, r[0]]); varied.update([id(a), id(r[0])])
                return r

            tb.register("mate", w_mate)
            tb.register("mutate", w_mut)
            _pyrandom.seed(spec.get("seed", 0))
            before = {id(p): deep_snapshot(p) for p in pop}
            proxy = RandomProxy(spec.get("seed", 0))
            outcome = call_variation(spec["which"], pop, tb, spec.get("lambda", 0), spec["cxpb"], spec["mutpb"], proxy)
            case = {"kind": "corpus", "file": os.path.basename(path), "what": spec.get("what"), "input": spec,
                    "outcome": outcome[1] if outcome[0] == "raise" else len(outcome[1])}
            oracle(run, spec["which"], case, pop, before, [id(p) for p in pop], outcome, varied, spec.get("lambda", 0),
                   spec["cxpb"], spec["mutpb"], proxy.log)
            run.note_case(case, True)
            n += 1
        except Exception:       # noqa
            import traceback
            run.disagreements.append({"group": "corpus", "index": None, "case": {"file": path},
                                      "what": "corpus case could not be replayed: " + traceback.format_exc()[-300:]})
    run.notes.append("corpus cases replayed first: %d" % n)


def build_with_retry(run):
    """run.build_props, repeated when the build died without a Coq error location (a killed make/coqc on a
    loaded machine); a genuine failure (File "...", line N: Error) is reported at once."""
    import re as _re
    import time as _time
    for attempt in range(3):
        nb, no = len(run.broken), len(run.obligations)
        if run.build_props():
            return True
        log = run.broken[-1].get("log", "") if len(run.broken) > nb else ""
        if _re.search(r'File "[^"]+", line \d+', log) or attempt == 2:
            return False
        run.notes.append("build attempt %d ended without a Coq error location (%s); retrying" % (attempt + 1, log[-200:]))
        del run.broken[nb:]
        del run.obligations[no:]
        _time.sleep(5 * (attempt + 1))
    return False


def correspond_with_retry(run, group, terms, cases, check="check", requires=()):
    """run.correspond, repeated (with smaller shards) when a coqc process died without a verdict -- e.g. killed
    under memory pressure on a loaded machine.  A shard that was evaluated and disagrees is never retried; only
    attempts in which some shard produced no result at all are discarded and redone."""
    import copy as _copy
    import time as _time
    for attempt, shard in enumerate((400, 200, 100)):
        saved = (list(run.disagreements), run.traces, _copy.deepcopy(run.corr_groups))
        run.correspond(group, "C02", terms, cases, check=check,
                       requires=["From Coq Require Import PrimFloat."] + list(requires), shard=shard)
        errors = [d for d in run.disagreements[len(saved[0]):] if d.get("coq_error") is not None]
        if not errors or attempt == 2:
            return
        run.notes.append("correspondence attempt %d: %d coqc process(es) ended without a result (%s); retrying"
                         % (attempt + 1, len(errors), (errors[0]["coq_error"].get("log") or "no output")[-200:]))
        run.disagreements[:], run.traces, run.corr_groups = saved[0], saved[1], saved[2]
        _time.sleep(5 * (attempt + 1))


# --------------------------------------------------------------------------- tie (T): regenerated definitions
GEN_REQ = "From DV Require Import Gen.C02_gen."


def tie_regenerated(run):
    """Regenerate coq/Gen/C02_gen.v from the working tree, re-prove `regenerated = hand model` and the C02 theorems on
    the regenerated definitions (Props/C02_gen.v).  Returns (check function for the correspondence, extra Requires,
    whether anything was translated)."""
    ok, msg, status = regen()
    refused = {k: v for k, v in status.items() if v is not None}
    done = [k for k, v in status.items() if v is None]
    run.extra_cov["regenerated_functions"] = done
    run.extra_cov["translator_refused"] = {k: str(v) for k, v in refused.items()}
    for k, v in refused.items():
        run.notes.append("tie: correspondence-only (translator refused %s at line %s in %s: %s)" % (v.node, v.line, k, v.why))
    if not ok:
        run.extra_cov["tie"] = "correspondence-only (%s)" % msg
        return "check", [], False
    nb, no = len(run.broken), len(run.obligations)
    gen_ok = False
    for attempt in range(3):
        gen_ok = run.build_props(props="Props/C02_gen.v")
        log = run.broken[-1].get("log", "") if len(run.broken) > nb else ""
        import re as _re
        if gen_ok or _re.search(r'File "[^"]+", line \d+', log) or attempt == 2:
            break
        del run.broken[nb:]         # the build died without a Coq error location (killed on a loaded machine): again
        del run.obligations[no:]
    if gen_ok:
        run.notes.append("tie: regenerated (%s)" % ", ".join(done))
        run.extra_cov["tie"] = ("translation (regenerated definitions proved equal to the hand model: %s) + correspondence%s"
                                % (", ".join(done), "; correspondence-only for " + ", ".join(sorted(refused)) if refused else ""))
        run.trusted.append("translator harness/c02_py2coq.py and its signature table (source text of varAnd / varOr -> "
                           "coq/Gen/C02_gen.v) with the statement vocabulary coq/Model/C02_GenRt.v; the regenerated definitions "
                           "are proved equal to the hand model (Proofs/C02_gen_equiv.v) and evaluated against the "
                           "implementation on every run")
        return "check_both", [GEN_REQ], True
    run.extra_cov["tie"] = "translator succeeded but the regenerated definitions are no longer (provably) the model"
    try:        # keep the offending text for the replay
        with open(os.path.join(run.rundir, "C02_gen.v.broken"), "w") as f:
            f.write(open(GEN).read())
    except OSError:
        pass
    return "check", [], True


def build_gen(run, props, extra=()):
    """run.build_props(props), repeated when the build died without a Coq error location"""
    import re as _re
    nb, no = len(run.broken), len(run.obligations)
    ok = False
    for attempt in range(3):
        ok = run.build_props(props=props, extra=extra)
        log = run.broken[-1].get("log", "") if len(run.broken) > nb else ""
        if ok or _re.search(r'File "[^"]+", line \d+', log) or attempt == 2:
            break
        del run.broken[nb:]
        del run.obligations[no:]
    return ok


def tie_regenerated_loops(run, base_ok):
    """The packaged loops eaSimple / eaMuPlusLambda / eaMuCommaLambda, regenerated and proved equal to the composed
    models of Model/C03_Full.v (Props/C02_gen_loops.v); registered under C02.  Returns True when the regenerated loops
    can be evaluated against the implementation."""
    lok, lmsg, lstatus = getattr(regen, "loops", (False, "not run", {}))
    done = [k for k, v in lstatus.items() if v is None]
    refused = {k: v for k, v in lstatus.items() if v is not None}
    run.extra_cov["regenerated_loops"] = done
    run.extra_cov["translator_refused_loops"] = {k: str(v) for k, v in refused.items()}
    for k, v in refused.items():
        run.notes.append("tie (loops): correspondence-only (translator refused %s at line %s in %s: %s)" % (v.node, v.line, k, v.why))
    if not lok:
        return False
    if not base_ok:
        run.notes.append("tie (loops): not rebuilt, the regenerated varAnd / varOr they call are not (provably) the model")
        return False
    if build_gen(run, "Props/C02_gen_loops.v"):
        run.notes.append("tie (loops): regenerated (%s)" % ", ".join(done))
        run.extra_cov["tie_loops"] = ("translation (regenerated loops proved equal to full_simple / full_plus / full_comma of "
                                      "Model/C03_Full.v: %s)" % ", ".join(done))
        run.trusted.append("loops dialect of harness/c02_py2coq.py (signature table: `population` = the caller's list object, a "
                           "Statistics object and a HallOfFame given, verbose false, toolbox.map lazy; toolbox.select / evaluate / "
                           "stats.compile / halloffame.update / logbook.record mapped to the statements of coq/Model/C02_GenLoopsRt.v)")
        # the runner that replays recorded runs through the regenerated loops depends on the case format of Corr/C03_Full.v
        # (C03's file): when it does not build, the replay is skipped -- that is not an obligation of this property
        ok2, out = vlib.make_targets(["Corr/C02_loops.vo"])
        if not ok2:
            run.notes.append("loops correspondence skipped: Corr/C02_loops.v does not build against the current Corr/C03_Full.v (%s)"
                             % out[-300:])
        return ok2
    run.extra_cov["tie_loops"] = "translator succeeded but the regenerated loops are no longer (provably) the composed model"
    run.loops_broken = True
    try:
        with open(os.path.join(run.rundir, "C02_gen_loops.v.broken"), "w") as f:
            f.write(open(GEN_LOOPS).read())
    except OSError:
        pass
    return False


def loops_search(run):
    """After a broken loops obligation: look for a run of eaSimple / eaMuPlusLambda / eaMuCommaLambda on which the
    implementation violates the statement about the loops (the oracle of harness/c03.py, which is independent of the
    models), so that the verdict names a failing input."""
    import random as _r
    try:
        import c03
    except Exception as e:  # noqa
        run.notes.append("loops search skipped: harness/c03.py cannot be imported (%r)" % (e,))
        return
    rng = _r.Random(run.rng.getrandbits(64))
    found = 0
    for it in range(run.scale(150, 600)):
        kind = ("simple", "plus", "comma")[it % 3]
        try:
            n, ngen = rng.randint(1, 6), rng.randint(1, 4)
            cfg = c03.gen_simple(rng, n=n, ngen=ngen) if kind == "simple" else c03.gen_mu(rng, kind, n=n, ngen=ngen)
            cfg = c03.fix_guards(cfg)
            cfg["alias"] = []
            leg, obs = c03.run_impl(cfg)[0]
            pub = c03.cfg_public(leg)
            if "skipped" in obs:
                continue
            run.note_case(("loops-search", pub), True)
            if "raised" in obs:
                run.oracle_violation("the loop raised " + obs["raised"], pub, observed=obs["raised"])
                found += 1
            else:
                bad = c03.oracle(leg, obs, {"shown": set(), "best_seen": []}) if leg.get("stats", True) else c03.oracle_nostats(leg, obs)
                if bad:
                    run.oracle_violation("packaged loop: " + bad[0], pub, observed=bad[:5])
                    found += 1
        except Exception:  # noqa
            continue
        if found >= 5:
            break
    run.notes.append("loops search (oracle of harness/c03.py) after a broken loops obligation: %d violation(s)" % found)


def search_after_break(run):
    wide_search(run)
    if getattr(run, "loops_broken", False) and not run.oracle_viol:
        loops_search(run)


def loops_correspondence(run):
    """The regenerated loops evaluated against the implementation: recorded runs of the three loops (generators,
    recording wrappers and term printer of harness/c03.py, which the composed model of C03 uses) are replayed through
    gen_eaSimple / gen_eaMuPlusLambda / gen_eaMuCommaLambda (Corr/C02_loops.v)."""
    import random as _r
    try:
        import c03
    except Exception as e:  # noqa
        run.notes.append("loops correspondence skipped: harness/c03.py cannot be imported (%r)" % (e,))
        return
    rng = _r.Random(run.rng.getrandbits(64))
    terms, cases = [], []
    want = run.scale(36, 300)
    tries = 0
    while len(terms) < want and tries < 5 * want:
        tries += 1
        kind = ("simple", "plus", "comma")[tries % 3]
        try:
            n, ngen = rng.randint(0, 4), rng.randint(0, 3)
            cfg = c03.gen_simple(rng, n=n, ngen=ngen) if kind == "simple" else c03.gen_mu(rng, kind, n=n, ngen=ngen)
            cfg = c03.fix_guards(cfg)
            cfg["alias"] = []
            cfg["full"] = True
            leg, obs = c03.run_impl(cfg)[0]
            if "skipped" in obs or "raised" in obs or not obs.get("full") or obs["full"]["bad"] \
                    or not leg.get("stats", True) or not leg.get("hof", True):
                continue
            terms.append(c03.coq_term_full(leg, obs))
            cases.append(c03.cfg_public(leg))
        except Exception:  # noqa  (a case that cannot be driven is C03's business, not a disagreement here)
            continue
    # the loops leaving with an exception: eaMuCommaLambda's own assertion, varOr's guards
    base = {"evp": [1, 0, 7, False], "weights": [1], "hofsize": 1, "opstyle": "inplace", "sel": "firstk"}
    for kind, extra, wantx in (
            ("comma", dict(ngen=1, n=2, genos=[[1], [2]], preeval=[True, False], mu=3, lam=2, cxpb=0.0, mutpb=0.0), "AssertionError"),
            ("plus", dict(ngen=2, n=1, genos=[[1, 2]], preeval=[True], mu=1, lam=2, cxpb=1.0, mutpb=0.0), "ValueError"),
            ("comma", dict(ngen=1, n=0, genos=[], preeval=[], mu=0, lam=2, cxpb=0.0, mutpb=0.5), "IndexError")):
        try:
            cfg = dict(base, kind=kind, seed=rng.randrange(10 ** 9), full=True, **extra)
            leg, obs = c03.run_impl(cfg)[0]
            if obs.get("raised_type") == wantx:
                terms.append(c03.coq_term_full_raise(leg, obs))
                cases.append(c03.cfg_public(leg))
        except Exception:  # noqa
            continue
    run.extra_cov["regenerated_loops_cases"] = len(terms)
    for c in cases:
        run.note_case(("loops", c), True)
    if terms:
        run.correspond("regenerated_loops", "C02_loops", terms, cases, check="check_gen_loops",
                       requires=["From Coq Require Import PrimFloat."], shard=run.scale(40, 100))


def diagnose_regenerated(run, gen_check, reqs, translated, terms, cases, disagreed):
    """Which of the two -- hand model, regenerated definitions -- disagrees with the implementation?  Notes only:
    the cases are already counted."""
    if not translated or not terms:
        return
    saved = (list(run.disagreements), run.traces, dict(run.corr_groups))
    try:
        if gen_check == "check_both" and disagreed:
            sub = list(range(min(len(terms), 300)))
            bad_model = run.correspond("diagnosis_model", "C02", [terms[i] for i in sub], [cases[i] for i in sub],
                                       requires=["From Coq Require Import PrimFloat."])
            bad_gen = run.correspond("diagnosis_regenerated", "C02", [terms[i] for i in sub], [cases[i] for i in sub],
                                     check="check_gen", requires=["From Coq Require Import PrimFloat.", GEN_REQ])
            run.notes.append("diagnosis: on the first %d cases the hand model disagrees with the implementation on %d, the "
                             "regenerated definitions on %d" % (len(sub), len(bad_model), len(bad_gen)))
        elif gen_check == "check":
            # translated but not provably the model: do the regenerated definitions at least agree with the implementation?
            rc, out = vlib.coqc_file(GEN, cwd=vlib.COQ)
            if rc == 0:
                bad_gen = run.correspond("diagnosis_regenerated", "C02", terms, cases, check="check_gen",
                                         requires=["From Coq Require Import PrimFloat.", GEN_REQ])
                g = run.corr_groups.get("diagnosis_regenerated", {})
                run.notes.append("diagnosis: the regenerated definitions (not provably equal to the model) disagree with the "
                                 "implementation on %d of %d cases (errors: %s)" % (len(bad_gen), len(terms), g.get("errors")))
            else:
                run.notes.append("diagnosis: the regenerated definitions do not compile: " + out[-400:])
    except Exception as e:  # noqa
        run.notes.append("diagnosis step failed: %r" % (e,))
    run.disagreements[:], run.traces, run.corr_groups = saved[0], saved[1], saved[2]


def wide_search(run):
    """Only runs when an obligation or the correspondence broke and the regular cases gave no failing input: an
    oracle-only sweep over populations / lambda far beyond the regular sizes (a regenerated definition that is no
    longer the model may differ from it only past a threshold on len(population), the index or lambda_), with all
    parents evaluated and in-place operators so that a stale fitness, a missing clone or a wrong count shows."""
    rng = run.rng
    for rep in range(run.scale(160, 400)):
        which = "varAnd" if rep % 2 == 0 else "varOr"
        n = rng.choice([15, 17, 24, 31, 32, 33, 34, 41, 48, 63, 64, 65, 81]) if rep % 3 else rng.randint(15, 96)
        objs = [([rng.randint(0, 9), rng.randint(0, 9)], i) for i in range(n)]
        fits = [[rng.randint(0, 5)] for _ in range(n)]
        pop_idx = list(range(n))
        if which == "varAnd":
            cxpb, mutpb = [(1.0, 1.0), (0.0, 1.0), (1.0, 0.0), (0.5, 0.5)][(rep // 2) % 4]
            lam, ncalls = 0, n // 2 + n + 1
        else:
            cxpb, mutpb = [(0.0, 0.0), (0.0, 1.0), (1.0, 0.0), (0.3, 0.3), (0.5, 0.5)][(rep // 2) % 5]
            lam = rng.choice([n, n + 1, 2 * n, rng.randint(15, 96)])
            ncalls = lam + 1
        mks = [("tail", 1)] * ncalls
        uks = [("inc", 0)] * ncalls
        instrumented_case(run, which, objs, fits, pop_idx, lam, cxpb, mutpb, mks, uks,
                          RandomProxy(rng.getrandbits(32)), [], [], cvs=None)
        if len(run.oracle_viol) >= 5:
            break
    run.notes.append("wide search (sizes 15..96) after a broken obligation / disagreement: %d oracle violation(s)"
                     % len(run.oracle_viol))


# --------------------------------------------------------------------------- entry
def main(run):
    run.rule = ("instrumented: varAnd on populations of size 0..4 under every firing pattern of its n//2+n draws (probabilities 0 and 1 "
                "forced, boundary draws u == p included), varOr on sizes 0..4 x lambda 0..3(4) x every crossover/mutation/"
                "reproduction pattern (boundaries of cxpb and of the float sum cxpb+mutpb included, too small populations raising), "
                "negative lambda, failed assertion; seeded random cases up to size 14 with unscripted draws; operators are "
                "8 mate kinds x 6 mutate kinds (in place / new objects / swapped / fitness-assigning / in place AND returning a new copy of "
                "the old argument, as gp.staticLimit does) chosen per call; populations with repeated members (one object in several "
                "slots, e.g. [a,b,a,c,b,a]) and with parents sharing one fitness object. real operators: 13 representation/operator "
                "pairs (list, array 'b'/'d', numpy, nested list, PrimitiveTree, PrimitiveTree operators wrapped in gp.staticLimit "
                "with small height/size limits on populations with repeated members). A case is distinct by its full input "
                "(objects, population, probabilities, draw log, operator kinds); non-trivial = at least one clone/operator "
                "call happened or the call raised.")
    run.trusted += ["Coq 8.16.1 kernel and vm_compute",
                    "hand-written model coq/Model/C02_Variation.v tied by correspondence (harness/c02.py, coq/Corr/C02.v) and, "
                    "when the translator accepts the current source text, by regeneration (see the notes `tie: ...`)",
                    "frame hypothesis built into the model: toolbox.mate/mutate write only to their argument objects and return "
                    "arguments or newly created objects (mate: two different objects)",
                    "copy.deepcopy of an individual yields a new individual and a new fitness object with equal contents (see C16); "
                    "observed on every clone of every run",
                    "RandomProxy implements random.sample(population, 2) / random.choice by position with the same exceptions as CPython",
                    "identity canonicalisation by first appearance of id() with all objects kept alive",
                    "binary64 comparison/addition of Coq PrimFloat = CPython float (cxpb, mutpb, draws are passed bit-exact)"]
    run.assumptions += ["operators touch only their argument objects and return arguments or new objects",
                        "mate returns two different objects (varAnd)",
                        "GP node descriptors (gp.Primitive/gp.Terminal) are immutable shared constants",
                        "varOr: cxpb + mutpb <= 1; population of at least 2 when a crossover draw occurs and at least 1 "
                        "otherwise (the real code raises ValueError / IndexError there, proved as guards)"]
    build_with_retry(run)
    gen_check, reqs, translated = tie_regenerated(run)
    loops_ok = tie_regenerated_loops(run, gen_check == "check_both")
    run.search_fn = search_after_break
    corpus_runs(run)
    terms, cases = [], []
    instrumented_cases(run, terms, cases)
    # the hand model and (when they check) the regenerated definitions are evaluated on every case
    ndis = len(run.disagreements)
    correspond_with_retry(run, "variation", terms, cases, check=gen_check, requires=reqs)
    diagnose_regenerated(run, gen_check, reqs, translated, terms, cases, len(run.disagreements) > ndis)
    if loops_ok:
        loops_correspondence(run)
    nreal = real_operator_runs(run)
    run.extra_cov["real_operator_runs"] = nreal
