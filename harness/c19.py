"""C19 — Penalty decorators leave feasible fitness intact and never reward infeasibility
(deap/tools/constraint.py: DeltaPenalty / DeltaPenality, ClosestValidPenalty / ClosestValidPenality).

Ties: (T) harness/c19_py2coq.py regenerates coq/Gen/C19_gen.v from the working tree on every run and
coqc re-proves `regenerated = model` plus the property theorems on the regenerated definitions;
(C) the model (and the regenerated definitions) are evaluated inside coqc on the same configurations
as the implementation and the returned value / raised exception / full callback log are compared.
The oracle below is the property statement written directly against what the decorated function
returned and what the recording callbacks saw; it does not use the Coq model.
"""
import collections
import copy
import itertools
import os
from collections.abc import Sequence
from fractions import Fraction
from numbers import Integral, Number

import numpy

import vlib
from vlib import cbool, clist, copt, cstr

import c19_py2coq

GEN = os.path.join(vlib.COQ, "Gen", "C19_gen.v")


# ---- Coq literals ---------------------------------------------------------------------------------
def frac(x):
    """exact rational value of a Python / numpy number"""
    if isinstance(x, Fraction):
        return x
    return Fraction(int(x)) if isinstance(x, Integral) else Fraction(float(x))


def cqq(x):
    fr = frac(x)
    n, d = fr.numerator, fr.denominator
    return "(Qmake %s %d%%positive)" % ("(%d)%%Z" % n if n < 0 else "%d%%Z" % n, d)


def is_num(x):
    return isinstance(x, Number) and not isinstance(x, bool) and not isinstance(x, complex) and x == x \
        and x not in (float("inf"), float("-inf"))


def to_val(x):
    """Python value -> Coq val term, or None when it is outside the universe (unexpected type)."""
    try:
        if is_num(x):
            return "(VNum %s)" % cqq(x)
        if isinstance(x, (tuple, list)) and all(is_num(y) for y in x):   # what the implementation may return / cfg lists
            return "(VTup %s)" % clist([cqq(y) for y in x])
    except Exception:  # noqa
        pass
    return None


def cargs(args, kwargs):
    return "(%s, %s)" % (clist([vlib.cz(a) for a in args]),
                         clist(["(%s, %s)" % (cstr(k), vlib.cz(v)) for k, v in kwargs.items()]))


def cevent(e):
    k = e[0]
    if k == "feas":
        return "EFeas %s" % vlib.cz(e[1])
    if k == "eval":
        return "EEval %s %s" % (vlib.cz(e[1]), cargs(e[2], e[3]))
    if k == "closest":
        return "EClosest %s" % vlib.cz(e[1])
    if k == "dist1":
        return "EDist1 %s" % vlib.cz(e[1])
    return "EDist2 %s %s" % (vlib.cz(e[1]), vlib.cz(e[2]))


def coutcome(out):
    if out[0] == "ok":
        v = to_val(out[1])
        return "(Ok %s)" % v if v is not None else "(Exc NonTermination)"   # never produced by the model
    return "(Exc %s)" % (out[1] if out[1] in ("IndexError", "TypeError") else "NonTermination")


# ---- running the implementation -------------------------------------------------------------------
class MySeq(Sequence):
    """a user-defined collections.abc.Sequence (neither tuple nor list)"""

    def __init__(self, items):
        self._items = list(items)

    def __getitem__(self, i):
        return self._items[i]

    def __len__(self):
        return len(self._items)


def as_range(lst):
    """the range object with exactly these elements, or None"""
    if not lst or not all(isinstance(x, int) and not isinstance(x, bool) for x in lst):
        return None
    if len(lst) == 1:
        return range(lst[0], lst[0] + 1)
    st = lst[1] - lst[0]
    if st == 0 or any(lst[i + 1] - lst[i] != st for i in range(len(lst) - 1)):
        return None
    return range(lst[0], lst[0] + st * len(lst), st)


def wrapnum(x, nt):
    """the number x as the implementation receives it (cfg keeps the plain Python value)"""
    if nt == "np64":
        return numpy.float64(x)
    if nt == "np32":
        return numpy.float32(x)
    if nt == "npint":
        return numpy.int64(x) if isinstance(x, int) else numpy.float64(x)
    return x


def wrapseq(lst, st, nt):
    items = [wrapnum(x, nt) for x in lst]
    if st == "list":
        return items
    if st == "deque":
        return collections.deque(items)
    if st == "myseq":
        return MySeq(items)
    if st == "range":
        r = as_range(lst)
        if r is not None:
            return r
    return tuple(items)


def seq_content(x):
    try:
        return [frac(y) for y in x]
    except Exception:  # noqa
        return repr(x)


SESSION_KEYS = ("kind", "delta", "alpha", "explicit_none", "alias", "via_toolbox", "two_funcs", "seq_type", "num_type",
                "dother", "ctor_kw")


def compatible(a, b):
    """can the two calls be made on the same decorated function? (same decorator construction)"""
    return all(a.get(k) == b.get(k) for k in SESSION_KEYS) and (a["dist"] is None) == (b["dist"] is None)


class Obs:
    """what one call of the decorated function showed"""

    def __init__(self, out, log, e0, modified=()):
        self.out, self.log, self.e0, self.modified = out, log, e0, list(modified)


class Session:
    """One decorator instance, one (or two) decorated evaluation functions, a sequence of calls on them with
    different individuals.  The recording callbacks answer from the configuration of the current call."""

    def __init__(self, mod, first, mkind):
        self.mod, self.first, self.mkind = mod, first, mkind
        self.cfg = first
        self.log = []
        self.ind0 = self.ind1 = None
        self.e0 = self.e1 = None
        self.cur_func = 0
        self.funcs = None
        self.dec = None
        self.delta_obj = None
        self.last_dist_obj = None
        self.build_result = vlib.guarded(self.build)

    def ident(self, x):
        return 0 if x is self.ind0 else 1 if x is self.ind1 else 99

    def feasibility(self, ind):
        self.log.append(("feas", self.ident(ind)))
        return self.cfg["feas_value"]

    def feasibility_b(self, ind):            # a second, equivalent callback (assigned to dec.fbty_fct between calls)
        self.log.append(("feas", self.ident(ind)))
        return self.cfg["feas_value"]

    def make_evaluator(self, which):
        def evaluate(ind, /, *args, **kwargs):
            try:
                a = tuple(int(x) for x in args)
                k = dict((str(n), int(v)) for n, v in kwargs.items())
            except Exception:  # noqa
                a, k = (-999,), {}
            # 98: the evaluation function wrapped by the *other* decoration was called
            self.log.append(("eval", self.ident(ind) if which == self.cur_func else 98, a, k))
            return self.e0 if ind is self.ind0 else self.e1
        evaluate.__name__ = "evaluate%d" % which
        return evaluate

    def feasible(self, ind):
        self.log.append(("closest", self.ident(ind)))
        return self.ind1

    def dist1(self, ind):
        self.log.append(("dist1", self.ident(ind)))
        if ind is self.ind0:
            self.last_dist_obj = self.conv(self.cfg["dist"], self.cfg.get("dist_seq_type"))
            return self.last_dist_obj
        return ()

    def dist2(self, f, ind):
        self.log.append(("dist2", self.ident(f), self.ident(ind)))
        if f is self.ind1 and ind is self.ind0:
            self.last_dist_obj = self.conv(self.cfg["dist"], self.cfg.get("dist_seq_type"))
            return self.last_dist_obj
        return self.cfg["dother"]

    def conv(self, v, st=None):
        nt = self.cfg.get("num_type", "py")
        if isinstance(v, list):
            return wrapseq(v, st or self.cfg.get("seq_type", "tuple"), nt)
        return wrapnum(v, nt)

    def build(self):
        cfg, mod = self.first, self.mod
        alias = cfg.get("alias", False)
        if cfg["kind"] == "delta":
            cls = getattr(mod, "DeltaPenality", mod.DeltaPenalty) if alias else mod.DeltaPenalty
            self.delta_obj = self.conv(cfg["delta"])
            dargs = [("feasibility", self.feasibility), ("delta", self.delta_obj)]
            if cfg["dist"] is not None or cfg.get("explicit_none"):
                dargs.append(("distance", self.dist1 if cfg["dist"] is not None else None))
        else:
            cls = getattr(mod, "ClosestValidPenality", mod.ClosestValidPenalty) if alias else mod.ClosestValidPenalty
            dargs = [("feasibility", self.feasibility), ("feasible", self.feasible), ("alpha", self.conv(cfg["alpha"]))]
            if cfg["dist"] is not None or cfg.get("explicit_none"):
                dargs.append(("distance", self.dist2 if cfg["dist"] is not None else None))
        ck = cfg.get("ctor_kw", "pos")      # constructor arguments positionally, all by keyword, or only `distance=`
        if ck == "all":
            dec = cls(**dict(dargs))
        elif ck == "distance" and dargs[-1][0] == "distance":
            dec = cls(*[v for _, v in dargs[:-1]], distance=dargs[-1][1])
        else:
            dec = cls(*[v for _, v in dargs])
        self.dec = dec
        funcs = []
        for which in range(2 if cfg.get("two_funcs") else 1):
            ev = self.make_evaluator(which)
            if cfg.get("via_toolbox"):
                from deap import base
                tb = base.Toolbox()
                tb.register("evaluate", ev)
                tb.decorate("evaluate", dec)
                funcs.append(tb.evaluate)
            else:
                funcs.append(dec(ev))
        self.funcs = funcs
        return True

    def reconfigure(self, cfg):
        """public attribute assignment on the decorator instance between two calls; cfg holds the new effective values"""
        for attr in cfg.get("reconf", ()):
            if attr == "alpha":
                self.dec.alpha = self.conv(cfg["alpha"])
            elif attr == "delta":
                self.delta_obj = self.conv(cfg["delta"])        # a Sequence (cfg["delta"] is a list here)
                self.dec.delta = self.delta_obj
            elif attr == "dist_fct":
                fn = self.dist1 if cfg["kind"] == "delta" else self.dist2
                self.dec.dist_fct = fn if cfg["dist"] is not None else None
            elif attr == "fbty_fct":
                self.dec.fbty_fct = self.feasibility_b

    def call(self, cfg):
        """one call of (one of) the decorated function(s); fresh individuals unless cfg asks to reuse the previous ones"""
        prev0 = self.ind0
        self.cfg = cfg
        use_creator = cfg.get("creator", False)
        nt = cfg.get("num_type", "py")
        if cfg.get("reuse_ind") and prev0 is not None and not use_creator and hasattr(prev0, "__dict__") \
                and not isinstance(prev0, list):
            self.ind0 = prev0                                  # the same object again, its weights changed in place
            self.ind0.fitness.weights = tuple(cfg["w0"])
        else:
            self.ind0 = self.mkind(cfg["w0"], 0, use_creator)
        c1 = cfg.get("closest_obj", "normal")
        if c1 == "same":
            self.ind1 = self.ind0                              # the `feasible` callback hands back its argument
        elif c1 == "nofitness":
            self.ind1 = numpy.array([0.25, 1.0])               # as in the module's own example: no .fitness at all
        else:
            self.ind1 = self.mkind(cfg.get("w1", cfg["w0"]), 1, use_creator)

        def fitness_obj(v, as_list):
            if isinstance(v, (list, tuple)):
                items = [wrapnum(x, nt) for x in v]
                return items if as_list else tuple(items)
            return wrapnum(v, nt)
        self.e0 = fitness_obj(cfg["e0"], cfg.get("e0_list"))
        self.e1 = self.e0 if c1 == "same" else fitness_obj(cfg.get("e1", ()), cfg.get("e1_list"))
        del self.log[:]
        self.last_dist_obj = None
        if self.build_result[0] != "ok":
            return Obs(self.build_result, [], self.e0)
        r = vlib.guarded(self.reconfigure, cfg)
        if r[0] != "ok":
            return Obs(r, [], self.e0)
        self.cur_func = cfg.get("which_func", 0) % len(self.funcs)
        f = self.funcs[self.cur_func]
        ind0 = self.ind0
        args, kwargs = tuple(cfg["args"]), dict(cfg["kwargs"])
        # snapshots of everything handed to the decorator: none of it may be modified
        snap = self.snapshot(args)
        if cfg.get("ind_kw") and not args:
            out = vlib.guarded(lambda: f(individual=ind0, **kwargs))
        else:
            out = vlib.guarded(lambda: f(ind0, *args, **kwargs))
        after = self.snapshot(args)
        modified = [k for k in snap if snap[k] != after[k]] + self.altered_answers(cfg)
        return Obs(out, list(self.log), self.e0, modified)

    def snapshot(self, args):
        def state(ind):
            d = {}
            try:
                d["content"] = [repr(x) for x in ind] if isinstance(ind, (list, numpy.ndarray)) else None
                fit = getattr(ind, "fitness", None)
                if fit is not None:
                    d["weights"] = repr(fit.weights)
                    d["wvalues"] = repr(getattr(fit, "wvalues", None))
                    d["fitness_attrs"] = sorted(k for k in getattr(fit, "__dict__", {}))
                d["attrs"] = sorted(k for k in getattr(ind, "__dict__", {}))
            except Exception as e:  # noqa
                d["error"] = repr(e)
            return d
        return {"the individual": state(self.ind0), "the closest valid point": state(self.ind1),
                "the constant sequence passed as delta": seq_content(self.delta_obj) if isinstance(self.delta_obj, Sequence) else repr(self.delta_obj),
                "the extra positional arguments": repr(args)}

    def altered_answers(self, cfg):
        """objects the callbacks handed out must still hold what they held"""
        out = []
        same = cfg.get("closest_obj") == "same"
        for name, obj, want in (("the evaluation function's result for the individual", self.e0, cfg["e0"]),
                                ("the evaluation function's result for the closest valid point", self.e1,
                                 cfg["e0"] if same else cfg.get("e1", ())),
                                ("the sequence returned by the distance function", self.last_dist_obj, cfg["dist"])):
            if obj is not None and isinstance(want, (list, tuple)) and isinstance(obj, (Sequence, collections.deque)) \
                    and seq_content(obj) != [frac(x) for x in want]:
                out.append(name)
        return out


def sign_expected(w):
    return 1 if w > 0 else -1 if w < 0 else 0


def in_scope(cfg):
    """Configurations the property statement quantifies over (sizes agree, numbers/tuples)."""
    n = len(cfg["w0"])
    if n < 1:
        return False
    if cfg["kind"] == "delta":
        if isinstance(cfg["delta"], list) and len(cfg["delta"]) != n:
            return False
    else:
        e = cfg["e0"] if cfg.get("closest_obj") == "same" else cfg["e1"]
        if not isinstance(e, (list, tuple)) or len(e) != n:
            return False
    if isinstance(cfg["dist"], list) and len(cfg["dist"]) != n:
        return False
    return True


def comp(v, k):
    return v[k] if isinstance(v, (list, tuple)) else v


def oracle(cfg, world, out, log):
    """The property statement, evaluated on the returned value and the recorded calls.  Returns failures."""
    bad = []
    evals = [e for e in log if e[0] == "eval"]
    want_extra = (tuple(cfg["args"]), dict(cfg["kwargs"]))
    for m in getattr(world, "modified", ()):
        bad.append("the decorated call modified %s" % m)
    if cfg["feasible"]:
        if out[0] != "ok":
            return bad + ["feasible individual: decorated function raised %s" % out[1]]
        if out[1] is not world.e0:
            bad.append("feasible individual: result is not what the undecorated function returns")
        elif isinstance(cfg["e0"], (list, tuple)) and seq_content(out[1]) != [frac(x) for x in cfg["e0"]]:
            bad.append("feasible individual: the undecorated function's result was altered in place")
        if [(e[1], e[2], e[3]) for e in evals] != [(0,) + want_extra]:
            bad.append("feasible individual: evaluator not called exactly once on the individual with the same extra arguments")
        return bad
    if not in_scope(cfg):
        return bad
    n = len(cfg["w0"])
    dist = cfg["dist"] if cfg["dist"] is not None else 0
    same = cfg.get("closest_obj") == "same"
    if out[0] != "ok":
        return bad + ["infeasible individual: decorated function raised %s" % out[1]]
    r = out[1]
    if not isinstance(r, tuple) or len(r) != n or not all(is_num(x) for x in r):
        return bad + ["infeasible individual: result is not a tuple with one number per objective"]
    if cfg["kind"] == "delta":
        if evals:
            bad.append("constant penalty: evaluation function called for an infeasible individual")
        base = [comp(cfg["delta"], k) for k in range(n)]
        step = [comp(dist, k) for k in range(n)]
        what = "constant"
    else:
        if [(e[1], e[2], e[3]) for e in evals] != [((0 if same else 1),) + want_extra]:
            bad.append("closest valid: evaluator not called exactly once, on the closest valid point, with the same extra arguments")
        base = list(cfg["e0"] if same else cfg["e1"])
        step = [frac(cfg["alpha"]) * frac(comp(dist, k)) for k in range(n)]
        what = "closest valid fitness"
    for k in range(n):
        s = sign_expected(cfg["w0"][k])
        rk, bk, dk = frac(r[k]), frac(base[k]), frac(step[k])
        if s != 0 and rk != bk - s * dk:
            bad.append("objective %d: result is not the %s moved by the distance in the worse direction" % (k, what))
        if s == 0 and abs(rk - bk) != abs(dk):
            bad.append("objective %d (zero weight): result is not the %s moved by the distance" % (k, what))
        if (s > 0 and rk > bk) or (s < 0 and rk < bk):
            bad.append("objective %d: penalised fitness better than the %s" % (k, what))
    return bad


def oracle_monotone(cfg, out, cfg2, out2):
    """cfg2 = cfg with a distance at least as large on every objective: no objective may improve."""
    if out[0] != "ok" or out2[0] != "ok":
        return []
    r, r2 = out[1], out2[1]
    n = len(cfg["w0"])
    if not (isinstance(r, tuple) and isinstance(r2, tuple) and len(r) == n and len(r2) == n):
        return []
    bad = []
    for k in range(n):
        s = sign_expected(cfg["w0"][k])
        if not (is_num(r[k]) and is_num(r2[k])):
            continue
        if (s > 0 and frac(r2[k]) > frac(r[k])) or (s < 0 and frac(r2[k]) < frac(r[k])):
            bad.append("objective %d: penalised fitness improves as the distance grows" % k)
    return bad


# ---- case terms -----------------------------------------------------------------------------------
def case_term(cfg, out, log):
    lg = clist([cevent(e) for e in log])
    a = cargs(cfg["args"], cfg["kwargs"])
    wl = lambda w: clist([cqq(x) for x in w])  # noqa
    if cfg["kind"] == "delta":
        return "CDelta %s %s %s %s %s %s %s %s" % (
            wl(cfg["w0"]), cbool(cfg["feasible"]), to_val(cfg["delta"]), copt(cfg["dist"], to_val),
            to_val(cfg["e0"]), a, coutcome(out), lg)
    d = None if cfg["dist"] is None else "(%s, %s)" % (to_val(cfg["dist"]), to_val(cfg["dother"]))
    return "CClosest %s %s %s %s %s %s %s %s %s %s %s" % (
        wl(cfg["w0"]), wl(cfg["w1"]), cbool(cfg.get("closest_obj") == "same"), cbool(cfg["feasible"]), cqq(cfg["alpha"]),
        "None" if d is None else "(Some %s)" % d, to_val(cfg["e0"]), to_val(cfg["e1"]), a, coutcome(out), lg)


# ---- generators -----------------------------------------------------------------------------------
TRUTHY = [True, 1, "yes", [0], 2.5]
FALSY = [False, 0, None, "", [], 0.0]
MAGS = [1.0, 1.0, 0.5, 2.0, 3.0, 0.125, 1e-3, 1e6, 7.25]
ARGSETS = [((), {}), ((3,), {}), ((3, -4), {}), ((), {"k": 5}), ((7,), {"k": 5, "j": -1}), ((0, 0, 1), {"z": 0, "a": 2}),
           ((1, 2, 3, 4), {}), ((-1,), {"alpha": 2}), ((), {"delta": -3, "distance": 4}), ((5,), {"func": 1, "self": 2})]
# pass-through keyword names that collide with the decorators' own parameter / attribute / local names.
# (`individual` cannot be one: the wrapper's first parameter has that name, so Python itself rejects the call.)
COLLIDING = ["alpha", "delta", "distance", "feasibility", "feasible", "func", "self", "args", "kwargs", "weights", "dists",
             "dist", "w", "d", "f", "f_ind", "f_fbl", "fbty_fct", "fbl_fct", "dist_fct", "wrapper", "ind", "cls",
             "_signs", "signs", "cache", "valid", "penalty", "fitness", "key", "default"]
NEUTRAL = ["k", "j", "z", "a", "target", "scale", "x", "n", "verbose"]


def rand_extra(rng):
    """extra positional and keyword arguments: 0..4 positionals, 0..3 keywords (colliding and neutral names)"""
    r = rng.random()
    if r < 0.25:
        return rng.choice(ARGSETS)
    a = tuple(rng.randint(-9, 9) for _ in range(rng.choice([0, 0, 1, 1, 2, 3, 4])))
    names = rng.sample(COLLIDING + NEUTRAL + COLLIDING, rng.choice([0, 1, 1, 2, 3]))
    k = {}
    for nm in names:
        k[nm] = rng.randint(-9, 9) if nm != "alpha" else rng.choice([2, 3, 7, -1])
    return a, k


def dy(rng, lo=-40, hi=40, den=8):
    return rng.randint(lo, hi) / den


def dynn(rng, hi=40, den=8):
    """non-negative dyadic, with a fair share of zeros"""
    return 0.0 if rng.random() < 0.2 else rng.randint(0, hi) / den


NUM_TYPES = ["py"] * 10 + ["np64", "np32", "npint"]
SEQ_TYPES = ["tuple"] * 6 + ["list"] * 3 + ["deque", "myseq", "range"]


def base_cfg(rng, kind, w, feasible, delta_shape, dist_shape, alpha=None, extra=None, num_type=None, domain=None):
    n = len(w)
    cfg = {"kind": kind, "w0": list(w), "feasible": bool(feasible),
           "feas_value": rng.choice(TRUTHY) if feasible else rng.choice(FALSY),
           "args": (), "kwargs": {}, "alias": rng.random() < 0.5, "via_toolbox": rng.random() < 0.15,
           "seq_type": rng.choice(SEQ_TYPES), "dist_seq_type": rng.choice(SEQ_TYPES), "num_type": rng.choice(NUM_TYPES),
           "explicit_none": rng.random() < 0.3, "ctor_kw": rng.choice(["pos", "pos", "all", "distance"]),
           "creator": rng.random() < 0.5, "call_twice": rng.random() < 0.2,
           "two_funcs": rng.random() < 0.15, "which_func": rng.randint(0, 1),
           "e0_list": rng.random() < 0.3, "e1_list": rng.random() < 0.3, "ind_kw": rng.random() < 0.15}
    a, k = extra if extra is not None else rand_extra(rng)
    cfg["args"], cfg["kwargs"] = tuple(a), dict(k)
    if num_type is not None:
        cfg["num_type"] = num_type
    # value domain of this configuration (shared by all calls on one decorator instance, so that the
    # implementation's float arithmetic stays exact)
    r = rng.random()
    if domain is not None:
        r = {"int": 0.0, "hugeint": 0.3, "offset": 0.35, "dyadic": 0.9}[domain]
    if (cfg["num_type"] == "npint" and domain is None) or r < 0.25:       # Python / numpy ints
        dom = "int"
        num = lambda: rng.randint(-9, 9)      # noqa
        nn = lambda: rng.randint(0, 9)        # noqa
    elif r < 0.31 and kind == "delta" and cfg["num_type"] == "py" and (domain in (None, "hugeint")):
        dom = "hugeint"                        # beyond 2**53: exact only as Python ints (DeltaPenalty's signs are ints)
        num = lambda: rng.choice([1, -1]) * (2 ** 60 + rng.randint(0, 9))   # noqa
        nn = lambda: rng.choice([0, 1, 2 ** 55 + rng.randint(0, 9)])        # noqa
    elif r < 0.37 and cfg["num_type"] in ("py", "np64") and (domain in (None, "offset")):
        dom = "offset"                         # large offset, tiny spread (exactly representable)
        num = lambda: rng.choice([1, -1]) * 2.0 ** 30 + rng.randint(-8, 8) * 2.0 ** -10   # noqa
        nn = lambda: rng.randint(0, 8) * 2.0 ** -20                                       # noqa
    else:
        dom = "dyadic"
        num = lambda: dy(rng)                 # noqa
        nn = lambda: dynn(rng)                # noqa
    cfg["domain"] = dom
    cfg["e0"] = [num() for _ in range(n)]
    if dist_shape == "none":
        cfg["dist"] = None
    elif dist_shape == "scalar":
        cfg["dist"] = nn()
    else:
        cfg["dist"] = [nn() for _ in range(n)]
        if cfg["dist_seq_type"] == "range" and dom == "int" and n >= 1:
            a0, st = rng.randint(0, 4), rng.randint(1, 3)
            cfg["dist"] = list(range(a0, a0 + st * n, st))
    if kind == "delta":
        cfg["delta"] = num() if delta_shape == "scalar" else [num() for _ in range(n)]
        if delta_shape != "scalar" and cfg["seq_type"] == "range" and dom == "int" and n >= 1:
            a0, st = rng.randint(-9, 9), rng.choice([-3, -1, 1, 2])
            cfg["delta"] = list(range(a0, a0 + st * n, st))
    else:
        cfg["w1"] = [-x if x != 0 else 1.0 for x in w]       # the closest individual carries different weights
        cfg["e1"] = [num() for _ in range(n)]
        if alpha is not None:
            cfg["alpha"] = alpha
        elif dom == "offset":
            cfg["alpha"] = rng.choice([0, 0.5, 1.0, 2])      # products with 2**-20 distances stay within 53 bits of 2**30
        elif dom == "int" and cfg["num_type"] == "npint":
            cfg["alpha"] = rng.choice([0, 1, 2, 3])
        else:
            cfg["alpha"] = rng.choice([0, 0.0, 0.25, 0.5, 1.0, 2, 3.5])
        cfg["dother"] = 64.0
        cfg["closest_obj"] = rng.choice(["normal"] * 6 + ["nofitness", "nofitness", "same"])
    return cfg


def follow(rng, prev, w, feasible, dist_shape=None, extra=None, reconf=False):
    """the next call on the decorated function `prev` was made on: a different individual (weights w) with its own
    feasibility / distance / evaluator answers / extra arguments; the decorator instance is shared.  With reconf, one
    public attribute of the decorator instance is assigned first (alpha, delta, dist_fct, fbty_fct)."""
    cfg = base_cfg(rng, prev["kind"], w, feasible, "scalar",
                   dist_shape or rng.choice(["scalar", "vector"]), extra=extra,
                   num_type=prev.get("num_type", "py"), domain=prev.get("domain", "dyadic"))
    for k in SESSION_KEYS:
        if k in prev:
            cfg[k] = prev[k]
    if prev["dist"] is None:
        cfg["dist"] = None
    cfg["call_twice"] = False
    cfg["reuse_ind"] = rng.random() < 0.3
    cfg.pop("reconf", None)
    if reconf:
        attr = rng.choice(["alpha", "delta", "dist_fct", "fbty_fct"] if prev["kind"] == "closest"
                          else ["delta", "delta", "dist_fct", "fbty_fct"])
        if attr == "alpha" and prev["kind"] == "closest":
            pool = (0, 0.5, 1.0, 2) if cfg.get("domain") == "offset" else (0, 0.25, 0.5, 1.0, 2, 3)
            cfg["alpha"] = rng.choice([a for a in pool if a != prev["alpha"]])
            cfg["reconf"] = ["alpha"]
        elif attr == "delta" and prev["kind"] == "delta":
            n = len(w)
            cfg["delta"] = [rng.randint(-9, 9) if cfg.get("domain") in ("int", "hugeint") else dy(rng) for _ in range(n)]
            cfg["reconf"] = ["delta"]
        elif attr == "dist_fct":
            if prev["dist"] is None:
                n = len(w)
                nn = (lambda: rng.randint(0, 9)) if cfg.get("domain") in ("int", "hugeint") else (lambda: dynn(rng))
                cfg["dist"] = nn() if rng.random() < 0.5 else [nn() for _ in range(n)]
            else:
                cfg["dist"] = None
            cfg["reconf"] = ["dist_fct"]
        elif attr == "fbty_fct":
            cfg["reconf"] = ["fbty_fct"]
    return cfg


def grown(rng, cfg):
    """the same configuration with a distance at least as large on every objective"""
    n = len(cfg["w0"])
    c = dict(cfg)
    c.pop("reconf", None)
    c["reuse_ind"] = False
    d = cfg["dist"]
    if cfg.get("domain") in ("int", "hugeint"):
        inc = lambda: rng.choice([0, 1, 2, 8])  # noqa
    elif cfg.get("domain") == "offset":
        inc = lambda: rng.choice([0, 1, 3]) * 2.0 ** -20  # noqa
    else:
        inc = lambda: rng.choice([0, 0.5, 1.0, 2.25, 8])  # noqa
    if d is None:
        c["dist"] = rng.choice([inc(), [inc() for _ in range(n)]])
    elif isinstance(d, list):
        c["dist"] = [x + inc() for x in d]
    else:
        c["dist"] = rng.choice([d + inc(), [d + inc() for _ in range(n)]])
    return c


def main(run):
    from deap import base, creator
    from deap.tools import constraint
    import deap.tools
    rng = run.rng
    run.rule = ("exhaustive: 1..4 objectives x every weight-sign vector x {scalar, per-objective} constant x {absent, scalar, "
                "per-objective} distance x {feasible, infeasible} x both decorators (3 alphas), numbers drawn from dyadic grids; "
                "random: 1..4 objectives (some 0, 5, 6), weights of any sign/magnitude incl. 0.0 and -0.0, int and float numbers, "
                "tuple/list sequences, truthy/falsy feasibility values, 0..4 extra positional and 0..3 keyword arguments whose names "
                "include every parameter / attribute / local name of the decorators (alpha, delta, distance, func, self, kwargs, ...), "
                "both class-name spellings, direct decoration and Toolbox.decorate, creator-made and plain individuals; every infeasible case is "
                "paired with the same case under a distance at least as large (monotonicity), run on the same decorated function; "
                "call sequences on ONE decorated function: every ordered pair of sign vectors (1..3 objectives, 1..4 thorough) "
                "with different fitness classes, every colliding keyword name feasible and infeasible, random sequences of 2..6 "
                "calls mixing fitness classes / numbers of objectives / feasible and infeasible, one decorator instance decorating "
                "two functions; each call is judged and tied on its own; out-of-scope sizes (zip truncation, "
                "IndexError, TypeError) are tied by correspondence only. A case is distinct by its full configuration; "
                "non-trivial = infeasible with a distance function, or feasible with extra arguments.")
    run.trusted += ["Coq 8.16.1 kernel and vm_compute",
                    "translator harness/c19_py2coq.py + run-time library coq/Base/C19_PyRt.v (itertools.repeat, zip truncation, "
                    "isinstance(x, Sequence), len/iter TypeErrors, calling None) -- validated on every run because the regenerated "
                    "definitions are evaluated against the implementation",
                    "hand-written model coq/Model/C19_Penalty.v, proved equal to the regenerated definitions on every run and tied by correspondence",
                    "numbers: rationals; the implementation is fed ints and short dyadic floats so that its arithmetic is exact; "
                    "int vs float result type is not distinguished",
                    "each user callback is a function of its arguments (each is invoked at most once per decorated call)",
                    "functools.wraps does not alter the wrapper's behaviour"]
    run.assumptions += ["distance values are >= 0 and alpha >= 0 (never_better, monotone); sizes of per-objective constants / distances "
                        "/ evaluator results equal the number of weights (otherwise zip truncation, stated in C19_delta_formula, "
                        "or IndexError, C19_closest_size_check)",
                        "delta and distance values are numbers or tuples/lists of numbers (not iterators, not numpy arrays)"]

    # ---- tie (T): regenerate Gen/C19_gen.v from the working tree --------------------------------
    translated, refusal = False, None
    try:
        text = c19_py2coq.translate_repo(vlib.REPO)
        translated = True
    except c19_py2coq.Refuse as e:
        refusal = e
    except Exception as e:  # noqa  (unreadable file etc.: fail closed as a refusal)
        refusal = c19_py2coq.Refuse("Module", "translator error %s: %s" % (type(e).__name__, e))
    with vlib.BuildLock():
        os.makedirs(os.path.dirname(GEN), exist_ok=True)
        if translated:
            with open(GEN, "w") as f:
                f.write(text)
        else:
            for ext in ("", "o", "ok", "os"):
                try:
                    os.remove(GEN + ext)
                except OSError:
                    pass
    run.build_props()
    gen_ok = False
    if translated:
        gen_ok = run.build_props(props="Gen/C19_gen.v")
        run.extra_cov["tie"] = "translator + correspondence" if gen_ok else "translator succeeded but the regenerated definitions no longer check"
        if not gen_ok:
            # keep the offending text for the replay, do not leave an uncompilable file in the shared tree
            try:
                os.replace(GEN, os.path.join(run.rundir, "C19_gen.v.broken"))
            except OSError:
                pass
    else:
        note = "tie: correspondence-only (translator refused %s at line %s: %s)" % (refusal.node, refusal.line, refusal.why)
        run.notes.append(note)
        run.extra_cov["tie"] = note

    # ---- individuals ------------------------------------------------------------------------------
    ccache = {}

    def mkind(w, tag, use_creator):
        w = tuple(w)
        if use_creator:
            if w not in ccache:
                k = len(ccache)
                creator.create("C19Fit%d" % k, base.Fitness, weights=w)
                creator.create("C19Ind%d" % k, list, fitness=getattr(creator, "C19Fit%d" % k))
                ccache[w] = getattr(creator, "C19Ind%d" % k)
            ind = ccache[w]([0.0, float(tag)])
        else:
            class _F(object):
                pass

            class _I(object):
                pass
            ind = _I()
            ind.fitness = _F()
            ind.fitness.weights = w
        return ind

    terms, cases = [], []
    stats = {"feasible": 0, "infeasible": 0, "out_of_scope": 0, "raised": 0, "mono_pairs": 0}
    flavours = {}

    def describe(cfg, out, log):
        d = dict(cfg)
        d["feas_value"] = repr(d["feas_value"])
        d["observed"] = [out[0], repr(out[1])]
        d["calls"] = [list(map(repr, e)) for e in log]
        return d

    def run_calls(calls, collect=True):
        """calls = [(decorator-instance id, cfg), ...] in execution order; calls with the same id go to the same decorator
        instance / decorated function(s).  Every call is judged on its own against the statement and tied on its own."""
        outs, sessions = [], {}
        for sid, cfg in calls:
            if sid not in sessions:
                sessions[sid] = (Session(constraint, cfg, mkind), [])
            sess, history = sessions[sid]
            reps = 2 if cfg.get("call_twice") else 1
            for nth in range(reps):
                obs = sess.call(cfg)
                out, log = obs.out, obs.log
                case = describe(cfg, out, log)
                case["position_in_call_sequence"] = len(history) + 1
                if history:
                    case["earlier_calls_on_same_decorator_instance"] = history[-6:]
                if len(sessions) > 1:
                    case["interleaved_with_other_decorator_instances"] = len(sessions) - 1
                nontrivial = (not cfg["feasible"] and cfg["dist"] is not None) or \
                             (cfg["feasible"] and (cfg["args"] or cfg["kwargs"])) or bool(history)
                run.note_case({k: v for k, v in case.items() if k not in ("observed", "calls")}, nontrivial,
                              sample=case if (run.evaluations % 211 == 3) else None)
                for b in oracle(cfg, obs, out, log):
                    run.oracle_violation(b if not history else "call %d on the same decorator instance: %s" % (len(history) + 1, b),
                                         case, observed=case["observed"])
                if out[0] == "raise":
                    stats["raised"] += 1
                if collect:
                    terms.append(case_term(cfg, out, log))
                    cases.append(case)
                history.append({"weights": list(cfg["w0"]), "feasible": cfg["feasible"], "dist": cfg["dist"],
                                "args": list(cfg["args"]), "kwargs": dict(cfg["kwargs"]), "reconfigured": cfg.get("reconf"),
                                "same_individual_object": bool(cfg.get("reuse_ind")), "returned": repr(out[1])})
                if nth == 0:
                    outs.append(out)
            if cfg["feasible"]:
                stats["feasible"] += 1
            elif in_scope(cfg):
                stats["infeasible"] += 1
            else:
                stats["out_of_scope"] += 1
            for k in ("num_type", "seq_type", "domain", "closest_obj", "ctor_kw"):
                key = "%s=%s" % (k, cfg.get(k))
                flavours[key] = flavours.get(key, 0) + 1
            if cfg.get("reconf"):
                stats["reconfigured"] = stats.get("reconfigured", 0) + 1
        if len(calls) > 1:
            stats["sequences"] = stats.get("sequences", 0) + 1
        return outs

    def run_session(cfgs, collect=True):
        """the calls one after the other on ONE decorator instance (a new one where the construction must differ)"""
        calls, sid, first = [], 0, None
        for cfg in cfgs:
            if first is None or not (cfg.get("reconf") or compatible(first, cfg)):
                sid += 1
            first = cfg
            calls.append((sid, cfg))
        return run_calls(calls, collect)

    def one(cfg, collect=True):
        return run_session([cfg], collect)[0]

    def with_partner(cfg, collect=True):
        if not cfg["feasible"] and in_scope(cfg):
            cfg2 = grown(rng, cfg)
            out, out2 = run_session([cfg, cfg2], collect)     # on the same decorated function where possible
            stats["mono_pairs"] += 1
            for b in oracle_monotone(cfg, out, cfg2, out2):
                run.oracle_violation(b, {"smaller_distance": describe(cfg, out, []), "larger_distance": describe(cfg2, out2, [])},
                                     observed=[repr(out[1]), repr(out2[1])])
        else:
            one(cfg, collect)

    # aliases are the same classes (the statement says "either penalty decorator")
    for a, b in (("DeltaPenality", "DeltaPenalty"), ("ClosestValidPenality", "ClosestValidPenalty")):
        if getattr(constraint, a, None) is not getattr(constraint, b, None) or getattr(deap.tools, b, None) is not getattr(constraint, b):
            run.notes.append("alias %s is not %s / not exported by deap.tools" % (a, b))

    # ---- exhaustive small scopes ------------------------------------------------------------------
    def exhaustive(collect=True):
        for n in range(1, 5):
            for signs in itertools.product([1, -1], repeat=n):
                for dshape in ("scalar", "vector"):
                    for xshape in ("none", "scalar", "vector"):
                        for feasible in (False, True):
                            w = [s * rng.choice(MAGS) for s in signs]
                            with_partner(base_cfg(rng, "delta", w, feasible, dshape, xshape), collect)
                for xshape in ("none", "scalar", "vector"):
                    for feasible in (False, True):
                        for alpha in (0.0, 0.5, 2):
                            w = [s * rng.choice(MAGS) for s in signs]
                            with_partner(base_cfg(rng, "closest", w, feasible, None, xshape, alpha), collect)
        # every extra-argument shape, feasible and infeasible, both decorators
        for extra in ARGSETS:
            for kind in ("delta", "closest"):
                for feasible in (False, True):
                    with_partner(base_cfg(rng, kind, [1.0, -1.0], feasible, "vector", "vector", extra=extra), collect)
        # every colliding keyword name, alone and together with a positional, feasible and infeasible, both decorators;
        # all calls of one (decorator, distance-shape) go to the same decorated function
        for kind in ("delta", "closest"):
            for xshape in ("none", "vector"):
                first = base_cfg(rng, kind, [2.0, -1.0], True, "scalar", xshape, extra=((), {}))
                seq = [first]
                for nm in COLLIDING + NEUTRAL:
                    for feasible in (True, False):
                        extra = ((rng.randint(-9, 9),) if rng.random() < 0.5 else (), {nm: rng.choice([2, 3, 5, -4])})
                        w = [s_ * rng.choice(MAGS) for s_ in rng.choice([(1, -1), (-1, 1), (1, 1), (-1, -1)])]
                        seq.append(follow(rng, first, w, feasible, None if xshape == "none" else rng.choice(["scalar", "vector"]), extra))
                run_session(seq, collect)
        # every ordered pair of weight-sign vectors, one after the other on the same decorated function
        # (different fitness classes, different magnitudes), both infeasible
        for n in range(1, run.scale(3, 4) + 1):
            vecs = list(itertools.product([1, -1], repeat=n))
            for kind in ("delta", "closest"):
                for s1 in vecs:
                    for s2 in vecs:
                        xshape = rng.choice(["scalar", "vector"])
                        first = base_cfg(rng, kind, [x * rng.choice(MAGS) for x in s1], False, "scalar", xshape)
                        first["call_twice"] = False
                        second = follow(rng, first, [x * rng.choice(MAGS) for x in s2], False)
                        run_session([first, second], collect)

    # ---- random -----------------------------------------------------------------------------------
    def rand_weight():
        r = rng.random()
        if r < 0.08:
            return rng.choice([0.0, -0.0])
        if r < 0.12:
            return rng.choice([1e-300, -1e-300, 1e300, -1e300, 5e-324, -5e-324])
        return rng.choice([1, -1]) * rng.choice(MAGS)

    def random_case(collect=True):
        kind = rng.choice(["delta", "closest"])
        n = rng.choice([1, 1, 2, 2, 3, 3, 4, 4, 4, 5, 6, 10])
        w = [rand_weight() for _ in range(n)]
        cfg = base_cfg(rng, kind, w, rng.random() < 0.3, rng.choice(["scalar", "vector"]), rng.choice(["none", "scalar", "vector"]))
        with_partner(cfg, collect)

    def make_sequence(kind, n):
        first = base_cfg(rng, kind, [rand_weight() for _ in range(n)], rng.random() < 0.4,
                         rng.choice(["scalar", "scalar", "vector"]), rng.choice(["none", "scalar", "vector"]))
        first["call_twice"] = False
        seq = [first]
        for _ in range(rng.randint(1, 5)):
            m = n if rng.random() < 0.75 else rng.choice([1, 2, 3, 4])
            seq.append(follow(rng, seq[-1], [rand_weight() for _ in range(m)], rng.random() < 0.4, reconf=rng.random() < 0.3))
            seq[-1]["which_func"] = rng.randint(0, 1)
        return seq

    def random_sequence(collect=True):
        """2..6 calls on one decorator instance: individuals of different fitness classes (sign patterns, magnitudes,
        same and different numbers of objectives) or the same individual object with changed weights, feasible /
        infeasible interleaved, own extra arguments, public attributes of the decorator reassigned in between"""
        run_session(make_sequence(rng.choice(["delta", "closest"]), rng.choice([1, 2, 2, 3, 3, 4])), collect)

    def random_interleaved(collect=True):
        """two decorator instances (same or different class) used alternately: nothing may leak through the class or module"""
        k1 = rng.choice(["delta", "closest"])
        k2 = k1 if rng.random() < 0.7 else rng.choice(["delta", "closest"])
        a, b = make_sequence(k1, rng.choice([1, 2, 3])), make_sequence(k2, rng.choice([1, 2, 3]))
        calls = []
        while a or b:
            if a and (not b or rng.random() < 0.5):
                calls.append((1, a.pop(0)))
            else:
                calls.append((2, b.pop(0)))
        run_calls(calls, collect)

    def out_of_scope_case(collect=True):
        """sizes that do not agree, empty weights, evaluator returning a bare number: correspondence only"""
        kind = rng.choice(["delta", "closest"])
        n = rng.choice([0, 1, 2, 3, 4])
        w = [rand_weight() for _ in range(n)]
        cfg = base_cfg(rng, kind, w, rng.random() < 0.15, "vector", rng.choice(["none", "scalar", "vector", "vector"]),
                       domain="dyadic")
        m = rng.choice([0, 1, 2, 3, 5])
        what = rng.choice(["delta", "dist", "e1", "e1num", "both"])
        if kind == "delta" and what in ("delta", "both", "e1", "e1num"):
            cfg["delta"] = [dy(rng) for _ in range(m)]
        if what in ("dist", "both") and cfg["dist"] is not None:
            cfg["dist"] = [dynn(rng) for _ in range(rng.choice([0, 1, 2, 3, 5]))]
        if kind == "closest" and what in ("e1", "both", "delta"):
            cfg["e1"] = [dy(rng) for _ in range(m)]
        if kind == "closest" and what == "e1num":
            cfg["e1"] = dy(rng)
        one(cfg, collect)

    exhaustive()
    for _ in range(run.scale(600, 4000)):
        random_case()
    for _ in range(run.scale(200, 1000)):
        out_of_scope_case()
    for _ in range(run.scale(200, 1500)):
        random_sequence()
    for _ in range(run.scale(60, 500)):
        random_interleaved()
    if run.thorough:
        exhaustive()      # a second sweep with fresh numbers

    run.extra_cov["case_kinds"] = stats
    run.extra_cov["flavours"] = flavours
    bad_model = run.correspond("model", "C19", terms, cases)
    if gen_ok:
        run.correspond("regenerated", "C19", terms, cases, check="check_gen",
                       requires=["From DV Require Import Gen.C19_gen."])
    elif translated:
        # diagnosis: the source still translates but is no longer (provably) the model.  Do the regenerated
        # definitions at least describe the implementation?  (yes + model disagrees => the source changed meaning)
        try:
            dfile = os.path.join(run.rundir, "C19_gen_defs.v")
            with open(dfile, "w") as f:
                f.write(c19_py2coq.translate_repo(vlib.REPO, trailer=False))
            rc, out = vlib.coqc_file(dfile, cwd=run.rundir)
            if rc == 0:
                bad_gen = run.correspond("regenerated_diagnosis", "C19", terms, cases, check="check_gen",
                                         requires=["Require Import C19_gen_defs."])
                if run.corr_groups.get("regenerated_diagnosis", {}).get("errors"):
                    run.notes.append("diagnosis: the shards for the regenerated definitions did not compile")
                else:
                    run.notes.append("diagnosis: regenerated definitions (not equal to the model) disagree with the implementation "
                                     "on %d cases, the model on %d cases" % (len(bad_gen), len(bad_model)))
            else:
                run.notes.append("diagnosis: regenerated definitions do not compile: " + out[-500:])
        except Exception as e:  # noqa
            run.notes.append("diagnosis step failed: %r" % (e,))

    def search(run):
        # something no longer checks and no failing input was seen: look harder with the oracle alone
        for _ in range(run.scale(4000, 40000)):
            random_case(collect=False)
            random_sequence(collect=False)
            random_interleaved(collect=False)
            if run.oracle_viol:
                return
        exhaustive(collect=False)
    run.search_fn = search
