"""C19 — Penalty decorators leave feasible fitness intact and never reward infeasibility
(deap/tools/constraint.py: DeltaPenalty / DeltaPenality, ClosestValidPenalty / ClosestValidPenality).

Ties: (T) harness/c19_py2coq.py regenerates coq/Gen/C19_gen.v from the working tree on every run and
coqc re-proves `regenerated = model` plus the property theorems on the regenerated definitions;
(C) the model (and the regenerated definitions) are evaluated inside coqc on the same configurations
as the implementation and the returned value / raised exception / full callback log are compared.
The oracle below is the property statement written directly against what the decorated function
returned and what the recording callbacks saw; it does not use the Coq model.
"""
import itertools
import os
from fractions import Fraction
from numbers import Number

import vlib
from vlib import cbool, clist, copt, cstr

import c19_py2coq

GEN = os.path.join(vlib.COQ, "Gen", "C19_gen.v")


# ---- Coq literals ---------------------------------------------------------------------------------
def cqq(x):
    fr = Fraction(x)
    n, d = fr.numerator, fr.denominator
    return "(Qmake %s %d%%positive)" % ("(%d)%%Z" % n if n < 0 else "%d%%Z" % n, d)


def is_num(x):
    return isinstance(x, Number) and not isinstance(x, bool) and not isinstance(x, complex) and x == x \
        and x not in (float("inf"), float("-inf"))


def to_val(x):
    """Python value -> Coq val term, or None when it is outside the universe (unexpected type)."""
    try:
        if is_num(x):
            return "(VNum %s)" % cqq(x)
        if isinstance(x, (tuple, list)) and all(is_num(y) for y in x):
            return "(VTup %s)" % clist([cqq(y) for y in x])
    except Exception:  # noqa
        pass
    return None


def cargs(args, kwargs):
    return "(%s, %s)" % (clist([vlib.cz(a) for a in args]),
                         clist(["(%s, %s)" % (cstr(k), vlib.cz(v)) for k, v in kwargs.items()]))


def cevent(e):
    k = e[0]
    if k == "feas":
        return "EFeas %s" % vlib.cz(e[1])
    if k == "eval":
        return "EEval %s %s" % (vlib.cz(e[1]), cargs(e[2], e[3]))
    if k == "closest":
        return "EClosest %s" % vlib.cz(e[1])
    if k == "dist1":
        return "EDist1 %s" % vlib.cz(e[1])
    return "EDist2 %s %s" % (vlib.cz(e[1]), vlib.cz(e[2]))


def coutcome(out):
    if out[0] == "ok":
        v = to_val(out[1])
        return "(Ok %s)" % v if v is not None else "(Exc NonTermination)"   # never produced by the model
    return "(Exc %s)" % (out[1] if out[1] in ("IndexError", "TypeError") else "NonTermination")


# ---- running the implementation -------------------------------------------------------------------
class World:
    """One configuration: two individuals, recording callbacks with table answers."""

    def __init__(self, mod, cfg, mkind):
        self.cfg = cfg
        self.log = []
        self.ind0 = mkind(cfg["w0"], 0)
        self.ind1 = mkind(cfg.get("w1", cfg["w0"]), 1)
        self.e0 = tuple(cfg["e0"]) if isinstance(cfg["e0"], (list, tuple)) else cfg["e0"]
        e1 = cfg.get("e1", ())
        self.e1 = tuple(e1) if isinstance(e1, (list, tuple)) else e1
        self.mod = mod

    def ident(self, x):
        return 0 if x is self.ind0 else 1 if x is self.ind1 else 99

    def feasibility(self, ind):
        self.log.append(("feas", self.ident(ind)))
        return self.cfg["feas_value"]

    def evaluate(self, ind, *args, **kwargs):
        try:
            a = tuple(int(x) for x in args)
            k = dict((str(n), int(v)) for n, v in kwargs.items())
        except Exception:  # noqa
            a, k = (-999,), {}
        self.log.append(("eval", self.ident(ind), a, k))
        return self.e0 if ind is self.ind0 else self.e1

    def feasible(self, ind):
        self.log.append(("closest", self.ident(ind)))
        return self.ind1

    def dist1(self, ind):
        self.log.append(("dist1", self.ident(ind)))
        return self.conv(self.cfg["dist"]) if ind is self.ind0 else ()

    def dist2(self, f, ind):
        self.log.append(("dist2", self.ident(f), self.ident(ind)))
        if f is self.ind1 and ind is self.ind0:
            return self.conv(self.cfg["dist"])
        return self.cfg["dother"]

    def conv(self, v):
        if isinstance(v, list):
            return tuple(v) if self.cfg.get("seq_as_tuple", True) else list(v)
        return v

    def run(self):
        cfg, mod = self.cfg, self.mod
        alias = cfg.get("alias", False)
        if cfg["kind"] == "delta":
            cls = getattr(mod, "DeltaPenality", mod.DeltaPenalty) if alias else mod.DeltaPenalty
            dargs = [self.feasibility, self.conv(cfg["delta"])]
            if cfg["dist"] is not None or cfg.get("explicit_none"):
                dargs.append(self.dist1 if cfg["dist"] is not None else None)
            mk = lambda: cls(*dargs)  # noqa
        else:
            cls = getattr(mod, "ClosestValidPenality", mod.ClosestValidPenalty) if alias else mod.ClosestValidPenalty
            dargs = [self.feasibility, self.feasible, cfg["alpha"]]
            if cfg["dist"] is not None or cfg.get("explicit_none"):
                dargs.append(self.dist2 if cfg["dist"] is not None else None)
            mk = lambda: cls(*dargs)  # noqa

        def build():
            dec = mk()
            if cfg.get("via_toolbox"):
                from deap import base
                tb = base.Toolbox()
                tb.register("evaluate", self.evaluate)
                tb.decorate("evaluate", dec)
                return tb.evaluate
            return dec(self.evaluate)
        b = vlib.guarded(build)
        if b[0] != "ok":
            return [(b, list(self.log))]
        f = b[1]
        runs = []
        for _ in range(2 if cfg.get("call_twice") else 1):
            # the decorated function is stateless: a second call must behave like the first
            del self.log[:]
            out = vlib.guarded(lambda: f(self.ind0, *cfg["args"], **cfg["kwargs"]))
            runs.append((out, list(self.log)))
        return runs


def sign_expected(w):
    return 1 if w > 0 else -1 if w < 0 else 0


def in_scope(cfg):
    """Configurations the property statement quantifies over (sizes agree, numbers/tuples)."""
    n = len(cfg["w0"])
    if n < 1:
        return False
    if cfg["kind"] == "delta":
        if isinstance(cfg["delta"], list) and len(cfg["delta"]) != n:
            return False
    else:
        if not isinstance(cfg["e1"], (list, tuple)) or len(cfg["e1"]) != n:
            return False
    if isinstance(cfg["dist"], list) and len(cfg["dist"]) != n:
        return False
    return True


def comp(v, k):
    return v[k] if isinstance(v, (list, tuple)) else v


def oracle(cfg, world, out, log):
    """The property statement, evaluated on the returned value and the recorded calls.  Returns failures."""
    bad = []
    evals = [e for e in log if e[0] == "eval"]
    want_extra = (tuple(cfg["args"]), dict(cfg["kwargs"]))
    if cfg["feasible"]:
        if out[0] != "ok":
            return ["feasible individual: decorated function raised %s" % out[1]]
        if out[1] is not world.e0:
            bad.append("feasible individual: result is not what the undecorated function returns")
        if [(e[1], e[2], e[3]) for e in evals] != [(0,) + want_extra]:
            bad.append("feasible individual: evaluator not called exactly once on the individual with the same extra arguments")
        return bad
    if not in_scope(cfg):
        return bad
    n = len(cfg["w0"])
    dist = cfg["dist"] if cfg["dist"] is not None else 0
    if out[0] != "ok":
        return ["infeasible individual: decorated function raised %s" % out[1]]
    r = out[1]
    if not isinstance(r, tuple) or len(r) != n or not all(is_num(x) for x in r):
        return ["infeasible individual: result is not a tuple with one number per objective"]
    if cfg["kind"] == "delta":
        if evals:
            bad.append("constant penalty: evaluation function called for an infeasible individual")
        base = [comp(cfg["delta"], k) for k in range(n)]
        step = [comp(dist, k) for k in range(n)]
        what = "constant"
    else:
        if [(e[1], e[2], e[3]) for e in evals] != [(1,) + want_extra]:
            bad.append("closest valid: evaluator not called exactly once, on the closest valid point, with the same extra arguments")
        base = list(cfg["e1"])
        step = [Fraction(cfg["alpha"]) * Fraction(comp(dist, k)) for k in range(n)]
        what = "closest valid fitness"
    for k in range(n):
        s = sign_expected(cfg["w0"][k])
        rk, bk, dk = Fraction(r[k]), Fraction(base[k]), Fraction(step[k])
        if s != 0 and rk != bk - s * dk:
            bad.append("objective %d: result is not the %s moved by the distance in the worse direction" % (k, what))
        if s == 0 and abs(rk - bk) != abs(dk):
            bad.append("objective %d (zero weight): result is not the %s moved by the distance" % (k, what))
        if (s > 0 and rk > bk) or (s < 0 and rk < bk):
            bad.append("objective %d: penalised fitness better than the %s" % (k, what))
    return bad


def oracle_monotone(cfg, out, cfg2, out2):
    """cfg2 = cfg with a distance at least as large on every objective: no objective may improve."""
    if out[0] != "ok" or out2[0] != "ok":
        return []
    r, r2 = out[1], out2[1]
    n = len(cfg["w0"])
    if not (isinstance(r, tuple) and isinstance(r2, tuple) and len(r) == n and len(r2) == n):
        return []
    bad = []
    for k in range(n):
        s = sign_expected(cfg["w0"][k])
        if not (is_num(r[k]) and is_num(r2[k])):
            continue
        if (s > 0 and r2[k] > r[k]) or (s < 0 and r2[k] < r[k]):
            bad.append("objective %d: penalised fitness improves as the distance grows" % k)
    return bad


# ---- case terms -----------------------------------------------------------------------------------
def case_term(cfg, out, log):
    lg = clist([cevent(e) for e in log])
    a = cargs(cfg["args"], cfg["kwargs"])
    wl = lambda w: clist([cqq(x) for x in w])  # noqa
    if cfg["kind"] == "delta":
        return "CDelta %s %s %s %s %s %s %s %s" % (
            wl(cfg["w0"]), cbool(cfg["feasible"]), to_val(cfg["delta"]), copt(cfg["dist"], to_val),
            to_val(cfg["e0"]), a, coutcome(out), lg)
    d = None if cfg["dist"] is None else "(%s, %s)" % (to_val(cfg["dist"]), to_val(cfg["dother"]))
    return "CClosest %s %s %s %s %s %s %s %s %s %s" % (
        wl(cfg["w0"]), wl(cfg["w1"]), cbool(cfg["feasible"]), cqq(cfg["alpha"]),
        "None" if d is None else "(Some %s)" % d, to_val(cfg["e0"]), to_val(cfg["e1"]), a, coutcome(out), lg)


# ---- generators -----------------------------------------------------------------------------------
TRUTHY = [True, 1, "yes", [0], 2.5]
FALSY = [False, 0, None, "", [], 0.0]
MAGS = [1.0, 1.0, 0.5, 2.0, 3.0, 0.125, 1e-3, 1e6, 7.25]
ARGSETS = [((), {}), ((3,), {}), ((3, -4), {}), ((), {"k": 5}), ((7,), {"k": 5, "j": -1}), ((0, 0, 1), {"z": 0, "a": 2})]


def dy(rng, lo=-40, hi=40, den=8):
    return rng.randint(lo, hi) / den


def dynn(rng, hi=40, den=8):
    """non-negative dyadic, with a fair share of zeros"""
    return 0.0 if rng.random() < 0.2 else rng.randint(0, hi) / den


def base_cfg(rng, kind, w, feasible, delta_shape, dist_shape, alpha=None, extra=None):
    n = len(w)
    cfg = {"kind": kind, "w0": list(w), "feasible": bool(feasible),
           "feas_value": rng.choice(TRUTHY) if feasible else rng.choice(FALSY),
           "e0": [dy(rng) for _ in range(n)],
           "args": (), "kwargs": {}, "alias": rng.random() < 0.5, "via_toolbox": rng.random() < 0.15,
           "seq_as_tuple": rng.random() < 0.7, "explicit_none": rng.random() < 0.3,
           "creator": rng.random() < 0.5, "call_twice": rng.random() < 0.2}
    a, k = extra if extra is not None else rng.choice(ARGSETS)
    cfg["args"], cfg["kwargs"] = tuple(a), dict(k)
    if rng.random() < 0.3:   # integer-valued numbers (Python ints)
        num = lambda: rng.randint(-9, 9)      # noqa
        nn = lambda: rng.randint(0, 9)        # noqa
    else:
        num = lambda: dy(rng)                 # noqa
        nn = lambda: dynn(rng)                # noqa
    if dist_shape == "none":
        cfg["dist"] = None
    elif dist_shape == "scalar":
        cfg["dist"] = nn()
    else:
        cfg["dist"] = [nn() for _ in range(n)]
    if kind == "delta":
        cfg["delta"] = num() if delta_shape == "scalar" else [num() for _ in range(n)]
    else:
        cfg["w1"] = [-x if x != 0 else 1.0 for x in w]       # the closest individual carries different weights
        cfg["e1"] = [num() for _ in range(n)]
        cfg["alpha"] = alpha if alpha is not None else rng.choice([0, 0.0, 0.25, 0.5, 1.0, 2, 3.5])
        cfg["dother"] = 64.0
    return cfg


def grown(rng, cfg):
    """the same configuration with a distance at least as large on every objective"""
    n = len(cfg["w0"])
    c = dict(cfg)
    d = cfg["dist"]
    inc = lambda: rng.choice([0, 0.5, 1.0, 2.25, 8])  # noqa
    if d is None:
        c["dist"] = rng.choice([inc(), [inc() for _ in range(n)]])
    elif isinstance(d, list):
        c["dist"] = [x + inc() for x in d]
    else:
        c["dist"] = rng.choice([d + inc(), [d + inc() for _ in range(n)]])
    return c


def main(run):
    from deap import base, creator
    from deap.tools import constraint
    import deap.tools
    rng = run.rng
    run.rule = ("exhaustive: 1..4 objectives x every weight-sign vector x {scalar, per-objective} constant x {absent, scalar, "
                "per-objective} distance x {feasible, infeasible} x both decorators (3 alphas), numbers drawn from dyadic grids; "
                "random: 1..4 objectives (some 0, 5, 6), weights of any sign/magnitude incl. 0.0 and -0.0, int and float numbers, "
                "tuple/list sequences, truthy/falsy feasibility values, a second call of the same decorated function (20%),  extra positional and keyword arguments, both class-name "
                "spellings, direct decoration and Toolbox.decorate, creator-made and plain individuals; every infeasible case is "
                "paired with the same case under a distance at least as large (monotonicity); out-of-scope sizes (zip truncation, "
                "IndexError, TypeError) are tied by correspondence only. A case is distinct by its full configuration; "
                "non-trivial = infeasible with a distance function, or feasible with extra arguments.")
    run.trusted += ["Coq 8.16.1 kernel and vm_compute",
                    "translator harness/c19_py2coq.py + run-time library coq/Base/C19_PyRt.v (itertools.repeat, zip truncation, "
                    "isinstance(x, Sequence), len/iter TypeErrors, calling None) -- validated on every run because the regenerated "
                    "definitions are evaluated against the implementation",
                    "hand-written model coq/Model/C19_Penalty.v, proved equal to the regenerated definitions on every run and tied by correspondence",
                    "numbers: rationals; the implementation is fed ints and short dyadic floats so that its arithmetic is exact; "
                    "int vs float result type is not distinguished",
                    "each user callback is a function of its arguments (each is invoked at most once per decorated call)",
                    "functools.wraps does not alter the wrapper's behaviour"]
    run.assumptions += ["distance values are >= 0 and alpha >= 0 (never_better, monotone); sizes of per-objective constants / distances "
                        "/ evaluator results equal the number of weights (otherwise zip truncation, stated in C19_delta_formula, "
                        "or IndexError, C19_closest_size_check)",
                        "delta and distance values are numbers or tuples/lists of numbers (not iterators, not numpy arrays)"]

    # ---- tie (T): regenerate Gen/C19_gen.v from the working tree --------------------------------
    translated, refusal = False, None
    try:
        text = c19_py2coq.translate_repo(vlib.REPO)
        translated = True
    except c19_py2coq.Refuse as e:
        refusal = e
    except Exception as e:  # noqa  (unreadable file etc.: fail closed as a refusal)
        refusal = c19_py2coq.Refuse("Module", "translator error %s: %s" % (type(e).__name__, e))
    with vlib.BuildLock():
        os.makedirs(os.path.dirname(GEN), exist_ok=True)
        if translated:
            with open(GEN, "w") as f:
                f.write(text)
        else:
            for ext in ("", "o", "ok", "os"):
                try:
                    os.remove(GEN + ext)
                except OSError:
                    pass
    run.build_props()
    gen_ok = False
    if translated:
        gen_ok = run.build_props(props="Gen/C19_gen.v")
        run.extra_cov["tie"] = "translator + correspondence" if gen_ok else "translator succeeded but the regenerated definitions no longer check"
        if not gen_ok:
            # keep the offending text for the replay, do not leave an uncompilable file in the shared tree
            try:
                os.replace(GEN, os.path.join(run.rundir, "C19_gen.v.broken"))
            except OSError:
                pass
    else:
        note = "tie: correspondence-only (translator refused %s at line %s: %s)" % (refusal.node, refusal.line, refusal.why)
        run.notes.append(note)
        run.extra_cov["tie"] = note

    # ---- individuals ------------------------------------------------------------------------------
    ccache = {}

    def mkind(w, tag, use_creator):
        w = tuple(w)
        if use_creator:
            if w not in ccache:
                k = len(ccache)
                creator.create("C19Fit%d" % k, base.Fitness, weights=w)
                creator.create("C19Ind%d" % k, list, fitness=getattr(creator, "C19Fit%d" % k))
                ccache[w] = getattr(creator, "C19Ind%d" % k)
            ind = ccache[w]([0.0, float(tag)])
        else:
            class _F(object):
                pass

            class _I(object):
                pass
            ind = _I()
            ind.fitness = _F()
            ind.fitness.weights = w
        return ind

    terms, cases = [], []
    stats = {"feasible": 0, "infeasible": 0, "out_of_scope": 0, "raised": 0, "mono_pairs": 0}

    def execute(cfg):
        world = World(constraint, cfg, lambda w, tag: mkind(w, tag, cfg.get("creator", False)))
        return world, world.run()

    def describe(cfg, out, log):
        d = dict(cfg)
        d["feas_value"] = repr(d["feas_value"])
        d["observed"] = [out[0], repr(out[1])]
        d["calls"] = [list(map(repr, e)) for e in log]
        return d

    def one(cfg, collect=True):
        world, runs = execute(cfg)
        nontrivial = (not cfg["feasible"] and cfg["dist"] is not None) or (cfg["feasible"] and (cfg["args"] or cfg["kwargs"]))
        for nth, (out, log) in enumerate(runs):
            case = describe(cfg, out, log)
            case["call_number"] = nth + 1
            run.note_case({k: v for k, v in case.items() if k not in ("observed", "calls")}, nontrivial,
                          sample=case if (run.evaluations % 211 == 3) else None)
            for b in oracle(cfg, world, out, log):
                run.oracle_violation(b if nth == 0 else "second call of the same decorated function: " + b, case,
                                     observed=case["observed"])
            if out[0] == "raise":
                stats["raised"] += 1
            if collect:
                terms.append(case_term(cfg, out, log))
                cases.append(case)
        if cfg["feasible"]:
            stats["feasible"] += 1
        elif in_scope(cfg):
            stats["infeasible"] += 1
        else:
            stats["out_of_scope"] += 1
        return runs[0][0]

    def with_partner(cfg, collect=True):
        out = one(cfg, collect)
        if not cfg["feasible"] and in_scope(cfg):
            cfg2 = grown(rng, cfg)
            out2 = one(cfg2, collect)
            stats["mono_pairs"] += 1
            for b in oracle_monotone(cfg, out, cfg2, out2):
                run.oracle_violation(b, {"smaller_distance": describe(cfg, out, []), "larger_distance": describe(cfg2, out2, [])},
                                     observed=[repr(out[1]), repr(out2[1])])

    # aliases are the same classes (the statement says "either penalty decorator")
    for a, b in (("DeltaPenality", "DeltaPenalty"), ("ClosestValidPenality", "ClosestValidPenalty")):
        if getattr(constraint, a, None) is not getattr(constraint, b, None) or getattr(deap.tools, b, None) is not getattr(constraint, b):
            run.notes.append("alias %s is not %s / not exported by deap.tools" % (a, b))

    # ---- exhaustive small scopes ------------------------------------------------------------------
    def exhaustive(collect=True):
        for n in range(1, 5):
            for signs in itertools.product([1, -1], repeat=n):
                for dshape in ("scalar", "vector"):
                    for xshape in ("none", "scalar", "vector"):
                        for feasible in (False, True):
                            w = [s * rng.choice(MAGS) for s in signs]
                            with_partner(base_cfg(rng, "delta", w, feasible, dshape, xshape), collect)
                for xshape in ("none", "scalar", "vector"):
                    for feasible in (False, True):
                        for alpha in (0.0, 0.5, 2):
                            w = [s * rng.choice(MAGS) for s in signs]
                            with_partner(base_cfg(rng, "closest", w, feasible, None, xshape, alpha), collect)
        # every extra-argument shape, feasible and infeasible, both decorators
        for extra in ARGSETS:
            for kind in ("delta", "closest"):
                for feasible in (False, True):
                    with_partner(base_cfg(rng, kind, [1.0, -1.0], feasible, "vector", "vector", extra=extra), collect)

    # ---- random -----------------------------------------------------------------------------------
    def rand_weight():
        r = rng.random()
        if r < 0.08:
            return rng.choice([0.0, -0.0])
        if r < 0.12:
            return rng.choice([1e-300, -1e-300, 1e300, -1e300, 5e-324, -5e-324])
        return rng.choice([1, -1]) * rng.choice(MAGS)

    def random_case(collect=True):
        kind = rng.choice(["delta", "closest"])
        n = rng.choice([1, 1, 2, 2, 3, 3, 4, 4, 4, 5, 6])
        w = [rand_weight() for _ in range(n)]
        cfg = base_cfg(rng, kind, w, rng.random() < 0.3, rng.choice(["scalar", "vector"]), rng.choice(["none", "scalar", "vector"]))
        with_partner(cfg, collect)

    def out_of_scope_case(collect=True):
        """sizes that do not agree, empty weights, evaluator returning a bare number: correspondence only"""
        kind = rng.choice(["delta", "closest"])
        n = rng.choice([0, 1, 2, 3, 4])
        w = [rand_weight() for _ in range(n)]
        cfg = base_cfg(rng, kind, w, rng.random() < 0.15, "vector", rng.choice(["none", "scalar", "vector", "vector"]))
        m = rng.choice([0, 1, 2, 3, 5])
        what = rng.choice(["delta", "dist", "e1", "e1num", "both"])
        if kind == "delta" and what in ("delta", "both", "e1", "e1num"):
            cfg["delta"] = [dy(rng) for _ in range(m)]
        if what in ("dist", "both") and cfg["dist"] is not None:
            cfg["dist"] = [dynn(rng) for _ in range(rng.choice([0, 1, 2, 3, 5]))]
        if kind == "closest" and what in ("e1", "both", "delta"):
            cfg["e1"] = [dy(rng) for _ in range(m)]
        if kind == "closest" and what == "e1num":
            cfg["e1"] = dy(rng)
        one(cfg, collect)

    exhaustive()
    for _ in range(run.scale(600, 4000)):
        random_case()
    for _ in range(run.scale(200, 1000)):
        out_of_scope_case()
    if run.thorough:
        exhaustive()      # a second sweep with fresh numbers

    run.extra_cov["case_kinds"] = stats
    bad_model = run.correspond("model", "C19", terms, cases)
    if gen_ok:
        run.correspond("regenerated", "C19", terms, cases, check="check_gen",
                       requires=["From DV Require Import Gen.C19_gen."])
    elif translated:
        # diagnosis: the source still translates but is no longer (provably) the model.  Do the regenerated
        # definitions at least describe the implementation?  (yes + model disagrees => the source changed meaning)
        try:
            dfile = os.path.join(run.rundir, "C19_gen_defs.v")
            with open(dfile, "w") as f:
                f.write(c19_py2coq.translate_repo(vlib.REPO, trailer=False))
            rc, out = vlib.coqc_file(dfile, cwd=run.rundir)
            if rc == 0:
                bad_gen = run.correspond("regenerated_diagnosis", "C19", terms, cases, check="check_gen",
                                         requires=["Require Import C19_gen_defs."])
                if run.corr_groups.get("regenerated_diagnosis", {}).get("errors"):
                    run.notes.append("diagnosis: the shards for the regenerated definitions did not compile")
                else:
                    run.notes.append("diagnosis: regenerated definitions (not equal to the model) disagree with the implementation "
                                     "on %d cases, the model on %d cases" % (len(bad_gen), len(bad_model)))
            else:
                run.notes.append("diagnosis: regenerated definitions do not compile: " + out[-500:])
        except Exception as e:  # noqa
            run.notes.append("diagnosis step failed: %r" % (e,))

    def search(run):
        # something no longer checks and no failing input was seen: look harder with the oracle alone
        for _ in range(run.scale(4000, 40000)):
            random_case(collect=False)
            if run.oracle_viol:
                return
        exhaustive(collect=False)
    run.search_fn = search
