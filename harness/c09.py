"""C09 -- discrete crossovers and mutations conserve genes, lengths and permutations
(deap/tools/crossover.py, deap/tools/mutation.py)."""
import array
import itertools
import random as _pyrandom
import sys
from collections import Counter
from fractions import Fraction

import os
import re
import time

import vlib
from vlib import cz, czl, cbool, copt, clist, cpair, cq, cnatl, guarded

GEN = os.path.join(vlib.COQ, "Gen", "C09_gen.v")


def regen(repo=None, typecheck=True):
    """Tie (T): regenerate coq/Gen/C09_gen.v from the working tree's deap/tools/crossover.py and mutation.py
    (harness/c09_py2coq.py).  A function the translator refuses is emitted as an alias of the model; so is one
    whose generated definition does not type-check (the translator must never make the build fail on a source
    it did not understand).  Returns {function: None (regenerated) | refusal text}."""
    import c09_py2coq
    repo = repo or vlib.REPO
    forced = {}
    for _ in range(len(c09_py2coq.FUNCTIONS) + 1):
        text, status = c09_py2coq.translate_repo(repo, forced)
        with vlib.BuildLock():
            os.makedirs(os.path.dirname(GEN), exist_ok=True)
            old = open(GEN).read() if os.path.exists(GEN) else None
            if old != text:
                with open(GEN, "w") as f:
                    f.write(text)
        if not typecheck or all(v is not None for v in status.values()):
            break
        ok, out = vlib.make_targets(["Gen/C09_gen.vo"], timeout=1200)
        for attempt in range(2):
            if ok or "Error" in out:
                break
            time.sleep(10)                       # make died without a Coq error (killed): not a verdict
            ok, out = vlib.make_targets(["Gen/C09_gen.vo"], timeout=1200)
        if ok:
            break
        m = re.search(r'File "\./Gen/C09_gen\.v", line (\d+)', out)
        if not m:
            break                                # the failure is elsewhere: reported by build_props
        line = int(m.group(1))
        culprit = None
        for k, l in enumerate(text.splitlines(), 1):
            d = re.match(r"Definition gen_(\w+)", l)
            if d and k <= line:
                culprit = d.group(1)
        if culprit is None or culprit in forced or status.get(culprit) is not None:
            break
        forced[culprit] = c09_py2coq.Refuse("FunctionDef", "the generated definition does not type-check: %s"
                                            % " ".join(out[m.end():m.end() + 300].split()))
    return {k: (None if v is None else str(v)) for k, v in status.items()}


# ----------------------------------------------------------------------------
# scripted / logging stand-in for the `random` module inside the module under test
# ----------------------------------------------------------------------------
class DrawProxy(object):
    """Replaces the name `random` in deap.tools.crossover / deap.tools.mutation.
    Values come from `script` (consumed in call order) while it lasts and fits the call,
    otherwise from a seeded Mersenne Twister.  Every call is logged with its arguments."""

    def __init__(self, script=None, seed=0):
        self.script = list(script or [])
        self.rng = _pyrandom.Random(seed)
        self.log = []

    def _next(self, accept):
        if self.script:
            v = self.script.pop(0)
            if accept(v):
                return True, v
        return False, None

    def random(self):
        ok, v = self._next(lambda v: isinstance(v, float) and 0.0 <= v < 1.0)
        if not ok:
            v = self.rng.random()
        self.log.append(("random", v))
        return v

    def randint(self, a, b):
        try:
            a_i, b_i = int(a), int(b)
        except Exception:
            self.log.append(("other", "randint"))
            return self.rng.randint(a, b)
        if b_i < a_i:
            self.log.append(("randint", a_i, b_i, None))
            return self.rng.randint(a_i, b_i)      # raises ValueError like the real module
        ok, v = self._next(lambda v: isinstance(v, int) and not isinstance(v, bool) and a_i <= v <= b_i)
        if not ok:
            v = self.rng.randint(a_i, b_i)
        self.log.append(("randint", a_i, b_i, v))
        return v

    def randrange(self, start, stop=None, step=1):
        if stop is not None or step != 1:
            self.log.append(("other", "randrange3"))
            return self.rng.randrange(start, stop, step)
        n = int(start)
        if n <= 0:
            self.log.append(("randrange", n, None))
            return self.rng.randrange(n)
        ok, v = self._next(lambda v: isinstance(v, int) and not isinstance(v, bool) and 0 <= v < n)
        if not ok:
            v = self.rng.randrange(n)
        self.log.append(("randrange", n, v))
        return v

    def sample(self, population, k):
        if not (isinstance(population, range) and population.start == 0 and population.step == 1 and k == 2):
            self.log.append(("other", "sample"))
            return self.rng.sample(population, k)
        n = len(population)
        if n < 2:
            self.log.append(("sample2", n, None))
            return self.rng.sample(population, k)
        ok, v = self._next(lambda v: isinstance(v, tuple) and len(v) == 2 and v[0] != v[1]
                           and 0 <= v[0] < n and 0 <= v[1] < n)
        v = list(v) if ok else self.rng.sample(population, 2)
        self.log.append(("sample2", n, (int(v[0]), int(v[1]))))
        return v

    def __getattr__(self, name):            # anything else the code might call
        self.log.append(("other", name))
        return getattr(self.rng, name)


def cdraw(d):
    k = d[0]
    if k == "random":
        return "DRandom %s" % cq(Fraction(d[1]))
    if k == "randint":
        return "DRandint %s %s %s" % (cz(d[1]), cz(d[2]), copt(d[3], cz))
    if k == "randrange":
        return "DRandrange %s %s" % (cz(d[1]), copt(d[2], cz))
    if k == "sample2":
        return "DSample2 %s %s" % (cz(d[1]), copt(d[2], lambda p: cpair(cz(p[0]), cz(p[1]))))
    return "DSample2 (-12345)%Z None"       # a call the model never makes -> Mismatch


def cdraws(log):
    return clist([cdraw(d) for d in log])


def cexn(name):
    return {"ValueError": "(Raise ValueError)", "IndexError": "(Raise IndexError)"}.get(name, "Mismatch")


def cgene(x):
    import numpy
    if isinstance(x, (bool, numpy.bool_)):
        return "GBool %s" % cbool(bool(x))
    if isinstance(x, float):
        if x != int(x):
            return "GFloat (-777)%Z"
        return "GFloat %s" % cz(int(x))
    return "GInt %s" % cz(int(x))


def is_seq(b):
    return isinstance(b, (list, tuple, range, array.array))


def cbound(b):
    if is_seq(b):
        return "(BSeq %s)" % czl(list(b))
    return "(BScalar %s)" % cz(b)


def ints(seq):
    return [int(x) for x in seq]


def ms(*seqs):
    c = Counter()
    for s in seqs:
        c.update(s)
    return c


def correspond_robust(run, group, module, terms, cases, shard=250, per_call=8, retries=4, check="check", requires=()):
    """run.correspond in chunks of `per_call` shards; a chunk in which a coqc process died (the machine
    is shared; coqc gets OOM-killed under load) is re-run instead of being reported as a disagreement.
    Real disagreements (coqc ran and `check` returned false) are never retried or dropped."""
    failing = []
    old_ncpu = vlib.NCPU
    vlib.NCPU = max(1, min(old_ncpu, per_call))
    total = {"cases": 0, "disagree": 0, "errors": 0}
    died = 0
    try:
        chunk = shard * per_call
        for j in range(0, len(terms), chunk):
            sub_t, sub_c = terms[j:j + chunk], cases[j:j + chunk]
            for attempt in range(retries):
                g = "%s%d" % (group, j // chunk) if attempt == 0 else "%s%dR%d" % (group, j // chunk, attempt)
                before = len(run.disagreements)
                bad = run.correspond(g, module, sub_t, sub_c, shard=shard, check=check, requires=requires)
                res = run.corr_groups.pop(g)
                if res["errors"] == 0 or attempt == retries - 1:
                    for k in total:
                        total[k] += res[k]
                    failing += [j + i for i in bad]
                    break
                # a coqc died: nothing of this call counts (vlib adds no traces when a shard errored)
                del run.disagreements[before:]
                died += 1
                time.sleep(3 * (attempt + 1))
    finally:
        vlib.NCPU = old_ncpu
    run.corr_groups[group] = total
    if died:
        run.notes.append("correspondence: %d chunk run(s) repeated because a coqc process died (killed / crashed)" % died)
    return failing


def build_retry(run, **kw):
    """run.build_props; a coqc/make killed by the OOM killer on the shared machine is not a broken proof:
    retry.  A genuine failure carries Coq's "Error:" in its log and is reported."""
    nb, no = len(run.broken), len(run.obligations)
    ok = run.build_props(**kw)
    for attempt in range(2):
        if ok or any("Error:" in (b.get("log") or "") for b in run.broken[nb:]):
            break
        run.notes.append("build attempt %d died without a Coq error (killed?), retrying" % (attempt + 1))
        del run.broken[nb:]
        del run.obligations[no:]
        time.sleep(10 * (attempt + 1))
        ok = run.build_props(**kw)
    return ok


def main(run):
    import numpy
    from deap import base, creator, tools
    from deap.tools import crossover as cxmod, mutation as mutmod

    run.rule = ("exhaustive: every draw combination (cut points, per-locus swap masks, swap indices, sample pairs, "
                "inversion indices) for lengths 2..4 (quick) / 2..5 (thorough), equal and unequal lengths, every pair of "
                "permutations of size <= 3 (quick) / <= 4 (thorough) plus identity x all permutations one size up; "
                "random: lengths up to 30 with seeded draws (plus a few individuals of length 65, 129, 200 per operator), "
                "indpb in {0, 1, dyadics, random floats}, scalar and per-gene "
                "bounds incl. low = up and negative, list / array.array / numpy (element-wise operators only) individuals; "
                "error branches (sizes 0, 1, short bound sequences) and non-permutation inputs of the permutation "
                "operators are corresponded only. A case is distinct by operator, container kind, inputs and draws; "
                "non-trivial = at least one gene moved or changed, or an exception.")
    run.trusted += ["Coq 8.16.1 kernel and vm_compute",
                    "hand-written model coq/Model/C09_SeqOps.v tied by correspondence (harness/c09.py)",
                    "CPython list/array element and slice semantics as modelled by Base/PyList.v (py_get, py_set, py_slice, py_slice_assign)",
                    "random module contract: randint(a,b) in [a,b] or ValueError when b<a; randrange(n) in [0,n) or ValueError; "
                    "sample(range(n),2) two distinct indices or ValueError; random() in [0,1) (draw_ok)",
                    "logging proxy installed as the name `random` in deap.tools.crossover / deap.tools.mutation"]
    run.assumptions += ["the two individuals are distinct objects", "genes are ints (bools / integer-valued floats for mutFlipBit)",
                        "ES individuals: strategy has the length of the individual",
                        "permutation operators: both parents are permutations of 0..n-1 of equal length",
                        "numpy-backed individuals only for element-wise operators (slices of numpy arrays are views)"]
    build_retry(run)

    # ---- tie (T): regenerate Gen/C09_gen.v from the working tree, re-prove regenerated = model ----------
    import c09_py2coq
    try:
        status = regen()
    except Exception as e:  # noqa  (fail closed: a crash of the translator is a refusal of everything)
        status = {f: "translator error %s: %s" % (type(e).__name__, e) for f in c09_py2coq.FUNCTIONS}
        try:
            with vlib.BuildLock():
                for ext in ("", "o", "ok", "os"):
                    if os.path.exists(GEN + ext):
                        os.remove(GEN + ext)
        except OSError:
            pass
    translated = [f for f in c09_py2coq.FUNCTIONS if status.get(f) is None]
    refused = [(f, status[f]) for f in c09_py2coq.FUNCTIONS if status.get(f) is not None]
    gen_proved, gen_corr = False, False
    if translated:
        gen_proved = build_retry(run, props="Props/C09_gen.v")
        okc, outc = vlib.make_targets(["Corr/C09_gen.vo"], timeout=1200)
        if not okc and "Error" not in outc:
            time.sleep(10)
            okc, outc = vlib.make_targets(["Corr/C09_gen.vo"], timeout=1200)
        gen_corr = okc
        run.trusted += ["translator harness/c09_py2coq.py with its signature table (parameter kinds, result shape) and the "
                        "run-time library coq/Model/C09_PyRt.v: Python statements -> draw monad, sequence objects as threaded "
                        "values, aliases, evaluation order of tuple assignments; `%` / `//` by zero not modelled; validated on every "
                        "run because the regenerated definitions are evaluated against the implementation on every case"]
    if translated and not refused:
        tie = "tie: regenerated (%d/%d functions translated from the working-tree source%s)" % (
            len(translated), len(c09_py2coq.FUNCTIONS),
            " and proved equal to the model for every input" if gen_proved else
            "; the equivalence with the model / the theorems on the regenerated definitions NO LONGER CHECK")
    elif translated:
        tie = "tie: regenerated for %s%s; correspondence-only for %s" % (
            ", ".join(translated), "" if gen_proved else " (equivalence / theorems NO LONGER CHECK)",
            "; ".join("%s (translator refused %s)" % x for x in refused))
    else:
        tie = "tie: correspondence-only (translator refused %s)" % "; ".join("%s: %s" % x for x in refused)
    run.notes.append(tie)
    run.extra_cov["tie"] = tie
    run.extra_cov["regenerated_functions"] = translated
    run.extra_cov["refused_functions"] = dict(refused)
    if refused and translated:
        run.notes.append("the theorems of Props/C09_gen.v about %s are about the model alias on this run (not regenerated)"
                         % ", ".join(f for f, _ in refused))
    rng = run.rng

    def mkclass(name, base_, **kw):
        if not hasattr(creator, name):
            creator.create(name, base_, **kw)
        return getattr(creator, name)

    LI = mkclass("C09List", list)
    NI = mkclass("C09Numpy", numpy.ndarray)
    ESL = mkclass("C09ESList", list, strategy=None)
    ESA = mkclass("C09ESArray", array.array, typecode="q", strategy=None)
    ARR = {tc: mkclass("C09Array_" + tc, array.array, typecode=tc) for tc in "qdfbB"}
    # gene domains: how the integer gene values handed to a case are represented in the container
    #   int : list of int / array('q') / numpy int64          huge ints are just large values of this domain
    #   float: list of float (0 -> -0.0 in the second parent) / array('d') / numpy float64
    #   f32 : list of float / array('f') / numpy float32      i8: list of int / array('b') / numpy int8
    #   bool: list of bool / array('B') / numpy bool_
    DOM_TC = {"int": "q", "float": "d", "f32": "f", "i8": "b", "bool": "B"}
    DOM_NP = {"int": numpy.int64, "float": numpy.float64, "f32": numpy.float32, "i8": numpy.int8, "bool": numpy.bool_}

    def mk(kind, data, dom="int", negzero=False):
        data = list(data)
        if kind == "list":
            if dom in ("float", "f32"):
                return LI([(-0.0 if (negzero and x == 0) else float(x)) for x in data])
            if dom == "bool":
                return LI([bool(x) for x in data])
            return LI(data)
        if kind == "array":
            if dom in ("float", "f32"):
                data = [(-0.0 if (negzero and x == 0) else float(x)) for x in data]
            return ARR[DOM_TC[dom]](data)
        return NI(numpy.array(data, dtype=DOM_NP[dom]))

    def mkes(kind, genes, strat):
        if kind == "list":
            ind = ESL(genes)
            ind.strategy = list(strat)
        else:
            ind = ESA(genes)
            ind.strategy = array.array("q", strat)
        return ind

    def key(x):
        """type-exact, sign-of-zero-exact identity of a gene value"""
        return (type(x).__name__, repr(x))

    def keys(seq):
        return [key(x) for x in seq]

    terms, cases = [], []
    counters = Counter()
    route_counter = [0]
    toolbox = base.Toolbox()                 # ONE toolbox object serves every toolbox-route call of the run

    def add(term, case, nontrivial):
        terms.append(term)
        cases.append(case)
        counters[case["op"]] += 1
        run.note_case(case, nontrivial, sample=case if len(cases) % 997 == 1 else None)

    def call(fn, mod, inds, extra, script, seed, argnames=None, route=None):
        """route: 'pos' positional call, 'kw' every argument by keyword, 'toolbox' through an alias registered
        (and re-registered, with the extra arguments frozen) on the shared Toolbox."""
        import warnings
        proxy = DrawProxy(script, seed)
        if route is None:
            route_counter[0] += 1
            route = ("pos", "pos", "kw", "toolbox")[route_counter[0] % 4]
        if argnames is None:
            route = "pos"
        old = mod.random
        mod.random = proxy
        try:
            with warnings.catch_warnings():
                warnings.simplefilter("ignore")          # the deprecated aliases warn
                if route == "kw":
                    kw = dict(zip(argnames, list(inds) + list(extra)))
                    status, r = guarded(fn, **kw)
                elif route == "toolbox":
                    kw = dict(zip(argnames[len(inds):], extra))
                    toolbox.register("c09op", fn, **kw)
                    status, r = guarded(toolbox.c09op, *inds)
                else:
                    status, r = guarded(fn, *(list(inds) + list(extra)))
        finally:
            mod.random = old
        idmap = {}
        for x in inds:
            idmap.setdefault(id(x), len(idmap))
        ids = []
        if status == "ok":
            if isinstance(r, tuple):
                for x in r:
                    ids.append(idmap.setdefault(id(x), len(idmap)))
            else:
                ids = [99]
        return status, r, proxy.log, ids, route

    def viol(what, case, observed=None):
        run.oracle_violation(what, case, observed=observed)

    def identity_oracle(case, status, r, inds):
        if status != "ok":
            return
        if not isinstance(r, tuple) or len(r) != len(inds) or any(a is not b for a, b in zip(r, inds)):
            viol("operator does not return the very objects it was given", case)
        for x in inds:
            for y in inds:
                if x is not y and isinstance(x, numpy.ndarray) and numpy.shares_memory(x, y):
                    viol("the two individuals share memory after the call", case)

    def gene_identity_oracle(case, kind, before_objs, after_objs):
        """list-backed individuals hold references: the operators must move the parents' gene OBJECTS"""
        if kind != "list":
            return
        c = Counter(id(x) for x in before_objs)
        d = Counter(id(x) for x in after_objs)
        if c != d:
            viol("children do not hold exactly the parents' gene objects (a gene was copied, rebuilt or lost)", case)

    CX_ARGS = ["ind1", "ind2", "indpb"]

    # ------------------------------------------------------------------ two-parent gene crossovers
    def cx_case(op, kind, p1=None, p2=None, script=None, seed=0, indpb=None, valid=True, alias=None,
                dom="int", objs=None, route=None):
        fn = getattr(tools, alias or op)
        if objs is None:
            a, b = mk(kind, p1, dom), mk(kind, p2, dom, negzero=True)
        else:
            a, b = objs
        ob1, ob2 = list(a), list(b)                      # the gene objects before the call
        p1, p2 = ints(ob1), ints(ob2)
        kb1, kb2 = keys(ob1), keys(ob2)
        extra = [] if indpb is None else [indpb]
        status, r, log, ids, route = call(fn, cxmod, [a, b], extra, script, seed, CX_ARGS[:2 + len(extra)], route)
        oa1, oa2 = list(a), list(b)
        c1, c2 = ints(oa1), ints(oa2)
        ka1, ka2 = keys(oa1), keys(oa2)
        case = {"op": alias or op, "kind": kind, "dom": dom, "route": route, "p1": p1, "p2": p2, "indpb": indpb,
                "draws": log, "observed": [c1, c2] if status == "ok" else r}
        size = min(len(p1), len(p2))
        if valid:
            if status != "ok":
                viol("%s raised %s on valid input" % (op, r), case)
            else:
                identity_oracle(case, status, r, [a, b])
                gene_identity_oracle(case, kind, ob1 + ob2, oa1 + oa2)
                if op in ("cxOnePoint", "cxTwoPoint", "cxUniform", "cxMessyOnePoint"):
                    if ms(ka1, ka2) != ms(kb1, kb2):
                        viol("combined multiset of genes changed (type- and sign-exact)", case, [ka1, ka2])
                if op in ("cxOnePoint", "cxTwoPoint", "cxUniform"):
                    for i in range(size):
                        if i < len(ka1) and i < len(ka2) and sorted([ka1[i], ka2[i]]) != sorted([kb1[i], kb2[i]]):
                            viol("locus %d of the children does not hold the two parental genes of that locus" % i, case, [ka1, ka2])
                            break
                if op in ("cxTwoPoint", "cxUniform"):
                    if len(ka1) != len(kb1) or len(ka2) != len(kb2):
                        viol("lengths not kept", case, [c1, c2])
                    elif ka1[size:] != kb1[size:] or ka2[size:] != kb2[size:]:
                        viol("genes beyond the shorter length changed", case, [ka1, ka2])
                if op == "cxOnePoint":
                    if len(ka1) != len(kb2) or len(ka2) != len(kb1):
                        viol("lengths not exchanged", case, [c1, c2])
                    elif ka1[size:] != kb2[size:] or ka2[size:] != kb1[size:]:
                        viol("tails beyond the shorter length not exchanged", case, [ka1, ka2])
                if op in ("cxPartialyMatched", "cxUniformPartialyMatched", "cxOrdered"):
                    n = len(p1)
                    if sorted(c1) != list(range(n)) or sorted(c2) != list(range(n)):
                        viol("child is not a permutation of 0..n-1", case, [c1, c2])
                    elif ms(ka1) != ms(kb1) or ms(ka2) != ms(kb2):
                        viol("child is not a permutation of the same elements (gene type changed)", case, [ka1, ka2])
        obs = "(Ok (%s, %s))" % (czl(c1), czl(c2)) if status == "ok" else cexn(r)
        ctor = {"cxOnePoint": "COnePoint", "cxTwoPoint": "CTwoPoint", "cxUniform": "CUniform",
                "cxMessyOnePoint": "CMessy", "cxPartialyMatched": "CPMX",
                "cxUniformPartialyMatched": "CUPMX", "cxOrdered": "COrdered"}[op]
        pb = "" if indpb is None else " %s" % cq(Fraction(indpb))
        add("%s %s %s%s %s %s %s" % (ctor, czl(p1), czl(p2), pb, cdraws(log), obs, cnatl(ids)), case,
            status != "ok" or c1 != p1 or c2 != p2)

    def es_case(kind, g1=None, s1=None, g2=None, s2=None, script=None, seed=0, valid=True, alias=None, objs=None, route=None):
        if objs is None:
            a, b = mkes(kind, g1, s1), mkes(kind, g2, s2)
        else:
            a, b = objs
        g1, s1, g2, s2 = ints(a), ints(a.strategy), ints(b), ints(b.strategy)
        ob = list(a) + list(b) + list(a.strategy) + list(b.strategy)
        sa, sb = a.strategy, b.strategy
        status, r, log, ids, route = call(getattr(tools, alias or "cxESTwoPoint"), cxmod, [a, b], [], script, seed,
                                          CX_ARGS[:2], route)
        c1, c2, t1, t2 = ints(a), ints(b), ints(a.strategy), ints(b.strategy)
        case = {"op": alias or "cxESTwoPoint", "kind": kind, "route": route, "g1": g1, "s1": s1, "g2": g2, "s2": s2, "draws": log,
                "observed": [c1, t1, c2, t2] if status == "ok" else r}
        if valid:
            if status != "ok":
                viol("cxESTwoPoint raised %s on valid input" % r, case)
            else:
                identity_oracle(case, status, r, [a, b])
                gene_identity_oracle(case, kind, ob, list(a) + list(b) + list(a.strategy) + list(b.strategy))
                if a.strategy is not sa or b.strategy is not sb:
                    viol("strategy objects replaced", case)
                if [len(c1), len(t1), len(c2), len(t2)] != [len(g1), len(s1), len(g2), len(s2)]:
                    viol("lengths not kept", case, [c1, t1, c2, t2])
                else:
                    pa, pb_ = list(zip(g1, s1)), list(zip(g2, s2))
                    ca, cb = list(zip(c1, t1)), list(zip(c2, t2))
                    if ms(ca, cb) != ms(pa, pb_):
                        viol("gene/strategy pairs not conserved (a gene moved without its strategy value)", case, [c1, t1, c2, t2])
                    size = min(len(g1), len(g2))
                    for i in range(size):
                        if sorted([ca[i], cb[i]]) != sorted([pa[i], pb_[i]]):
                            viol("locus %d does not hold the two parental gene/strategy pairs" % i, case, [c1, t1, c2, t2])
                            break
                    if ca[size:] != pa[size:] or cb[size:] != pb_[size:]:
                        viol("genes beyond the shorter length changed", case, [c1, t1, c2, t2])
        obs = "(Ok ((%s, %s), (%s, %s)))" % (czl(c1), czl(t1), czl(c2), czl(t2)) if status == "ok" else cexn(r)
        add("CES %s %s %s %s %s %s %s" % (czl(g1), czl(s1), czl(g2), czl(s2), cdraws(log), obs, cnatl(ids)), case,
            status != "ok" or c1 != g1)

    # ------------------------------------------------------------------ mutations
    def mut_case(op, kind, p=None, script=None, seed=0, indpb=None, low=None, up=None, valid=True, genes=None,
                 dom="int", obj=None, route=None):
        fn = getattr(tools, op)
        if obj is not None:
            a = obj
        elif genes is not None:           # typed genes given directly (list individuals)
            a = LI(genes)
        else:
            a = mk(kind, p, dom)
        before = list(a)
        extra, names = [], ["individual"]
        if op == "mutUniformInt":
            extra, names = [low, up, indpb], ["individual", "low", "up", "indpb"]
        elif indpb is not None:
            extra, names = [indpb], ["individual", "indpb"]
        bounds_before = (repr(low), repr(up))
        status, r, log, ids, route = call(fn, mutmod, [a], extra, script, seed, names, route)
        after = list(a)
        case = {"op": op, "kind": kind, "dom": dom, "route": route, "p": [repr(x) for x in before], "indpb": indpb,
                "low": list(low) if is_seq(low) else low, "up": list(up) if is_seq(up) else up,
                "draws": log, "observed": [repr(x) for x in after] if status == "ok" else r}
        if (repr(low), repr(up)) != bounds_before:
            viol("the bound arguments were modified", case)
        if valid:
            if status != "ok":
                viol("%s raised %s on valid input" % (op, r), case)
            else:
                identity_oracle(case, status, r, [a])
                if len(after) != len(before):
                    viol("length changed", case)
                elif op in ("mutShuffleIndexes", "mutInversion"):
                    if ms(keys(after)) != ms(keys(before)):
                        viol("not a permutation of the same elements (type- and sign-exact)", case)
                    gene_identity_oracle(case, kind if genes is None else "list", before, after)
                elif op == "mutFlipBit":
                    for x, y in zip(before, after):
                        if type(x) is not type(y):
                            viol("flipped gene changed its type (%s -> %s)" % (type(x).__name__, type(y).__name__), case)
                            break
                        if not (key(y) == key(x) or y == (not x)) or (x in (0, 1) and y not in (x, 1 - x)):
                            viol("gene is neither unchanged nor complemented", case)
                            break
                elif op == "mutUniformInt":
                    n = len(before)
                    lo = list(low)[:n] if is_seq(low) else [low] * n
                    hi = list(up)[:n] if is_seq(up) else [up] * n
                    for x, y, l_, h_ in zip(before, after, lo, hi):
                        if key(y) == key(x):
                            continue
                        if type(y) is not type(x) and type(y) is not int:
                            viol("new gene is not an integer (%s)" % type(y).__name__, case)
                            break
                        if not (l_ <= y <= h_) or int(y) != y:
                            viol("mutated gene outside [low, up]", case)
                            break
        if op == "mutFlipBit":
            obs = "(Ok %s)" % clist([cgene(x) for x in after]) if status == "ok" else cexn(r)
            term = "CFlip %s %s %s %s %s" % (clist([cgene(x) for x in before]), cq(Fraction(indpb)), cdraws(log), obs, cnatl(ids))
        else:
            obs = "(Ok %s)" % czl(ints(after)) if status == "ok" else cexn(r)
            if op == "mutShuffleIndexes":
                term = "CShuffle %s %s %s %s %s" % (czl(ints(before)), cq(Fraction(indpb)), cdraws(log), obs, cnatl(ids))
            elif op == "mutUniformInt":
                term = "CUniformInt %s %s %s %s %s %s %s" % (czl(ints(before)), cbound(low), cbound(up), cq(Fraction(indpb)),
                                                          cdraws(log), obs, cnatl(ids))
            else:
                term = "CInversion %s %s %s %s" % (czl(ints(before)), cdraws(log), obs, cnatl(ids))
        add(term, case, status != "ok" or [repr(x) for x in after] != [repr(x) for x in before])

    # ================================================================== generators
    N = run.scale(4, 5)                      # exhaustive scope for cut points / masks
    NP = run.scale(3, 4)                     # all pairs of permutations up to this size
    kinds_slice = ["list", "array"]          # slice-swapping operators: numpy excluded by the property
    kinds_elem = ["list", "array", "numpy"]
    LO, HI = 0.25, 0.75                      # scripted random() values around indpb = 0.5

    def genes(n, base_):
        return [base_ + i for i in range(n)]

    def mask_script(mask):
        return [LO if m else HI for m in mask]

    # ---- cxOnePoint / cxTwoPoint / cxMessyOnePoint / cxESTwoPoint: all cut points
    for n1 in range(2, N + 1):
        for n2 in range(2, N + 1):
            size = min(n1, n2)
            kind = kinds_slice[(n1 + n2) % 2]
            p1, p2 = genes(n1, 10), genes(n2, 20)
            for cx in range(1, size):
                cx_case("cxOnePoint", kind, p1, p2, script=[cx])
            for d1 in range(1, size + 1):
                for d2 in range(1, size):
                    cx_case("cxTwoPoint", kind, p1, p2, script=[d1, d2])
                    es_case(kind, p1, genes(n1, 110), p2, genes(n2, 120), script=[d1, d2])
    for n1 in range(0, N + 1):
        for n2 in range(0, N + 1):
            kind = kinds_slice[(n1 + n2) % 2]
            for c1 in range(0, n1 + 1):
                for c2 in range(0, n2 + 1):
                    cx_case("cxMessyOnePoint", kind, genes(n1, 10), genes(n2, 20), script=[c1, c2])
    # duplicates among genes
    for n in range(2, N + 1):
        p1 = [i % 2 for i in range(n)]
        p2 = [1] * n
        for d1 in range(1, n + 1):
            for d2 in range(1, n):
                cx_case("cxTwoPoint", "list", p1, p2, script=[d1, d2])
        for cx in range(1, n):
            cx_case("cxOnePoint", "array", p1, p2, script=[cx])

    # the deprecated aliases delegate to the same code
    for n in range(2, 5):
        for d1 in range(1, n + 1):
            for d2 in range(1, n):
                cx_case("cxTwoPoint", "list", genes(n, 10), genes(n + 1, 20), script=[d1, d2], alias="cxTwoPoints")
                es_case("array", genes(n, 10), genes(n, 110), genes(n, 20), genes(n, 120), script=[d1, d2], alias="cxESTwoPoints")

    # ---- cxUniform: all masks
    for n1 in range(2, N + 1):
        for n2 in range(2, N + 1):
            size = min(n1, n2)
            for mask in itertools.product([False, True], repeat=size):
                kind = kinds_elem[(n1 + n2 + sum(mask)) % 3]
                cx_case("cxUniform", kind, genes(n1, 10), genes(n2, 20), script=mask_script(mask), indpb=0.5)
    for pb in (0.0, 1.0):
        for kind in kinds_elem:
            cx_case("cxUniform", kind, genes(4, 10), genes(3, 20), seed=rng.randrange(10 ** 6), indpb=pb)

    # ---- permutation crossovers
    def pair_scopes():
        for n in range(2, NP + 1):
            perms = [list(p) for p in itertools.permutations(range(n))]
            for p1 in perms:
                for p2 in perms:
                    yield n, p1, p2
        n = NP + 1
        for p2 in itertools.permutations(range(n)):
            yield n, list(range(n)), list(p2)
            if run.thorough:
                yield n, list(p2), list(range(n))

    kk = 0
    for n, p1, p2 in pair_scopes():
        kk += 1
        kind = kinds_elem[kk % 3]
        for d1 in range(0, n + 1):
            for d2 in range(0, n):
                cx_case("cxPartialyMatched", kind, p1, p2, script=[d1, d2])
        for a_ in range(n):
            for b_ in range(n):
                if a_ != b_:
                    cx_case("cxOrdered", kind, p1, p2, script=[(a_, b_)])
        for mask in itertools.product([False, True], repeat=n):
            cx_case("cxUniformPartialyMatched", kind, p1, p2, script=mask_script(mask), indpb=0.5)

    # ---- mutShuffleIndexes: all scripts
    for n in range(2, N + 1):
        opts = [None] + list(range(0, n - 1))
        for combo in itertools.product(opts, repeat=n):
            script = []
            for c in combo:
                script += [HI] if c is None else [LO, c]
            kind = kinds_elem[(n + len(script)) % 3]
            mut_case("mutShuffleIndexes", kind, list(range(n)), script=script, indpb=0.5)
    # ---- mutInversion: all index pairs
    for n in range(1, N + 2):
        for i1 in range(n):
            for i2 in range(n):
                mut_case("mutInversion", kinds_slice[(i1 + i2) % 2], list(range(n)), script=[i1, i2])
    # ---- mutFlipBit: all masks, gene types
    for n in range(1, N + 1):
        for mask in itertools.product([False, True], repeat=n):
            bits = [(i + sum(mask)) % 2 for i in range(n)]
            for variant in range(4):
                if variant == 0:
                    mut_case("mutFlipBit", "list", None, script=mask_script(mask), indpb=0.5, genes=bits)
                elif variant == 1:
                    mut_case("mutFlipBit", "list", None, script=mask_script(mask), indpb=0.5, genes=[bool(x) for x in bits])
                elif variant == 2:
                    mut_case("mutFlipBit", "array", bits, script=mask_script(mask), indpb=0.5)
                else:
                    mut_case("mutFlipBit", "numpy", bits, script=mask_script(mask), indpb=0.5)
    # ---- mutUniformInt: all masks, extremes of the bounds
    for n in range(1, N):
        for mask in itertools.product([False, True], repeat=n):
            for which in range(3):
                low = [-(i + 1) for i in range(n)]
                up = [i + 2 for i in range(n)]
                script = []
                for i, m in enumerate(mask):
                    script += [LO, [low[i], up[i], 0][which]] if m else [HI]
                mut_case("mutUniformInt", kinds_elem[(n + which) % 3], [7] * n, script=script, indpb=0.5, low=low, up=up)
                script = []
                for i, m in enumerate(mask):
                    script += [LO, [-3, 5, 1][which]] if m else [HI]
                mut_case("mutUniformInt", kinds_elem[(n + which + 1) % 3], [7] * n, script=script, indpb=0.5, low=-3, up=5)

    # ---- error branches and degenerate sizes (correspondence only)
    for n1, n2 in [(0, 0), (0, 3), (1, 1), (1, 4), (3, 1), (2, 0)]:
        for op in ("cxOnePoint", "cxTwoPoint", "cxPartialyMatched", "cxOrdered"):
            cx_case(op, "list", list(range(n1)), list(range(n2)), seed=rng.randrange(10 ** 6), valid=False)
        for op in ("cxUniform", "cxUniformPartialyMatched"):
            cx_case(op, "list", list(range(n1)), list(range(n2)), seed=rng.randrange(10 ** 6), indpb=1.0, valid=False)
        es_case("list", list(range(n1)), list(range(n1)), list(range(n2)), list(range(n2)), seed=rng.randrange(10 ** 6), valid=False)
    for n in (0, 1):
        for pb in (0.0, 1.0):
            mut_case("mutShuffleIndexes", "list", list(range(n)), seed=1, indpb=pb, valid=False)
            mut_case("mutFlipBit", "list", None, seed=1, indpb=pb, genes=[1] * n, valid=False)
            mut_case("mutUniformInt", "list", list(range(n)), seed=1, indpb=pb, low=0, up=3, valid=False)
        mut_case("mutInversion", "list", list(range(n)), seed=1, valid=False)
    # short / long bound sequences, low > up (ValueError from randint)
    mut_case("mutUniformInt", "list", [1, 2, 3], seed=2, indpb=1.0, low=[0, 0], up=9, valid=False)
    mut_case("mutUniformInt", "list", [1, 2, 3], seed=2, indpb=1.0, low=0, up=[9, 9], valid=False)
    mut_case("mutUniformInt", "list", [1, 2, 3], seed=2, indpb=1.0, low=[0, 0, 0, 0], up=(9, 9, 9, 9, 9))
    mut_case("mutUniformInt", "list", [1, 2, 3], seed=2, indpb=1.0, low=5, up=4, valid=False)
    mut_case("mutUniformInt", "list", [1, 2, 3], seed=2, indpb=0.0, low=5, up=4, valid=False)
    # non-permutation inputs of the permutation operators (duplicates, negative genes = Python negative
    # indices, out-of-range genes = IndexError); unequal lengths
    for _ in range(run.scale(150, 1500)):
        n1 = rng.randint(2, 6)
        n2 = rng.randint(2, 6) if rng.random() < 0.3 else n1
        lo = rng.choice([0, 0, -2, -n1])
        hi = rng.choice([min(n1, n2) - 1, min(n1, n2) - 1, min(n1, n2)])
        p1 = [rng.randint(lo, hi) for _ in range(n1)]
        p2 = [rng.randint(lo, hi) for _ in range(n2)]
        op = rng.choice(["cxPartialyMatched", "cxUniformPartialyMatched", "cxOrdered"])
        cx_case(op, rng.choice(kinds_elem), p1, p2, seed=rng.randrange(10 ** 6),
                indpb=rng.choice([0.5, 1.0]) if op == "cxUniformPartialyMatched" else None, valid=False)

    # ---- random, larger
    def rand_pb():
        return rng.choice([0.0, 1.0, 0.5, 0.25, 0.125, rng.random(), rng.random()])

    for _ in range(run.scale(700, 8000)):
        n1 = rng.randint(2, 30)
        n2 = n1 if rng.random() < 0.5 else rng.randint(2, 30)
        hi = rng.choice([1, 3, 100])
        p1 = [rng.randint(-hi, hi) for _ in range(n1)]
        p2 = [rng.randint(-hi, hi) for _ in range(n2)]
        seed = rng.randrange(10 ** 9)
        op = rng.choice(["cxOnePoint", "cxTwoPoint", "cxUniform", "cxMessyOnePoint", "cxESTwoPoint"])
        if op == "cxESTwoPoint":
            es_case(rng.choice(kinds_slice), p1, [rng.randint(0, 9) for _ in p1], p2, [rng.randint(0, 9) for _ in p2], seed=seed)
        elif op == "cxUniform":
            cx_case(op, rng.choice(kinds_elem), p1, p2, seed=seed, indpb=rand_pb())
        else:
            cx_case(op, rng.choice(kinds_slice), p1, p2, seed=seed)
    for _ in range(run.scale(500, 6000)):
        n = rng.randint(2, 30)
        p1 = list(range(n))
        p2 = list(range(n))
        rng.shuffle(p1)
        rng.shuffle(p2)
        seed = rng.randrange(10 ** 9)
        op = rng.choice(["cxPartialyMatched", "cxUniformPartialyMatched", "cxOrdered"])
        cx_case(op, rng.choice(kinds_elem), p1, p2, seed=seed,
                indpb=rand_pb() if op == "cxUniformPartialyMatched" else None)
    for _ in range(run.scale(500, 6000)):
        n = rng.randint(2, 30)
        seed = rng.randrange(10 ** 9)
        op = rng.choice(["mutShuffleIndexes", "mutInversion", "mutFlipBit", "mutUniformInt"])
        if op == "mutShuffleIndexes":
            p = list(range(n))
            rng.shuffle(p)
            if rng.random() < 0.3:
                p = [rng.randint(0, 3) for _ in range(n)]
            mut_case(op, rng.choice(kinds_elem), p, seed=seed, indpb=rand_pb())
        elif op == "mutInversion":
            p = list(range(n))
            rng.shuffle(p)
            mut_case(op, rng.choice(kinds_slice), p, seed=seed)
        elif op == "mutFlipBit":
            bits = [rng.randint(0, 1) for _ in range(n)]
            v = rng.randrange(5)
            if v == 0:
                mut_case(op, "list", None, seed=seed, indpb=rand_pb(), genes=bits)
            elif v == 1:
                mut_case(op, "list", None, seed=seed, indpb=rand_pb(), genes=[bool(x) for x in bits])
            elif v == 2:
                mut_case(op, "list", None, seed=seed, indpb=rand_pb(), genes=[float(x) if rng.random() < 0.5 else x for x in bits])
            else:
                mut_case(op, ["array", "numpy"][v % 2], bits, seed=seed, indpb=rand_pb())
        else:
            p = [rng.randint(-5, 5) for _ in range(n)]
            if rng.random() < 0.5:
                low = rng.randint(-6, 3)
                up = low + rng.choice([0, 0, 1, 2, 10])
            else:
                extra_len = rng.choice([0, 0, 2])
                low = [rng.randint(-6, 3) for _ in range(n + extra_len)]
                up = [x + rng.choice([0, 1, 5]) for x in low]
                v = rng.random()
                if v < 0.3:
                    up = tuple(up)
                elif v < 0.45:
                    up = array.array("q", up)
                elif v < 0.55:
                    low, up = range(-2, -2 + len(low)), range(3, 3 + len(low))
                if rng.random() < 0.3:
                    low = low[0]
                    up = [max(x, low) for x in up]
            mut_case(op, rng.choice(kinds_elem), p, seed=seed, indpb=rand_pb(), low=low, up=up)

    # ---- long individuals (paths that depend on the size; cheap: a handful per operator)
    # (permutation genes stay below 257: CPython shares small int objects, and the gene-identity oracle for list
    #  individuals compares id() multisets, which PMX/OX only keep for shared ints)
    for n in (65, 129, 200):
        for rep in range(run.scale(1, 4)):
            seed = rng.randrange(10 ** 9)
            q1, q2 = list(range(n)), list(range(n))
            rng.shuffle(q1)
            rng.shuffle(q2)
            g1, g2 = [rng.randint(-9, 9) for _ in range(n)], [rng.randint(-9, 9) for _ in range(n + rep)]
            for op in ("cxOnePoint", "cxTwoPoint", "cxMessyOnePoint"):
                cx_case(op, rng.choice(kinds_slice), g1, g2, seed=seed)
            cx_case("cxUniform", rng.choice(kinds_elem), g1, g2, seed=seed, indpb=rng.choice([0.5, 1.0, 0.9]))
            es_case(rng.choice(kinds_slice), g1, q1, g2, list(range(len(g2))), seed=seed)
            for op in ("cxPartialyMatched", "cxOrdered"):
                cx_case(op, rng.choice(kinds_elem), q1, q2, seed=seed)
            cx_case("cxUniformPartialyMatched", rng.choice(kinds_elem), q1, q2, seed=seed, indpb=rng.choice([0.5, 1.0, 0.1]))
            mut_case("mutShuffleIndexes", rng.choice(kinds_elem), q1, seed=seed, indpb=rng.choice([0.5, 1.0, 0.9]))
            mut_case("mutInversion", rng.choice(kinds_slice), q2, seed=seed)
            mut_case("mutFlipBit", "list", None, seed=seed, indpb=rng.choice([0.5, 1.0]), genes=[rng.randint(0, 1) for _ in range(n)])
            mut_case("mutUniformInt", rng.choice(kinds_elem), [0] * n, seed=seed, indpb=rng.choice([0.5, 1.0]), low=-4,
                     up=[rng.randint(-4, 9) for _ in range(n)])

    # ================================================================== hardening round (HARDENING.md)
    EQ = 0.5                                 # a draw equal to the threshold indpb = 0.5 (`<` must not select it)
    TOP = 1.0 - 2.0 ** -53                   # the largest value random() can return
    perm4, perm4b = [2, 0, 3, 1], [3, 1, 0, 2]

    def indpb_ops(kind, pb, script=None, seedbase=0):
        """every operator that takes indpb, on this container kind"""
        sd = lambda: rng.randrange(10 ** 9) + seedbase
        cx_case("cxUniform", kind, genes(4, 10), genes(3, 20), script=script, seed=sd(), indpb=pb)
        cx_case("cxUniform", kind, genes(3, 10), genes(3, 20), script=script, seed=sd(), indpb=pb)
        cx_case("cxUniformPartialyMatched", kind, perm4, perm4b, script=script, seed=sd(), indpb=pb)
        mut_case("mutShuffleIndexes", kind, perm4, script=script, seed=sd(), indpb=pb)
        mut_case("mutFlipBit", kind, [0, 1, 1, 0], script=script, seed=sd(), indpb=pb)
        mut_case("mutUniformInt", kind, [7, 7, 7, 7], script=script, seed=sd(), indpb=pb, low=-3, up=[5, 6, 7, 8])

    # ---- class 5: boundaries.  indpb = 0 and 1 on every container kind; draws equal to the threshold
    for kind in kinds_elem:
        for pb in (0.0, 1.0):
            indpb_ops(kind, pb)
        indpb_ops(kind, 0.5, script=[EQ] * 8)            # u == indpb: nothing may be selected
        indpb_ops(kind, 0.0, script=[0.0] * 8)           # u == indpb == 0
        indpb_ops(kind, 1.0, script=[TOP, 0.0, TOP, 0.0, TOP, 0.0, TOP, 0.0])
        indpb_ops(kind, TOP, script=[TOP] * 8)           # u == indpb just below 1
    # mutUniformInt: both branches of both isinstance tests, equal bounds, all-negative and huge ranges,
    # draws at both ends of the range
    H = 2 ** 62
    for kind in kinds_elem:
        for lo_seq in (False, True):
            for up_seq in (False, True):
                for lo_v, up_v in [(-5, -1), (-9, -9), (0, 0), (-H, -H + 3), (H - 3, H - 1), (-1, 0)]:
                    for end in (0, 1):
                        low = [lo_v] * 3 if lo_seq else lo_v
                        up = [up_v] * 3 if up_seq else up_v
                        v = (lo_v, up_v)[end]
                        mut_case("mutUniformInt", kind, [1, 2, 3], script=[LO, v, HI, LO, v], indpb=0.5, low=low, up=up)
    mut_case("mutUniformInt", "list", [1, 2, 3], seed=5, indpb=1.0, low=numpy.int64(-4), up=numpy.int64(-2))
    same = [4, 4, 4]
    mut_case("mutUniformInt", "list", [1, 2, 3], seed=5, indpb=1.0, low=same, up=same)      # one object as both bounds
    # first / last index pairs of mutInversion and extreme cut points on the smallest sizes, every kind
    for kind in kinds_slice:
        for n in (2, 3):
            for i1, i2 in [(0, 0), (0, n - 1), (n - 1, 0), (n - 1, n - 1)]:
                mut_case("mutInversion", kind, genes(n, 0), script=[i1, i2])
            cx_case("cxOnePoint", kind, genes(n, 10), genes(2, 20), script=[1])
            cx_case("cxTwoPoint", kind, genes(n, 10), genes(2, 20), script=[2, 1])
            cx_case("cxTwoPoint", kind, genes(2, 10), genes(n, 20), script=[1, 1])

    # ---- class 3: value domains (type-exact oracle): floats incl. -0.0, float32, int8, bools, ints > 2**53
    def big(n, base_, kind):
        m = 2 ** 70 if kind == "list" else 2 ** 55
        return [(base_ + i) * m + 1 for i in range(n)]

    for dom in ("float", "f32", "i8", "bool"):
        for kind in kinds_elem:
            vals1, vals2 = ([0, 1, 1, 0, 1], [1, 0, 0, 0]) if dom == "bool" else ([0, 1, 2, 3, 4], [5, 0, 6, 0])
            seed = rng.randrange(10 ** 9)
            if kind != "numpy":
                cx_case("cxOnePoint", kind, vals1, vals2, seed=seed, dom=dom)
                cx_case("cxTwoPoint", kind, vals1, vals2, seed=seed, dom=dom)
                cx_case("cxMessyOnePoint", kind, vals1, vals2, seed=seed, dom=dom)
                mut_case("mutInversion", kind, vals1, seed=seed, dom=dom)
            cx_case("cxUniform", kind, vals1, vals2, seed=seed, indpb=0.5, dom=dom)
            cx_case("cxUniform", kind, vals1, vals2, seed=seed, indpb=1.0, dom=dom)
            mut_case("mutShuffleIndexes", kind, vals1, seed=seed, indpb=0.6, dom=dom)
            mut_case("mutFlipBit", kind, [0, 1, 1, 0], seed=seed, indpb=0.7, dom=dom)
            mut_case("mutFlipBit", kind, [0, 1, 1, 0], seed=seed, indpb=1.0, dom=dom)
            if dom != "bool":
                mut_case("mutUniformInt", kind, [0, 1, 2, 3], seed=seed, indpb=0.8, low=-7, up=[9, 9, 0, -7], dom=dom)
    for kind in kinds_elem:
        seed = rng.randrange(10 ** 9)
        if kind != "numpy":
            cx_case("cxOnePoint", kind, big(4, 1, kind), big(3, -9, kind), seed=seed)
            cx_case("cxTwoPoint", kind, big(4, 1, kind), big(3, -9, kind), seed=seed)
            cx_case("cxMessyOnePoint", kind, big(4, 1, kind), big(3, -9, kind), seed=seed)
            mut_case("mutInversion", kind, big(5, 1, kind), seed=seed)
        cx_case("cxUniform", kind, big(4, 1, kind), big(3, -9, kind), seed=seed, indpb=0.5)
        mut_case("mutShuffleIndexes", kind, big(4, -2, kind), seed=seed, indpb=0.7)
        mut_case("mutUniformInt", kind, big(3, 1, kind), seed=seed, indpb=0.7, low=-H, up=H)
        # permutation operators on small-integer dtypes (genes index Python lists)
        for op in ("cxPartialyMatched", "cxOrdered"):
            cx_case(op, kind, perm4, perm4b, seed=seed, dom="i8")
        cx_case("cxUniformPartialyMatched", kind, perm4, perm4b, seed=seed, indpb=0.5, dom="i8")
    # duplicates: one gene object many times in a list individual (identity multiset must still be kept)
    shared = 1000003
    for op in ("cxOnePoint", "cxTwoPoint", "cxMessyOnePoint"):
        cx_case(op, "list", objs=(LI([shared] * 4), LI([shared, 7, shared])), seed=rng.randrange(10 ** 9))
    cx_case("cxUniform", "list", objs=(LI([shared] * 4), LI([shared, 7, shared])), seed=3, indpb=0.5)

    # ---- classes 1 and 2: the SAME objects through successive calls, two clients interleaved, returned
    # objects fed back in, one bound object serving two individuals; every step judged on its own
    def gen_seq(kind, steps):
        A = [mk(kind, genes(5, 10)), mk(kind, genes(5, 20))]
        B = [mk(kind, genes(3, 30)), mk(kind, genes(7, 40))]
        ops = ["cxTwoPoint", "cxUniform", "cxUniform"] if kind == "numpy" else \
              ["cxOnePoint", "cxTwoPoint", "cxUniform", "cxMessyOnePoint"]
        for t in range(steps):
            pair = A if t % 2 == 0 else B
            if min(len(pair[0]), len(pair[1])) < 2:
                continue
            op = rng.choice(ops if kind != "numpy" else ["cxUniform"])
            if rng.random() < 0.25:
                pair.reverse()                            # the same objects in the other positions
            cx_case(op, kind, objs=tuple(pair), seed=rng.randrange(10 ** 9),
                    indpb=rng.choice([0.5, 1.0, 0.3]) if op == "cxUniform" else None)
            if rng.random() < 0.5:
                which = rng.randrange(2)
                mop = rng.choice(["mutShuffleIndexes", "mutFlipBit", "mutUniformInt"] +
                                 ([] if kind == "numpy" else ["mutInversion"]))
                if len(pair[which]) >= 2:
                    if mop == "mutUniformInt":
                        mut_case(mop, kind, obj=pair[which], seed=rng.randrange(10 ** 9), indpb=0.5, low=-2, up=50)
                    elif mop == "mutInversion":
                        mut_case(mop, kind, obj=pair[which], seed=rng.randrange(10 ** 9))
                    else:
                        mut_case(mop, kind, obj=pair[which], seed=rng.randrange(10 ** 9), indpb=0.5)

    def perm_seq(kind, steps):
        def fresh(n):
            p = list(range(n))
            rng.shuffle(p)
            return mk(kind, p)
        A = [fresh(5), fresh(5)]
        B = [fresh(4), fresh(4)]
        for t in range(steps):
            pair = A if t % 2 == 0 else B
            op = rng.choice(["cxPartialyMatched", "cxUniformPartialyMatched", "cxOrdered", "mut", "mut"])
            if op == "mut":
                mop = rng.choice(["mutShuffleIndexes", "mutInversion"] if kind != "numpy" else ["mutShuffleIndexes"])
                mut_case(mop, kind, obj=pair[rng.randrange(2)], seed=rng.randrange(10 ** 9),
                         indpb=0.5 if mop == "mutShuffleIndexes" else None)
            else:
                if rng.random() < 0.25:
                    pair.reverse()
                cx_case(op, kind, objs=tuple(pair), seed=rng.randrange(10 ** 9),
                        indpb=rng.choice([0.5, 1.0]) if op == "cxUniformPartialyMatched" else None)

    def es_seq(kind, steps):
        A = (mkes(kind, genes(5, 10), genes(5, 110)), mkes(kind, genes(5, 20), genes(5, 120)))
        B = (mkes(kind, genes(3, 30), genes(3, 130)), mkes(kind, genes(6, 40), genes(6, 140)))
        for t in range(steps):
            es_case(kind, objs=A if t % 2 == 0 else B, seed=rng.randrange(10 ** 9),
                    alias="cxESTwoPoints" if t % 3 == 2 else None)

    for rep in range(run.scale(2, 12)):
        for kind in kinds_elem:
            gen_seq(kind, 8)
            perm_seq(kind, 8)
        for kind in kinds_slice:
            es_seq(kind, 6)
    # one bounds object, two individuals, successive calls with different kinds of bounds on one individual
    for kind in kinds_elem:
        lows, ups = [-3, -2, -1, 0, 1], (0, 0, 5, 5, 9)
        x, y = mk(kind, [9] * 5), mk(kind, [8] * 4)
        for t in range(run.scale(4, 12)):
            tgt = (x, y)[t % 2]
            if t % 3 == 0:
                mut_case("mutUniformInt", kind, obj=tgt, seed=rng.randrange(10 ** 9), indpb=0.6, low=lows, up=ups)
            elif t % 3 == 1:
                mut_case("mutUniformInt", kind, obj=tgt, seed=rng.randrange(10 ** 9), indpb=0.6, low=-1, up=ups)
            else:
                mut_case("mutUniformInt", kind, obj=tgt, seed=rng.randrange(10 ** 9), indpb=0.6, low=lows, up=4)
            mut_case("mutFlipBit", kind, obj=tgt, seed=rng.randrange(10 ** 9), indpb=0.5)

    run.extra_cov["cases_per_operator"] = dict(counters)
    if gen_corr:
        # one pass evaluates the hand-written model AND the regenerated definitions on every case
        n_terms = len(terms)
        failing = correspond_robust(run, "ops", "C09", terms, cases, check="check_both",
                                    requires=["From DV Require Import Corr.C09_gen."])
        run.corr_groups["ops"]["evaluated"] = "model and regenerated definitions"
        if failing:
            # which of the two disagrees with the implementation?
            try:
                sub = failing[:400]
                nd, ntr = len(run.disagreements), run.traces
                bm = run.correspond("diagmodel", "C09", [terms[i] for i in sub], [cases[i] for i in sub], check="check")
                bg = run.correspond("diagregen", "C09", [terms[i] for i in sub], [cases[i] for i in sub], check="check_gen",
                                    requires=["From DV Require Import Corr.C09_gen."])
                del run.disagreements[nd:]
                run.traces = ntr
                run.notes.append("diagnosis on %d disagreeing cases: the hand-written model disagrees with the implementation on %d, "
                                 "the regenerated definitions on %d%s%s" % (
                                     len(sub), len(bm), len(bg),
                                     " (the source changed meaning: the regenerated definitions follow it, the model does not)"
                                     if bm and not bg else "",
                                     " (refused functions are evaluated through their model alias)" if refused else ""))
                run.extra_cov["diagnosis"] = {"cases": len(sub), "model_disagrees": len(bm), "regenerated_disagrees": len(bg)}
            except Exception as e:  # noqa
                run.notes.append("diagnosis step failed: %r" % (e,))
    else:
        if translated:
            run.notes.append("Corr/C09_gen.v did not build: the regenerated definitions were not evaluated")
        correspond_robust(run, "ops", "C09", terms, cases)

    def search(run):
        """something no longer checks and no failing input was seen: look harder with the oracle alone
        (longer individuals than the correspondence uses, more seeds)"""
        for _ in range(run.scale(1500, 15000)):
            n1 = rng.choice([2, 3, 5, 8, 31, 64, 65, 100, 101, 130, 257])
            n2 = n1 if rng.random() < 0.6 else rng.randint(2, 140)
            seed = rng.randrange(10 ** 9)
            pb = rng.choice([0.0, 1.0, 0.5, 0.9, rng.random()])
            for op in ("cxOnePoint", "cxTwoPoint", "cxMessyOnePoint"):
                cx_case(op, rng.choice(kinds_slice), [rng.randint(-3, 3) for _ in range(n1)],
                        [rng.randint(-3, 3) for _ in range(n2)], seed=seed)
            cx_case("cxUniform", rng.choice(kinds_elem), list(range(n1)), list(range(100, 100 + n2)), seed=seed, indpb=pb)
            es_case(rng.choice(kinds_slice), list(range(n1)), list(range(n1)), list(range(n2)), list(range(n2)), seed=seed)
            p1, p2 = list(range(n1)), list(range(n1))
            rng.shuffle(p1)
            rng.shuffle(p2)
            for op in ("cxPartialyMatched", "cxOrdered"):
                cx_case(op, rng.choice(kinds_elem), p1, p2, seed=seed)
            cx_case("cxUniformPartialyMatched", rng.choice(kinds_elem), p1, p2, seed=seed, indpb=pb)
            mut_case("mutShuffleIndexes", rng.choice(kinds_elem), p1, seed=seed, indpb=pb)
            mut_case("mutInversion", rng.choice(kinds_slice), p2, seed=seed)
            mut_case("mutFlipBit", "list", None, seed=seed, indpb=pb, genes=[rng.randint(0, 1) for _ in range(n1)])
            lo = rng.randint(-9, 3)
            mut_case("mutUniformInt", rng.choice(kinds_elem), [0] * n1, seed=seed, indpb=pb, low=lo,
                     up=[lo + rng.choice([0, 1, 7]) for _ in range(n1)])
            if run.oracle_viol:
                return
    run.search_fn = search
