"""Fail-closed translator: deap/algorithms.py varAnd / varOr -> Gallina (tie (T) of property C02, DESIGN.md 2.3).

The working-tree source is parsed with Python's `ast`; the body of every function of the table FUNCS is
compiled, statement by statement, into the state monad `M` of coq/Model/C02_GenRt.v (state = the `st` of the
hand model: object heap, remaining draws, operator-call counter, event log) and written to coq/Gen/C02_gen.v
(never committed).  coq/Proofs/C02_gen_equiv.v then proves, for all arguments and all states,
`gen_f args s = <hand model> args s`, and coq/Props/C02_gen.v restates the C02 theorems on the regenerated
definitions.  A semantic change of the source therefore breaks a proof obligation; a syntactic change outside
the grammar below makes the translator REFUSE that function (class Refuse): its regenerated definition is
then the hand model itself (a placeholder, reported as such) and the function is tied by the correspondence
only.

Grammar (everything else is refused)
  statements   x = e | L[i] = e | a, b = e | a, = e | a, b = c, d (targets: names or L[i]; right-hand side evaluated
               first, stores left to right) | x += e | L.append(e) | L.extend(e) | del e.fitness.values[, ...]
               | if/elif/else | for x in range(..) / a list / enumerate(L) / zip(A, B) | assert c[, "msg"]
               | return e (last statement, or ending an if branch at function level) | pass | docstrings
               | a call evaluated for its effects
  expressions  int / bool constants, the float constant 1.0, names, + - * (// % by a positive literal) on
               integers, + on numbers, + on lists, comparisons (one operator), and/or (only the first operand may
               have effects), not, conditional expressions with pure operands, len, min/max of two integers,
               list(l), list(map(toolbox.clone, l)), [e for x in l], [a, b], (a, b), L[i],
               toolbox.clone(e) / toolbox.mate(a, b) / toolbox.mutate(e),
               random.random() / random.sample(l, 2) / random.choice(l)
Types (signature table PARAM_TYPES): ref = an individual (object id), refs = list/tuple of individuals,
T = cxpb, mutpb and the draws, Z = integers, bool.  A list is a value in the generated text: in-place
changes (L[i] = v, append, extend, +=) are accepted only on lists the function created itself and never
bound to a second name (`owned`); iterating over a list the loop body changes is refused except
enumerate(L) with stores L[i] = v only (translated as an index loop reading L[i] at the start of each
iteration, which is what the list iterator does while the length is unchanged).
Evaluation order is Python's: sub-expressions with effects are bound left to right before the statement
that uses them.
"""
import ast
import os
import re


class Refuse(Exception):
    def __init__(self, node, why):
        self.node = type(node).__name__ if not isinstance(node, str) else node
        self.line = getattr(node, "lineno", None)
        self.why = why
        Exception.__init__(self, "%s at line %s: %s" % (self.node, self.line, why))


def refuse(node, why):
    raise Refuse(node, why)


# ---- signature table (trusted) -----------------------------------------------------------------------
PARAM_TYPES = {"population": "refs", "toolbox": "toolbox", "cxpb": "T", "mutpb": "T", "lambda_": "Z"}
COQ_TYPES = {"ref": "nat", "refs": "(list nat)", "T": "T", "Z": "Z", "bool": "bool", "unit": "unit",
             # the loops dialect: the lazy result of toolbox.map(toolbox.evaluate, l) (= the individuals still to be
             # evaluated), one fitness value, what stats.compile returns, the Logbook (lives in the state)
             "lazyfits": "(list nat)", "fitval": "F", "srec": "srec", "logbook": "unit"}
# function, parameters (exact, in order), result type, the hand model the placeholder of a refused function is
FUNCS = [
    ("varAnd", ["population", "toolbox", "cxpb", "mutpb"], "refs",
     "fun s => var_and ltb mate_o mut_o v_cxpb v_mutpb s v_population"),
    ("varOr", ["population", "toolbox", "lambda_", "cxpb", "mutpb"], "refs",
     "fun s => var_or ltb leb add one mate_o mut_o v_lambda_ v_cxpb v_mutpb s v_population"),
]
FILE = ("deap", "algorithms.py")
# names with a fixed meaning: how they must be bound at module level
EXPECTED = {"random": ("import", None, "random")}
BUILTINS = ("len", "range", "list", "map", "min", "max", "zip", "enumerate", "tuple", "sorted", "reversed", "int",
            "float", "bool", "abs", "sum", "any", "all", "iter", "next", "filter", "getattr", "setattr", "isinstance",
            "print", "id", "type")
ENV = "{G F T : Type} (ltb leb : T -> T -> bool) (add : T -> T -> T) (one : T) " \
      "(mate_o : nat -> G * option F -> G * option F -> mate_ans G F) (mut_o : nat -> G * option F -> mut_ans G F)"
IDENT = re.compile(r"^[A-Za-z_][A-Za-z0-9_]*$")


def cn(name):
    """Coq identifier of a Python local: the prefix keeps it apart from everything the generated text uses"""
    if not IDENT.match(name):
        refuse("Name", "identifier %r" % (name,))
    return "v_" + name


class Scope(object):
    """what a block does when control reaches its end (fall), and whether `return` is allowed here"""
    def __init__(self, ret=False, fall=None):
        self.ret, self.fall = ret, fall


class FnTr(object):
    def __init__(self, fname, rettype, counter=None):
        self.fname, self.rettype = fname, rettype
        self.env = {}               # Python local -> type
        self.owned = set()          # lists created by this function and bound to exactly this one name
        self.counter = counter if counter is not None else [0]

    def temp(self):
        self.counter[0] += 1
        return "t%d" % self.counter[0]

    def sub(self):
        t = type(self)(self.fname, self.rettype, self.counter)
        t.env, t.owned = dict(self.env), set(self.owned)
        return t

    # ---------------------------------------------------------------- expressions
    # expr returns (text, type, fresh); effects are appended to `binds` as (pattern, monadic text) in evaluation order
    def expr(self, e, binds):
        if isinstance(e, ast.Constant):
            v = e.value
            if isinstance(v, bool):
                return ("true" if v else "false"), "bool", False
            if isinstance(v, int):
                return "(%d)%%Z" % v, "Z", False
            if isinstance(v, float) and v == 1.0:
                return "one", "T", False
            refuse(e, "constant %r" % (v,))
        if isinstance(e, ast.Name):
            if not isinstance(e.ctx, ast.Load):
                refuse(e, "name context")
            t = self.env.get(e.id)
            if t is None:
                refuse(e, "unknown name %s (or possibly unbound here)" % e.id)
            if t == "toolbox":
                refuse(e, "the toolbox used as a value")
            return cn(e.id), t, False
        if isinstance(e, ast.BinOp):
            a, ta, _ = self.expr(e.left, binds)
            b, tb, _ = self.expr(e.right, binds)
            if ta == tb == "Z":
                if isinstance(e.op, (ast.Add, ast.Sub, ast.Mult)):
                    return "(%s %s %s)" % (a, {"Add": "+", "Sub": "-", "Mult": "*"}[type(e.op).__name__], b), "Z", False
                if isinstance(e.op, (ast.FloorDiv, ast.Mod)) and isinstance(e.right, ast.Constant) \
                        and isinstance(e.right.value, int) and not isinstance(e.right.value, bool) and e.right.value > 0:
                    return "(%s %s %s)" % (a, "/" if isinstance(e.op, ast.FloorDiv) else "mod", b), "Z", False
            if ta == tb == "T" and isinstance(e.op, ast.Add):
                return "(add %s %s)" % (a, b), "T", False
            if ta == tb == "refs" and isinstance(e.op, ast.Add) and isinstance(e.left, (ast.Name, ast.List)) \
                    and isinstance(e.right, (ast.Name, ast.List)):
                return "(%s ++ %s)" % (a, b), "refs", True
            refuse(e, "operator %s on %s, %s" % (type(e.op).__name__, ta, tb))
        if isinstance(e, ast.UnaryOp):
            a, ta, _ = self.expr(e.operand, binds)
            if isinstance(e.op, ast.Not) and ta == "bool":
                return "(negb %s)" % a, "bool", False
            if isinstance(e.op, ast.USub) and ta == "Z":
                return "(- %s)" % a, "Z", False
            refuse(e, "unary %s on %s" % (type(e.op).__name__, ta))
        if isinstance(e, ast.Compare):
            if len(e.ops) != 1:
                refuse(e, "comparison chain")
            a, ta, _ = self.expr(e.left, binds)
            b, tb, _ = self.expr(e.comparators[0], binds)
            op = type(e.ops[0]).__name__
            if ta == tb == "T":
                f = {"Lt": "(ltb %s %s)" % (a, b), "LtE": "(leb %s %s)" % (a, b),
                     "Gt": "(ltb %s %s)" % (b, a), "GtE": "(leb %s %s)" % (b, a)}.get(op)
                if f:
                    return f, "bool", False
            if ta == tb == "Z":
                f = {"Lt": "(%s <? %s)", "LtE": "(%s <=? %s)", "Gt": "(%s >? %s)", "GtE": "(%s >=? %s)",
                     "Eq": "(%s =? %s)", "NotEq": "(negb (%s =? %s))"}.get(op)
                if f:
                    return f % (a, b), "bool", False
            refuse(e, "comparison %s on %s, %s" % (op, ta, tb))
        if isinstance(e, ast.BoolOp):
            parts = []
            for k, x in enumerate(e.values):
                inner = []
                v, t, _ = self.expr(x, inner)
                if t != "bool":
                    refuse(x, "operand of and/or of type %s" % t)
                if inner and k > 0:
                    refuse(x, "operand of and/or with effects after the first one (evaluated conditionally)")
                binds.extend(inner)
                parts.append(v)
            f = "andb" if isinstance(e.op, ast.And) else "orb"
            out = parts[-1]
            for p in reversed(parts[:-1]):
                out = "(%s %s %s)" % (f, p, out)
            return out, "bool", False
        if isinstance(e, ast.IfExp):
            c, tc = self.pure(e.test, "condition of a conditional expression")
            a, ta = self.pure(e.body, "branch of a conditional expression")
            b, tb = self.pure(e.orelse, "branch of a conditional expression")
            if tc != "bool" or ta != tb or ta not in ("Z", "T", "bool", "ref"):
                refuse(e, "conditional expression on %s ? %s : %s" % (tc, ta, tb))
            return "(if %s then %s else %s)" % (c, a, b), ta, False
        if isinstance(e, (ast.List, ast.Tuple)):
            if not isinstance(e.ctx, ast.Load):
                refuse(e, "display context")
            vals = []
            for x in e.elts:
                v, t, _ = self.expr(x, binds)
                if t != "ref":
                    refuse(x, "element of type %s in a list/tuple display" % t)
                vals.append(v)
            return ("[%s]" % "; ".join(vals) if vals else "(@nil nat)"), "refs", isinstance(e, ast.List)
        if isinstance(e, ast.Subscript):
            if not isinstance(e.ctx, ast.Load):
                refuse(e, "subscript context")
            if isinstance(e.slice, (ast.Slice, ast.Tuple)):
                refuse(e, "slice")
            l, tl = self.pure(e.value, "subscripted value")
            i, ti = self.pure(e.slice, "index")
            if tl != "refs" or ti != "Z":
                refuse(e, "subscript %s[%s]" % (tl, ti))
            t = self.temp()
            binds.append((t, "m_get %s %s" % (l, i)))
            return t, "ref", False
        if isinstance(e, ast.ListComp):
            return self.comprehension(e, binds)
        if isinstance(e, ast.Call):
            return self.call(e, binds)
        refuse(e, "expression outside the grammar")

    def pure(self, e, what):
        b = []
        v, t, _ = self.expr(e, b)
        if b:
            refuse(e, "%s with effects" % what)
        return v, t

    def fn_body(self, binds, value):
        """monadic text: the binds, then ret value (a trailing bind of the value itself is returned directly)"""
        if binds and binds[-1][0] == value:
            return "".join("%s <- %s ;; " % b for b in binds[:-1]) + binds[-1][1]
        return "".join("%s <- %s ;; " % b for b in binds) + "ret %s" % value

    def comprehension(self, e, binds):
        if len(e.generators) != 1:
            refuse(e, "comprehension with several for clauses")
        g = e.generators[0]
        if g.ifs or g.is_async or not isinstance(g.target, ast.Name):
            refuse(e, "comprehension form")
        it, ti, _ = self.expr(g.iter, binds)
        if ti != "refs":
            refuse(g.iter, "comprehension over %s" % ti)
        inner = self.sub()
        inner.env[g.target.id] = "ref"
        ib = []
        v, tv, _ = inner.expr(e.elt, ib)
        if tv != "ref":
            refuse(e.elt, "comprehension element of type %s" % tv)
        t = self.temp()
        binds.append((t, "map_M (fun %s => %s) %s" % (cn(g.target.id), inner.fn_body(ib, v), it)))
        return t, "refs", True

    def toolbox_attr(self, f):
        return isinstance(f, ast.Attribute) and isinstance(f.value, ast.Name) and f.value.id == "toolbox" \
            and self.env.get("toolbox") == "toolbox"

    def random_attr(self, f):
        return isinstance(f, ast.Attribute) and isinstance(f.value, ast.Name) and f.value.id == "random" \
            and "random" not in self.env

    def call(self, e, binds):
        if e.keywords:
            refuse(e, "keyword arguments")
        f = e.func
        if self.toolbox_attr(f):
            args = []
            for a in e.args:
                v, t, _ = self.expr(a, binds)
                if t != "ref":
                    refuse(a, "toolbox.%s applied to %s" % (f.attr, t))
                args.append(v)
            sig = {"clone": (1, "m_clone %s", "ref"), "mate": (2, "m_mate mate_o %s %s", "refs"),
                   "mutate": (1, "m_mutate mut_o %s", "refs")}.get(f.attr)
            if sig is None or len(args) != sig[0]:
                refuse(e, "toolbox.%s with %d arguments" % (f.attr, len(args)))
            t = self.temp()
            binds.append((t, sig[1] % tuple(args)))
            return t, sig[2], False     # a tuple (or whatever the operator returns): never changed in place here
        if self.random_attr(f):
            if f.attr == "random" and not e.args:
                t = self.temp()
                binds.append((t, "m_random"))
                return t, "T", False
            if f.attr == "sample" and len(e.args) == 2 and isinstance(e.args[1], ast.Constant) \
                    and e.args[1].value == 2 and not isinstance(e.args[1].value, bool):
                l, tl, _ = self.expr(e.args[0], binds)
                if tl != "refs":
                    refuse(e, "random.sample of %s" % tl)
                t = self.temp()
                binds.append((t, "m_sample2 %s" % l))
                return t, "refs", True
            if f.attr == "choice" and len(e.args) == 1:
                l, tl, _ = self.expr(e.args[0], binds)
                if tl != "refs":
                    refuse(e, "random.choice of %s" % tl)
                t = self.temp()
                binds.append((t, "m_choice %s" % l))
                return t, "ref", False
            refuse(e, "random.%s call form" % f.attr)
        if isinstance(f, ast.Name) and f.id in BUILTINS and f.id not in self.env:
            if f.id == "len" and len(e.args) == 1:
                l, tl, _ = self.expr(e.args[0], binds)
                if tl != "refs":
                    refuse(e, "len of %s" % tl)
                return "(zlen %s)" % l, "Z", False
            if f.id in ("min", "max") and len(e.args) == 2:
                a, ta, _ = self.expr(e.args[0], binds)
                b, tb, _ = self.expr(e.args[1], binds)
                if ta != "Z" or tb != "Z":
                    refuse(e, "%s of %s, %s" % (f.id, ta, tb))
                return "(Z.%s %s %s)" % (f.id, a, b), "Z", False
            if f.id in ("list", "tuple") and len(e.args) == 1:
                x = e.args[0]
                if isinstance(x, ast.Call) and isinstance(x.func, ast.Name) and x.func.id == "map" \
                        and "map" not in self.env and not x.keywords and len(x.args) == 2:
                    fn = x.args[0]
                    if not (self.toolbox_attr(fn) and fn.attr == "clone"):
                        refuse(fn, "function mapped over a list")
                    l, tl, _ = self.expr(x.args[1], binds)
                    if tl != "refs":
                        refuse(x, "map over %s" % tl)
                    t = self.temp()
                    binds.append((t, "map_M (fun x => m_clone x) %s" % l))
                    return t, "refs", True
                l, tl, _ = self.expr(x, binds)
                if tl != "refs":
                    refuse(e, "%s of %s" % (f.id, tl))
                return l, "refs", True
            refuse(e, "call of %s with %d arguments" % (f.id, len(e.args)))
        refuse(e, "call of an unknown function")

    # ---------------------------------------------------------------- statements
    @staticmethod
    def emit(binds, pad):
        return "".join(pad + "%s <- %s ;;\n" % b for b in binds)

    @staticmethod
    def pat(vs):
        return "tt_" if not vs else (cn(vs[0]) if len(vs) == 1 else "'(%s)" % ", ".join(cn(v) for v in vs))

    @staticmethod
    def tup(vs):
        return "tt" if not vs else (cn(vs[0]) if len(vs) == 1 else "(%s)" % ", ".join(cn(v) for v in vs))

    @staticmethod
    def terminates(stmts):
        if not stmts:
            return False
        s = stmts[-1]
        if isinstance(s, ast.Return):
            return True
        if isinstance(s, ast.If):
            return FnTr.terminates(s.body) and FnTr.terminates(s.orelse)
        return False

    def method_stmt(self, s):
        """L.append(e) / L.extend(e) as statements -> (L, kind, arg) or None"""
        c = s.value
        if isinstance(c, ast.Call) and isinstance(c.func, ast.Attribute) and isinstance(c.func.value, ast.Name) \
                and c.func.attr in ("append", "extend") and self.env.get(c.func.value.id) == "refs":
            if c.keywords or len(c.args) != 1:
                refuse(s, "method call form")
            return c.func.value.id, c.func.attr, c.args[0]
        return None

    def assigned(self, stmts):
        """names (re)bound or changed in place by the statements, in order of first occurrence"""
        out = []

        def add(n):
            if n not in out:
                out.append(n)

        def target(t):
            if isinstance(t, ast.Name):
                add(t.id)
            elif isinstance(t, (ast.Tuple, ast.List)):
                for x in t.elts:
                    target(x)
            elif isinstance(t, ast.Subscript) and isinstance(t.value, ast.Name):
                if self.env.get(t.value.id) != "listobj":      # (the caller's list object lives in the state)
                    add(t.value.id)
            elif isinstance(t, ast.Attribute):
                pass        # an attribute store binds no local (whether it is in the grammar is decided where it is translated)
            else:
                refuse(t, "assignment target")
        for s in stmts:
            if isinstance(s, ast.Assign):
                for t in s.targets:
                    target(t)
            elif isinstance(s, ast.AugAssign):
                target(s.target)
            elif isinstance(s, ast.Expr):
                m = self.method_stmt(s)
                if m:
                    add(m[0])
            elif isinstance(s, ast.If):
                for n in self.assigned(s.body) + self.assigned(s.orelse):
                    add(n)
            elif isinstance(s, ast.For):
                target(s.target)
                for n in self.assigned(s.body) + self.assigned(s.orelse):
                    add(n)
            elif isinstance(s, (ast.While, ast.FunctionDef, ast.With, ast.Try)):
                refuse(s, "statement outside the grammar")
        return out

    def bind_local(self, node, name, t, fresh=False):
        if name in BUILTINS or name in EXPECTED or self.env.get(name) == "toolbox":
            refuse(node, "assignment to %s" % name)
        old = self.env.get(name)
        if old is not None and old != t:
            refuse(node, "local %s changes type from %s to %s" % (name, old, t))
        if t not in COQ_TYPES or t == "unit":
            refuse(node, "local of type %s" % t)
        self.env[name] = t
        if t == "refs":
            if fresh:
                self.owned.add(name)
            else:
                self.owned.discard(name)

    def store(self, node, target, value, tv, fresh, pad):
        """text binding one assignment target to the already evaluated value"""
        if isinstance(target, ast.Name):
            self.bind_local(node, target.id, tv, fresh)
            return pad + "let %s := %s in\n" % (cn(target.id), value)
        if isinstance(target, ast.Subscript) and isinstance(target.value, ast.Name) and \
                not isinstance(target.slice, (ast.Slice, ast.Tuple)):
            name = target.value.id
            if self.env.get(name) != "refs" or tv != "ref":
                refuse(node, "store of %s into %s[..]" % (tv, self.env.get(name)))
            if name not in self.owned:
                refuse(node, "in-place change of the list %s, which may be shared (a parameter, or bound to a second name)" % name)
            i, ti = self.pure(target.slice, "index of a store")
            if ti != "Z":
                refuse(node, "index of type %s" % ti)
            return pad + "%s <- m_set %s %s %s ;;\n" % (cn(name), cn(name), i, value)
        refuse(target, "assignment target")

    def block(self, stmts, sc, ind):
        pad = "  " * ind
        if not stmts:
            if sc.fall is None:
                refuse("FunctionDef", "control reaches the end of %s without return" % self.fname)
            return pad + sc.fall(self)
        s, rest = stmts[0], list(stmts[1:])
        if isinstance(s, ast.Expr) and isinstance(s.value, ast.Constant) and isinstance(s.value.value, str):
            return self.block(rest, sc, ind)
        if isinstance(s, ast.Pass):
            return self.block(rest, sc, ind)
        if isinstance(s, ast.Return):
            if rest:
                refuse(rest[0], "unreachable statement")
            if not sc.ret or s.value is None:
                refuse(s, "return here")
            binds = []
            v, t, _ = self.expr(s.value, binds)
            if t != self.rettype:
                refuse(s, "return of %s" % t)
            return self.emit(binds, pad) + pad + "ret %s" % v
        if isinstance(s, ast.Assert):
            if s.msg is not None and not (isinstance(s.msg, ast.Constant) and isinstance(s.msg.value, str)):
                refuse(s, "assert message")
            binds = []
            c, tc, _ = self.expr(s.test, binds)
            if tc != "bool":
                refuse(s, "assert of %s" % tc)
            return self.emit(binds, pad) + pad + "%s <- m_assert %s ;;\n" % (self.temp(), c) + self.block(rest, sc, ind)
        if isinstance(s, ast.Delete):
            out = ""
            for t in s.targets:
                if not (isinstance(t, ast.Attribute) and t.attr == "values" and isinstance(t.value, ast.Attribute)
                        and t.value.attr == "fitness"):
                    refuse(t, "del of something other than <individual>.fitness.values")
                binds = []
                v, tv, _ = self.expr(t.value.value, binds)
                if tv != "ref":
                    refuse(t, "del %s.fitness.values" % tv)
                out += self.emit(binds, pad) + pad + "%s <- m_del %s ;;\n" % (self.temp(), v)
            return out + self.block(rest, sc, ind)
        if isinstance(s, ast.Expr):
            m = self.method_stmt(s)
            if m is not None:
                name, kind, arg = m
                if name not in self.owned:
                    refuse(s, "in-place change (.%s) of the list %s, which may be shared (a parameter, or bound to a second name)"
                           % (kind, name))
                binds = []
                v, tv, _ = self.expr(arg, binds)
                if kind == "append" and tv == "ref":
                    val = "(%s ++ [%s])" % (cn(name), v)
                elif kind == "extend" and tv == "refs":
                    val = "(%s ++ %s)" % (cn(name), v)
                else:
                    refuse(s, "%s of %s" % (kind, tv))
                return self.emit(binds, pad) + pad + "let %s := %s in\n" % (cn(name), val) + self.block(rest, sc, ind)
            if not isinstance(s.value, ast.Call):
                refuse(s, "expression statement")
            binds = []
            self.expr(s.value, binds)
            return self.emit(binds, pad) + self.block(rest, sc, ind)
        if isinstance(s, ast.Assign):
            return self.assign(s, rest, sc, ind)
        if isinstance(s, ast.AugAssign):
            return self.augassign(s, rest, sc, ind)
        if isinstance(s, ast.If):
            return self.if_stmt(s, rest, sc, ind)
        if isinstance(s, ast.For):
            return self.for_stmt(s, rest, sc, ind)
        refuse(s, "statement outside the grammar")

    def augassign(self, s, rest, sc, ind):
        pad = "  " * ind
        if not isinstance(s.target, ast.Name) or not isinstance(s.op, ast.Add):
            refuse(s, "augmented assignment form")
        name = s.target.id
        t = self.env.get(name)
        binds = []
        v, tv, _ = self.expr(s.value, binds)
        if t == "refs" and tv == "refs":
            if name not in self.owned:
                refuse(s, "in-place change (+=) of the list %s, which may be shared" % name)
            val = "(%s ++ %s)" % (cn(name), v)
        elif t == "Z" and tv == "Z":
            val = "(%s + %s)" % (cn(name), v)
        elif t == "T" and tv == "T":
            val = "(add %s %s)" % (cn(name), v)
        else:
            refuse(s, "+= on %s, %s" % (t, tv))
        return self.emit(binds, pad) + pad + "let %s := %s in\n" % (cn(name), val) + self.block(rest, sc, ind)

    def assign(self, s, rest, sc, ind):
        pad = "  " * ind
        if len(s.targets) != 1:
            refuse(s, "multiple assignment")
        target, value = s.targets[0], s.value
        binds = []
        if isinstance(target, (ast.Tuple, ast.List)):
            n = len(target.elts)
            if any(isinstance(x, ast.Starred) for x in target.elts):
                refuse(s, "starred target")
            if isinstance(value, (ast.Tuple, ast.List)):
                if len(value.elts) != n:
                    refuse(s, "tuple sizes differ")
                vals = []
                for x in value.elts:
                    v, t, fresh = self.expr(x, binds)
                    if t == "refs" and not fresh:
                        refuse(x, "a list bound to a second name by a parallel assignment")
                    vals.append((v, t, fresh))
                out = self.emit(binds, pad)
                temps = []
                for v, t, fresh in vals:        # all values first (a, b = b, a), then the stores left to right
                    tmp = self.temp()
                    out += pad + "let %s := %s in\n" % (tmp, v)
                    temps.append((tmp, t, fresh))
                for x, (tmp, t, fresh) in zip(target.elts, temps):
                    out += self.store(s, x, tmp, t, fresh, pad)
                return out + self.block(rest, sc, ind)
            v, t, _ = self.expr(value, binds)
            if t != "refs" or n not in (1, 2):
                refuse(s, "unpacking of %s into %d targets" % (t, n))
            temps = [self.temp() for _ in range(n)]
            out = self.emit(binds, pad)
            if n == 2:
                out += pad + "'(%s, %s) <- unpack2 %s ;;\n" % (temps[0], temps[1], v)
            else:
                out += pad + "%s <- unpack1 %s ;;\n" % (temps[0], v)
            for x, tmp in zip(target.elts, temps):
                out += self.store(s, x, tmp, "ref", False, pad)
            return out + self.block(rest, sc, ind)
        v, t, fresh = self.expr(value, binds)
        if isinstance(target, ast.Name) and t == "refs" and not fresh and isinstance(value, ast.Name):
            self.owned.discard(value.id)        # x = y: two names for one list object
        if isinstance(target, ast.Name) and binds and binds[-1][0] == v:
            # x = <call>: bind the result under the local's own name
            self.bind_local(s, target.id, t, fresh)
            return self.emit(binds[:-1], pad) + pad + "%s <- %s ;;\n" % (cn(target.id), binds[-1][1]) + self.block(rest, sc, ind)
        return self.emit(binds, pad) + self.store(s, target, v, t, fresh, pad) + self.block(rest, sc, ind)

    def if_stmt(self, s, rest, sc, ind):
        pad = "  " * ind
        binds = []
        c, tc, _ = self.expr(s.test, binds)
        if tc != "bool":
            refuse(s, "condition of type %s" % tc)
        pre = self.emit(binds, pad)
        tb, te = self.terminates(s.body), self.terminates(s.orelse)
        if tb or te:
            if not sc.ret:
                refuse(s, "return inside a loop")
            if tb and te and rest:
                refuse(rest[0], "unreachable statement")
            a, b = self.sub(), self.sub()
            ta = a.block(list(s.body) + ([] if tb else rest), sc, ind + 1)
            tb_ = b.block(list(s.orelse) + ([] if te else rest), sc, ind + 1)
            return pre + pad + "if %s then (\n%s\n%s) else (\n%s\n%s)" % (c, ta, pad, tb_, pad)
        if any(isinstance(n, ast.Return) for st in list(s.body) + list(s.orelse) for n in ast.walk(st)):
            refuse(s, "return inside an if that also falls through")
        # locals bound in only one branch and unknown before the if are branch-local (a later use is an unknown name)
        ab, ae = self.assigned(list(s.body)), self.assigned(list(s.orelse))
        vs = [v for v in self.assigned(list(s.body) + list(s.orelse)) if v in self.env or (v in ab and v in ae)]
        a, b = self.sub(), self.sub()

        def out(tr):
            for v in vs:
                if v not in tr.env:
                    refuse(s, "%s may be unassigned after the if" % v)
            return "ret %s" % self.tup(vs)
        inner = Scope(ret=False, fall=out)
        ta = a.block(list(s.body), inner, ind + 1)
        tb_ = b.block(list(s.orelse), inner, ind + 1)
        for v in vs:
            if a.env[v] != b.env[v]:
                refuse(s, "%s has different types in the two branches" % v)
            self.env[v] = a.env[v]
            if a.env[v] == "refs":
                if v in a.owned and v in b.owned:
                    self.owned.add(v)
                else:
                    self.owned.discard(v)
        for v in list(self.owned):
            if v not in a.owned or v not in b.owned:
                self.owned.discard(v)
        m = "(if %s then (\n%s\n%s) else (\n%s\n%s))" % (c, ta, pad, tb_, pad)
        return pre + pad + "%s <- %s ;;\n" % (self.pat(vs) if vs else self.temp(), m) + self.block(rest, sc, ind)

    def iterable(self, s, body_assigned):
        """-> (list text, binder text, {loop variable: type}, statements prepended to the body)"""
        it, target = s.iter, s.target

        def plain(name_node, what):
            if not isinstance(name_node, ast.Name):
                refuse(name_node, what)
            return name_node.id
        if isinstance(it, ast.Call) and isinstance(it.func, ast.Name) and it.func.id in ("range", "enumerate", "zip") \
                and it.func.id not in self.env and not it.keywords:
            kind = it.func.id
            if kind == "range":
                x = plain(target, "loop target")
                args = []
                for a in it.args:
                    v, t = self.pure(a, "argument of range")
                    if t != "Z":
                        refuse(a, "range over %s" % t)
                    args.append(v)
                if len(args) == 1:
                    lst = "(py_range %s)" % args[0]
                elif len(args) == 2:
                    lst = "(py_range3 %s %s 1)" % (args[0], args[1])
                elif len(args) == 3 and isinstance(it.args[2], ast.Constant) and isinstance(it.args[2].value, int) \
                        and not isinstance(it.args[2].value, bool) and it.args[2].value != 0:
                    lst = "(py_range3 %s %s %s)" % tuple(args)
                else:
                    refuse(it, "range form")
                return lst, cn(x), {x: "Z"}, ""
            if kind == "enumerate":
                if len(it.args) != 1 or not isinstance(target, ast.Tuple) or len(target.elts) != 2:
                    refuse(s, "enumerate form")
                i, x = plain(target.elts[0], "loop target"), plain(target.elts[1], "loop target")
                l = plain(it.args[0], "enumerate of something other than a name")
                if self.env.get(l) != "refs" or i == x:
                    refuse(s, "enumerate over %s" % self.env.get(l))
                # the list iterator reads L[k] when iteration k starts; with stores L[j] = v as the only changes
                # of L inside the body the length is constant, so this is an index loop over range(len(L))
                for n in self.own_stmts(s.body):
                    if isinstance(n, ast.Expr) and self.method_stmt(n) and self.method_stmt(n)[0] == l:
                        refuse(n, "the loop changes the length of the list it enumerates")
                    if isinstance(n, ast.AugAssign) and isinstance(n.target, ast.Name) and n.target.id == l:
                        refuse(n, "the loop changes the length of the list it enumerates")
                    if isinstance(n, (ast.Assign, ast.For)):
                        for t in (n.targets if isinstance(n, ast.Assign) else [n.target]):
                            for m in ast.walk(t):
                                if isinstance(m, ast.Name) and m.id == l and isinstance(m.ctx, ast.Store):
                                    refuse(n, "the loop rebinds the list it enumerates")
                if i in body_assigned:
                    refuse(s, "the loop assigns its own index %s" % i)
                return "(py_range (zlen %s))" % cn(l), cn(i), {i: "Z", x: "ref"}, (x, l, i)
            if kind == "zip":
                if len(it.args) != 2 or not isinstance(target, ast.Tuple) or len(target.elts) != 2:
                    refuse(s, "zip form")
                x, y = plain(target.elts[0], "loop target"), plain(target.elts[1], "loop target")
                a, b = plain(it.args[0], "zip argument"), plain(it.args[1], "zip argument")
                if self.env.get(a) != "refs" or self.env.get(b) != "refs" or x == y:
                    refuse(s, "zip over %s, %s" % (self.env.get(a), self.env.get(b)))
                if a in body_assigned or b in body_assigned:
                    refuse(s, "the loop changes a list it iterates over")
                return "(zip %s %s)" % (cn(a), cn(b)), "'(%s, %s)" % (cn(x), cn(y)), {x: "ref", y: "ref"}, ""
        if isinstance(it, ast.Name) and self.env.get(it.id) == "refs":
            x = plain(target, "loop target")
            if it.id in body_assigned:
                refuse(s, "the loop changes the list it iterates over")
            return cn(it.id), cn(x), {x: "ref"}, ""
        refuse(it, "iterable outside the grammar")

    @staticmethod
    def own_stmts(stmts):
        for s in stmts:
            yield s
            for fld in ("body", "orelse"):
                for x in FnTr.own_stmts(getattr(s, fld, []) or []):
                    yield x

    def for_stmt(self, s, rest, sc, ind):
        pad = "  " * ind
        if s.orelse:
            refuse(s, "for ... else")
        if any(isinstance(n, (ast.Break, ast.Continue, ast.Return)) for st in s.body for n in ast.walk(st)):
            refuse(s, "break / continue / return inside a loop")
        body_assigned = self.assigned(list(s.body))
        lst, binder, tys, prelude = self.iterable(s, body_assigned)
        for v in tys:
            if v in self.env or v in BUILTINS or v in EXPECTED:
                refuse(s, "loop variable %s is already bound" % v)
            if v in body_assigned:
                refuse(s, "the loop assigns its own variable %s" % v)
        vs = [v for v in body_assigned if v in self.env]
        b = self.sub()
        b.env.update(tys)
        state = self.tup(vs)
        bsc = Scope(ret=False, fall=lambda tr: "ret %s" % state)
        pre = ""
        if prelude and prelude[0] == "lazy":
            _, y, src = prelude
            pre = "  " * (ind + 2) + "%s <- l_evaluate evaluate %s ;;\n" % (cn(y), src)
        elif prelude:
            x, l, i = prelude
            pre = "  " * (ind + 2) + "%s <- m_get %s %s ;;\n" % (cn(x), cn(l), cn(i))
        body = pre + b.block(list(s.body), bsc, ind + 2)
        for v in vs:
            if b.env.get(v) != self.env[v]:
                refuse(s, "the loop changes the type of %s" % v)
            if self.env[v] == "refs" and v in self.owned and v not in b.owned:
                self.owned.discard(v)
        for v in list(self.owned):
            if v not in b.owned:
                self.owned.discard(v)
        m = "for_each %s (fun %s %s =>\n%s) %s" % (lst, binder, self.pat(vs), body, state)
        return pad + "%s <- %s ;;\n" % (self.pat(vs) if vs else self.temp(), m) + self.block(rest, sc, ind)


# ---- the loops dialect: eaSimple / eaMuPlusLambda / eaMuCommaLambda ---------------------------------------------
# Parameter types (trusted): `population` is the caller's list object (its contents live in the state: every read is
# l_pop, `population[:] = e` is l_setpop); `stats` and `halloffame` are GIVEN (a Statistics object, which is truthy, and
# a HallOfFame: `stats`, `stats is not None`, `halloffame is not None` are true) and `verbose` is false: the regenerated
# loops are the specialisation of the source to these calls, as the hand model of Model/C03_Full.v is.
LOOP_PARAM_TYPES = {"population": "listobj", "toolbox": "toolbox", "cxpb": "T", "mutpb": "T", "lambda_": "Z", "mu": "Z",
                    "ngen": "Z", "stats": "stats", "halloffame": "hof", "verbose": "verbose"}
LOOP_FUNCS = [
    ("eaSimple", ["population", "toolbox", "cxpb", "mutpb", "ngen", "stats", "halloffame", "verbose"],
     "fun s => model_simple evaluate fle mate_o mut_o ltb v_cxpb v_mutpb s"),
    ("eaMuPlusLambda", ["population", "toolbox", "mu", "lambda_", "cxpb", "mutpb", "ngen", "stats", "halloffame", "verbose"],
     "fun s => model_plus evaluate fle mate_o mut_o ltb leb add one v_lambda_ v_cxpb v_mutpb s"),
    ("eaMuCommaLambda", ["population", "toolbox", "mu", "lambda_", "cxpb", "mutpb", "ngen", "stats", "halloffame", "verbose"],
     "fun s => model_comma evaluate fle mate_o mut_o ltb leb add one v_mu v_lambda_ v_cxpb v_mutpb s"),
]
LOOP_EXPECTED = {"random": ("import", None, "random"), "tools": ("from", None, "tools")}
LOOP_ENV = "{G F T : Type} (evaluate : G -> F) (fle : F -> F -> bool) (ltb leb : T -> T -> bool) (add : T -> T -> T) " \
           "(one : T) (mate_o : nat -> G * option F -> G * option F -> V.mate_ans G F) " \
           "(mut_o : nat -> G * option F -> V.mut_ans G F)"
VAR_CALLS = {"varAnd": (["refs", "toolbox", "T", "T"], "C02_gen.gen_varAnd ltb leb add one mo uo %s %s %s"),
             "varOr": (["refs", "toolbox", "Z", "T", "T"], "C02_gen.gen_varOr ltb leb add one mo uo %s %s %s %s")}


class LoopTr(FnTr):
    top = {}

    def __init__(self, *a, **k):
        FnTr.__init__(self, *a, **k)
        # lazy results of toolbox.map(toolbox.evaluate, l) bound in THIS statement list and not consumed yet: an
        # iterator is consumed once, so exactly one `for .. in zip(.., fitnesses)` of the same block may follow
        self.lazy_ok = set()

    def bind_local(self, node, name, t, fresh=False):
        FnTr.bind_local(self, node, name, t, fresh)
        if t == "lazyfits":
            self.lazy_ok.add(name)
        else:
            self.lazy_ok.discard(name)

    def static_truth(self, test):
        """conditions decided by the signature table: None when the test is an ordinary expression"""
        if isinstance(test, ast.Name):
            t = self.env.get(test.id)
            if t == "stats":
                return True
            if t == "verbose":
                return False
        if isinstance(test, ast.Compare) and len(test.ops) == 1 and isinstance(test.left, ast.Name) \
                and isinstance(test.comparators[0], ast.Constant) and test.comparators[0].value is None \
                and self.env.get(test.left.id) in ("stats", "hof"):
            if isinstance(test.ops[0], ast.IsNot):
                return True
            if isinstance(test.ops[0], ast.Is):
                return False
        return None

    def is_obj(self, e, ty):
        return isinstance(e, ast.Name) and self.env.get(e.id) == ty

    def expr(self, e, binds):
        if isinstance(e, ast.Name) and isinstance(e.ctx, ast.Load) and self.env.get(e.id) == "listobj":
            t = self.temp()
            binds.append((t, "l_pop"))          # the contents of the caller's list object, now
            return t, "refs", False
        if isinstance(e, ast.Name) and self.env.get(e.id) in ("stats", "hof", "verbose", "logbook"):
            refuse(e, "%s used as a value" % e.id)
        if isinstance(e, ast.IfExp):
            st = self.static_truth(e.test)
            if st is not None:
                return self.expr(e.body if st else e.orelse, binds)
        if isinstance(e, ast.ListComp):
            g = e.generators[0] if len(e.generators) == 1 else None
            if g is not None and len(g.ifs) == 1 and not g.is_async and isinstance(g.target, ast.Name) \
                    and isinstance(e.elt, ast.Name) and e.elt.id == g.target.id:
                c = g.ifs[0]
                if isinstance(c, ast.UnaryOp) and isinstance(c.op, ast.Not) and isinstance(c.operand, ast.Attribute) \
                        and c.operand.attr == "valid" and isinstance(c.operand.value, ast.Attribute) \
                        and c.operand.value.attr == "fitness" and isinstance(c.operand.value.value, ast.Name) \
                        and c.operand.value.value.id == g.target.id:
                    l, tl, _ = self.expr(g.iter, binds)
                    if tl != "refs":
                        refuse(g.iter, "comprehension over %s" % tl)
                    t = self.temp()
                    binds.append((t, "l_invalid %s" % l))
                    return t, "refs", True
            refuse(e, "comprehension form (loops)")
        return FnTr.expr(self, e, binds)

    def call(self, e, binds):
        f = e.func
        if self.toolbox_attr(f):
            if f.attr == "select" and len(e.args) == 2 and not e.keywords:
                l, tl, _ = self.expr(e.args[0], binds)
                k, tk, _ = self.expr(e.args[1], binds)
                if tl != "refs" or tk != "Z":
                    refuse(e, "toolbox.select(%s, %s)" % (tl, tk))
                t = self.temp()
                binds.append((t, "l_select %s %s" % (l, k)))
                return t, "refs", False
            if f.attr == "map" and len(e.args) == 2 and not e.keywords and self.toolbox_attr(e.args[0]) \
                    and e.args[0].attr == "evaluate":
                l, tl, _ = self.expr(e.args[1], binds)
                if tl != "refs":
                    refuse(e, "toolbox.map over %s" % tl)
                t = self.temp()
                binds.append((t, "l_map_evaluate %s" % l))
                return t, "lazyfits", False
            refuse(e, "toolbox.%s in a loop function" % f.attr)
        if isinstance(f, ast.Name) and f.id in VAR_CALLS and f.id not in self.env and not e.keywords:
            d = self.top.get(f.id, [])
            if len(d) != 1 or d[0][0] != "def":
                refuse(e, "%s is not the module-level function" % f.id)
            tys, fmt = VAR_CALLS[f.id]
            if len(e.args) != len(tys):
                refuse(e, "%s with %d arguments" % (f.id, len(e.args)))
            vals = []
            for a, ty in zip(e.args, tys):
                if ty == "toolbox":
                    if not self.is_obj(a, "toolbox"):
                        refuse(a, "toolbox argument")
                    continue
                v, t, _ = self.expr(a, binds)
                if t != ty:
                    refuse(a, "argument of type %s, expected %s" % (t, ty))
                vals.append(v)
            t = self.temp()
            binds.append((t, "l_call_var mate_o mut_o (fun mo uo => %s)" % (fmt % tuple(vals))))
            return t, "refs", True
        if isinstance(f, ast.Attribute) and self.is_obj(f.value, "stats") and f.attr == "compile" \
                and len(e.args) == 1 and not e.keywords:
            l, tl, _ = self.expr(e.args[0], binds)
            if tl != "refs":
                refuse(e, "stats.compile of %s" % tl)
            t = self.temp()
            binds.append((t, "l_compile %s" % l))
            return t, "srec", False
        if isinstance(f, ast.Attribute) and isinstance(f.value, ast.Name) and f.value.id == "tools" \
                and "tools" not in self.env and f.attr == "Logbook" and not e.args and not e.keywords:
            t = self.temp()
            binds.append((t, "l_new_logbook"))
            return t, "logbook", False
        if self.toolbox_attr(f) or self.random_attr(f):
            refuse(e, "call outside the grammar of the loops")
        return FnTr.call(self, e, binds)

    @staticmethod
    def unobserved(e):
        """an expression without effects whose value the model does not observe (logbook.header)"""
        for n in ast.walk(e):
            if not isinstance(n, (ast.Constant, ast.List, ast.BinOp, ast.Add, ast.IfExp, ast.Name, ast.Attribute,
                                  ast.Compare, ast.Is, ast.IsNot, ast.Load)):
                return False
            if isinstance(n, ast.Name) and n.id != "stats":
                return False
            if isinstance(n, ast.Attribute) and not (isinstance(n.value, ast.Name) and n.attr == "fields"):
                return False
        return True

    def iterable(self, s, body_assigned):
        it, target = s.iter, s.target
        if isinstance(it, ast.Call) and isinstance(it.func, ast.Name) and it.func.id == "zip" and "zip" not in self.env \
                and not it.keywords and len(it.args) == 2 and isinstance(it.args[1], ast.Name) \
                and self.env.get(it.args[1].id) == "lazyfits":
            if not (isinstance(target, ast.Tuple) and len(target.elts) == 2 and all(isinstance(x, ast.Name) for x in target.elts)
                    and isinstance(it.args[0], ast.Name) and self.env.get(it.args[0].id) == "refs"):
                refuse(s, "zip form")
            x, y = target.elts[0].id, target.elts[1].id
            a, b = it.args[0].id, it.args[1].id
            if x == y or a in body_assigned or b in body_assigned:
                refuse(s, "the loop changes a list it iterates over")
            if b not in self.lazy_ok:
                refuse(s, "the lazy sequence %s may already have been consumed (it is not bound in this block, or is used twice)" % b)
            self.lazy_ok.discard(b)
            src = self.temp()
            # zip pulls an individual, then the next fitness: toolbox.evaluate is called at that moment (map is lazy)
            return "(zip %s %s)" % (cn(a), cn(b)), "'(%s, %s)" % (cn(x), src), {x: "ref", y: "fitval"}, ("lazy", y, src)
        return FnTr.iterable(self, s, body_assigned)

    def block(self, stmts, sc, ind):
        pad = "  " * ind
        if not stmts:
            return FnTr.block(self, stmts, sc, ind)
        s, rest = stmts[0], list(stmts[1:])
        if isinstance(s, ast.If):
            st = self.static_truth(s.test)
            if st is not None:
                return self.block(list(s.body if st else s.orelse) + rest, sc, ind)
        if isinstance(s, ast.Return):
            if rest:
                refuse(rest[0], "unreachable statement")
            v = s.value
            if not (sc.ret and isinstance(v, ast.Tuple) and len(v.elts) == 2 and self.is_obj(v.elts[0], "listobj")
                    and self.is_obj(v.elts[1], "logbook")):
                refuse(s, "return form (expected: return population, logbook)")
            return pad + "ret tt"
        if isinstance(s, ast.Assign) and len(s.targets) == 1:
            t = s.targets[0]
            if isinstance(t, ast.Attribute) and t.attr == "header" and self.is_obj(t.value, "logbook"):
                if not self.unobserved(s.value):
                    refuse(s, "logbook.header expression")
                return self.block(rest, sc, ind)
            if isinstance(t, ast.Attribute) and t.attr == "values" and isinstance(t.value, ast.Attribute) \
                    and t.value.attr == "fitness":
                binds = []
                v, tv, _ = self.expr(s.value, binds)
                u, tu, _ = self.expr(t.value.value, binds)
                if tv != "fitval" or tu != "ref":
                    refuse(s, "%s.fitness.values = %s" % (tu, tv))
                return self.emit(binds, pad) + pad + "%s <- l_setfit %s %s ;;\n" % (self.temp(), u, v) + self.block(rest, sc, ind)
            if isinstance(t, ast.Subscript) and self.is_obj(t.value, "listobj") and isinstance(t.slice, ast.Slice) \
                    and t.slice.lower is None and t.slice.upper is None and t.slice.step is None:
                binds = []
                v, tv, _ = self.expr(s.value, binds)
                if tv != "refs":
                    refuse(s, "population[:] = %s" % tv)
                return self.emit(binds, pad) + pad + "%s <- l_setpop %s ;;\n" % (self.temp(), v) + self.block(rest, sc, ind)
            if isinstance(t, ast.Name) and isinstance(s.value, ast.Name) and self.env.get(s.value.id) == "listobj":
                refuse(s, "a second name for the caller's list object")
        if isinstance(s, ast.Expr) and isinstance(s.value, ast.Call) and isinstance(s.value.func, ast.Attribute):
            c, f = s.value, s.value.func
            if self.is_obj(f.value, "hof") and f.attr == "update" and len(c.args) == 1 and not c.keywords:
                binds = []
                l, tl, _ = self.expr(c.args[0], binds)
                if tl != "refs":
                    refuse(s, "halloffame.update of %s" % tl)
                return self.emit(binds, pad) + pad + "%s <- l_hof_update fle %s ;;\n" % (self.temp(), l) + self.block(rest, sc, ind)
            if self.is_obj(f.value, "logbook") and f.attr == "record" and not c.args:
                kw = {k.arg: k.value for k in c.keywords}
                if len(c.keywords) != 3 or set(kw) != {"gen", "nevals", None}:
                    refuse(s, "logbook.record form (expected gen=, nevals=, **record)")
                binds = []
                vals = []
                for k in c.keywords:       # evaluated in source order
                    v, tv, _ = self.expr(k.value, binds)
                    if tv != ("srec" if k.arg is None else "Z"):
                        refuse(s, "logbook.record argument %s of type %s" % (k.arg, tv))
                    vals.append((k.arg, v))
                d = dict(vals)
                return self.emit(binds, pad) + pad + "%s <- l_record %s %s %s ;;\n" % (self.temp(), d["gen"], d["nevals"], d[None]) + \
                    self.block(rest, sc, ind)
        return FnTr.block(self, stmts, sc, ind)


def check_loop_function(fn, top, params):
    a = fn.args
    if fn.decorator_list or a.posonlyargs or a.kwonlyargs or a.kw_defaults or a.vararg or a.kwarg or fn.returns:
        refuse(fn, "function header")
    if [x.arg for x in a.args] != params:
        refuse(fn, "parameters %r, expected %r" % ([x.arg for x in a.args], params))
    d = a.defaults
    if not (len(d) == 3 and isinstance(d[0], ast.Constant) and d[0].value is None and isinstance(d[1], ast.Constant)
            and d[1].value is None and isinstance(d[2], ast.Name) and d[2].id == "__debug__"):
        refuse(fn, "default values (expected stats=None, halloffame=None, verbose=__debug__)")
    saved = a.defaults
    a.defaults = []
    try:
        check_function(fn, top, params)
    finally:
        a.defaults = saved


def loop_signature(params):
    return " ".join("(%s : %s)" % (cn(p), COQ_TYPES[LOOP_PARAM_TYPES[p]]) for p in params
                    if LOOP_PARAM_TYPES[p] in ("T", "Z"))


LOOP_HEADER = """(* GENERATED by harness/c02_py2coq.py from %s -- do not edit, never committed *)
From Coq Require Import List ZArith Bool Arith.
From DV Require Model.C02_Variation.
From DV Require Import Base.PyList Model.C02_GenRt Model.C03_Loops Model.C03_Full Model.C02_GenLoopsRt.
From DV Require Gen.C02_gen.
Import ListNotations.
Local Open Scope list_scope.
Local Open Scope Z_scope.
Local Open Scope c02m_scope.

"""


def translate_loops_source(source, origin="deap/algorithms.py"):
    """source text -> (Gallina text of coq/Gen/C02_gen_loops.v, {function: None | Refuse})"""
    global EXPECTED
    wanted = [f[0] for f in LOOP_FUNCS]
    status, defs, top = {}, {}, {}
    saved = EXPECTED
    EXPECTED = LOOP_EXPECTED
    try:
        try:
            tree = ast.parse(source)
            top, defs = check_module(tree, wanted + [f[0] for f in FUNCS])
        except (SyntaxError, ValueError, RecursionError, MemoryError) as e:
            for w in wanted:
                defs[w] = Refuse("Module", "source does not parse: %s" % e)
        except Refuse as r:
            for w in wanted:
                defs[w] = r
        out = LOOP_HEADER % origin
        for name, params, model in LOOP_FUNCS:
            sig = loop_signature(params)
            try:
                if isinstance(defs[name], Refuse):
                    raise defs[name]
                check_loop_function(defs[name], top, params)
                tr = LoopTr(name, "unit")
                tr.top = top
                LoopTr.top = top
                for p_ in params:
                    tr.env[p_] = LOOP_PARAM_TYPES[p_]
                body = tr.block(list(defs[name].body), Scope(ret=True), 1)
                text = "Definition gen_%s %s %s : M (@lstate G F T) unit :=\n%s.\n" % (name, LOOP_ENV, sig, body)
                status[name] = None
            except Refuse as r:
                status[name] = r
                text = None
            except Exception as e:  # noqa  (fail closed)
                status[name] = Refuse("FunctionDef", "translator error %s: %s" % (type(e).__name__, e))
                text = None
            if text is None:
                text = "(* REFUSED %s: %s -- placeholder: the hand model, tied by the correspondence only *)\n" \
                       "Definition gen_%s %s %s : M (@lstate G F T) unit :=\n  %s.\n" % (
                           name, str(status[name]).replace("*)", "* )").replace("(*", "( *"), name, LOOP_ENV, sig, model)
            out += text + "\n"
    finally:
        EXPECTED = saved
    return out, status


def translate_loops_repo(repo):
    path = os.path.join(repo, *FILE)
    try:
        src = open(path).read()
    except (OSError, UnicodeDecodeError) as e:
        src = "\x00 unreadable: %s" % e
    return translate_loops_source(src, path)


# ---- module level ---------------------------------------------------------------------------------------
def check_module(tree, wanted):
    """names of fixed meaning must be bound at module level exactly as expected; each wanted function is
    defined exactly once at module level, by a plain def"""
    top = {}
    for n in tree.body:
        if isinstance(n, ast.Import):
            for a in n.names:
                top.setdefault((a.asname or a.name).split(".")[0], []).append(("import", None, a.name, n))
        elif isinstance(n, ast.ImportFrom):
            for a in n.names:
                if a.name == "*":
                    refuse(n, "star import (may rebind any name)")
                top.setdefault(a.asname or a.name, []).append(("from", n.module, a.name, n))
        elif isinstance(n, (ast.FunctionDef, ast.AsyncFunctionDef, ast.ClassDef)):
            top.setdefault(n.name, []).append(("def", None, None, n))
        elif isinstance(n, ast.Expr) and isinstance(n.value, ast.Constant):
            pass
        else:
            for t in ast.walk(n):      # assignments, module-level if/try/for/with: anything they bind is suspect
                if isinstance(t, ast.Name) and isinstance(t.ctx, (ast.Store, ast.Del)):
                    top.setdefault(t.id, []).append(("assign", None, None, n))
                elif isinstance(t, (ast.Import, ast.ImportFrom, ast.FunctionDef, ast.ClassDef, ast.Global)):
                    refuse(t, "conditional module-level binding")
    for b in BUILTINS:
        if b in top:
            refuse(top[b][0][3], "builtin %s is rebound at module level" % b)
    for nm, (kind, mod, orig) in EXPECTED.items():
        if nm not in top:
            refuse("Module", "%s is not imported" % nm)
        for k, m, o, node in top[nm]:
            if (k, m, o) != (kind, mod, orig):
                refuse(node, "%s is not bound by the expected import" % nm)
    defs = {}
    for name in wanted:
        ds = top.get(name, [])
        if len(ds) != 1 or ds[0][0] != "def" or not isinstance(ds[0][3], ast.FunctionDef):
            defs[name] = Refuse("Module", "%s is bound %d times at module level / not by a plain def" % (name, len(ds)))
        else:
            defs[name] = ds[0][3]
    # a `global random` / assignment to a fixed name inside ANY function of the module rebinds it for everybody
    for n in ast.walk(tree):
        if isinstance(n, (ast.Global, ast.Nonlocal)) and any(x in EXPECTED or x in wanted for x in n.names):
            refuse(n, "global declaration of a name with a fixed meaning")
    return top, defs


def check_function(fn, top, params):
    a = fn.args
    if fn.decorator_list or a.posonlyargs or a.kwonlyargs or a.kw_defaults or a.vararg or a.kwarg or fn.returns or a.defaults:
        refuse(fn, "function header")
    if [x.arg for x in a.args] != params:
        refuse(fn, "parameters %r, expected %r" % ([x.arg for x in a.args], params))
    for n in ast.walk(fn):
        if isinstance(n, (ast.Global, ast.Nonlocal, ast.Lambda, ast.Try, ast.With, ast.Yield, ast.YieldFrom, ast.Await,
                          ast.ClassDef, ast.Import, ast.ImportFrom, ast.NamedExpr, ast.Starred, ast.While,
                          ast.AsyncFor, ast.AsyncWith, ast.Raise, ast.Break, ast.Continue)) or \
                (isinstance(n, (ast.FunctionDef, ast.AsyncFunctionDef)) and n is not fn):
            refuse(n, "%s inside a translated function" % type(n).__name__)
        if isinstance(n, ast.Name) and isinstance(n.ctx, (ast.Store, ast.Del)) and (
                n.id in BUILTINS or n.id in EXPECTED or n.id in params or (n.id in top)):
            refuse(n, "%s is rebound inside the function" % n.id)
        if isinstance(n, ast.comprehension) and isinstance(n.target, ast.Name) and n.target.id in params:
            refuse(n, "comprehension variable shadows a parameter")


def signature(params):
    return " ".join("(%s : %s)" % (cn(p), COQ_TYPES[PARAM_TYPES[p]]) for p in params if PARAM_TYPES[p] != "toolbox")


def translate_function(fn, top, name, params, rettype):
    check_function(fn, top, params)
    tr = FnTr(name, rettype)
    for p in params:
        tr.env[p] = PARAM_TYPES[p]
    body = tr.block(list(fn.body), Scope(ret=True), 1)
    return "Definition gen_%s %s %s : M (st G F T) %s :=\n%s.\n" % (name, ENV, signature(params), COQ_TYPES[rettype], body)


HEADER = """(* GENERATED by harness/c02_py2coq.py from %s -- do not edit, never committed *)
From Coq Require Import List ZArith Bool Arith.
From DV Require Import Base.PyList Model.C02_Variation Model.C02_GenRt.
Import ListNotations.
Local Open Scope list_scope.
Local Open Scope Z_scope.
Local Open Scope c02m_scope.

"""

TRAILER = """(* correspondence entry point: the same cases as Corr.C02.check, run through the regenerated definitions *)
From Coq Require Import PrimFloat.
From DV Require Import Corr.C02.
Definition check_gen : case -> bool :=
  check_with (fun mks uks cxpb mutpb s pop =>
                gen_varAnd PrimFloat.ltb PrimFloat.leb PrimFloat.add 1%float (mate_of mks) (mut_of uks) pop cxpb mutpb s)
             (fun mks uks lambda_ cxpb mutpb s pop =>
                gen_varOr PrimFloat.ltb PrimFloat.leb PrimFloat.add 1%float (mate_of mks) (mut_of uks) pop lambda_ cxpb mutpb s).
Definition check_both (c : case) : bool := check c && check_gen c.
"""


def translate_source(source, origin="deap/algorithms.py"):
    """source text -> (Gallina text, {function: None | Refuse}).  A refused function gets the hand model as a
    placeholder definition (reported by the caller)."""
    wanted = [f[0] for f in FUNCS]
    status, defs, top = {}, {}, {}
    try:
        tree = ast.parse(source)
        top, defs = check_module(tree, wanted)
    except (SyntaxError, ValueError, RecursionError, MemoryError) as e:
        for w in wanted:
            defs[w] = Refuse("Module", "source does not parse: %s" % e)
    except Refuse as r:
        for w in wanted:
            defs[w] = r
    out = HEADER % origin
    for name, params, rettype, model in FUNCS:
        try:
            if isinstance(defs[name], Refuse):
                raise defs[name]
            text = translate_function(defs[name], top, name, params, rettype)
            status[name] = None
        except Refuse as r:
            status[name] = r
            text = None
        except Exception as e:  # noqa  (a translator crash on an unforeseen construct is a refusal: fail closed)
            status[name] = Refuse("FunctionDef", "translator error %s: %s" % (type(e).__name__, e))
            text = None
        if text is None:
            text = "(* REFUSED %s: %s -- placeholder: the hand model, tied by the correspondence only *)\n" \
                   "Definition gen_%s %s %s : M (st G F T) %s :=\n  %s.\n" % (
                       name, str(status[name]).replace("*)", "* )").replace("(*", "( *"), name, ENV, signature(params),
                       COQ_TYPES[rettype], model)
        out += text + "\n"
    return out + TRAILER, status


def translate_repo(repo):
    path = os.path.join(repo, *FILE)
    try:
        src = open(path).read()
    except (OSError, UnicodeDecodeError) as e:
        src = "\x00 unreadable: %s" % e        # -> syntax error -> refusal
    return translate_source(src, path)


if __name__ == "__main__":
    import sys
    repo_ = sys.argv[1] if len(sys.argv) > 1 else "/repo"
    if len(sys.argv) > 2 and sys.argv[2] == "loops":
        txt, st = translate_loops_repo(repo_)
    else:
        txt, st = translate_repo(repo_)
    sys.stdout.write(txt)
    for k, v in st.items():
        sys.stderr.write("%s: %s\n" % (k, "translated" if v is None else "REFUSED %s" % v))
