"""Fail-closed translator: classes HallOfFame and ParetoFront of deap/tools/support.py -> Gallina.

Tie (T) of property C08 (DESIGN.md 2.3).  The working-tree source is parsed with Python's `ast`; the body of
every method of the table FUNCS is compiled, statement by statement, into the state-and-exception monad
`M X = st -> option (X * st)` of coq/Model/C08_GenRt.v, generic in a `World` (what a reference to an
individual / a fitness object is, where self.keys / self.items live, what deepcopy does), and written to
coq/Gen/C08_gen.v (never committed).  coq/Proofs/C08_gen_equiv.v then proves, for all arguments and all
states, that the regenerated methods instantiated at the value-level world are the hand model
coq/Model/C08_Archive.v and, instantiated at the heap-level world, the hand model coq/Model/C08_Heap.v;
coq/Props/C08_gen.v restates the C08 theorems on the regenerated definitions.  A semantic change of the source
therefore breaks a proof obligation; a construct outside the grammar below makes the translator REFUSE that
method (class Refuse): its regenerated definition is then the committed reference transcription of that method
(harness/c08_gen_ref.v.in: the translator's output for the source at the time the tie was built; a placeholder
reported as such, so that the committed equivalence file always builds and the other methods keep the regenerated
tie) and the method is tied by the correspondence only.

Grammar (everything else is refused)
  classes      class HallOfFame(object) / class ParetoFront(HallOfFame): docstring and plain `def`s only (no
               decorators, class attributes, metaclass); __init__ must be the four / one known assignments; no
               special method besides __init__ __len__ __getitem__ __iter__ __reversed__ __str__; ParetoFront
               may only define __init__ and update (everything else is inherited)
  statements   docstring | pass | x = e | a, b = e1, e2 | x += e | x -= e | x.append(e) (x a list created in the method)
               | self.items.insert(i, e) | self.keys.insert(i, e) | self.items.append(e) | self.keys.append(e)
               | del self.items[i] | del self.keys[i] | del self.items[a:b] | del self.keys[a:b] | del x[i]
               | self.items.clear() | self.keys.clear() | self.insert(e) | self.remove(e) | self.clear() | if/elif/else
               | for <name | (name, name)> in <iterable>: ... [else: ...] with break / continue
               | return | return None | return e (only as the result of __len__ / __getitem__ / __iter__)
  iterables    self | self.items | self.keys | a list | reversed(list) | list(iterable) | enumerate(iterable[, start])
               | range(a[, b[, literal step]])      (a loop over self / a list must not change that list in its body)
  expressions  int / bool constants, names, self.maxsize, self.items, self.keys, x.fitness, f.wvalues, self[i], l[i],
               l[a:b], + - * % // unary - on ints, == != < <= > >= on ints and on fitness objects, and/or/not
               (short-circuit when an operand reads the archive or can raise), `not l` / `l` as emptiness test of a
               list, conditional expressions without effects, len(self), len(l), min/max of two ints,
               deepcopy(x), bisect_right(list of fitness objects, fitness object), self.similar(a, b),
               f.dominates(g), reversed, list, [], [e, ...], iter(l) (in __iter__), any/all(<bool> for x in <iterable>)
Types          Z (every int), bool, ref (an individual), fref (a fitness object), lists of these.
Names          `deepcopy` and `bisect_right` must be the module-level imports from copy / bisect and the builtins used
               must not be rebound anywhere in the module.
Object identity: `x.fitness` of the copy made by deepcopy is the copy's own fitness object (World field w_fitness /
w_deepcopy); in the value-level world deepcopy is the identity, in the heap-level world it allocates.
"""
import ast
import os
import re

FILE = ("deap", "tools", "support.py")


class Refuse(Exception):
    def __init__(self, node, why):
        self.node = type(node).__name__ if not isinstance(node, str) else node
        self.line = getattr(node, "lineno", None)
        self.why = why
        Exception.__init__(self, "%s at line %s: %s" % (self.node, self.line, why))


class Retype(Exception):
    """internal: the element type of a list created empty is now known; translate again"""
    def __init__(self, name, ty):
        self.name, self.ty = name, ty


def refuse(node, why):
    raise Refuse(node, why)


# ---- signature table (trusted) -------------------------------------------------------------------------
# key, class, method, parameters (name, type) after self, reads self.maxsize, result type
FUNCS = [
    ("len", "HallOfFame", "__len__", [], False, "Z"),
    ("getitem", "HallOfFame", "__getitem__", [("i", "Z")], False, "ref"),
    ("iter", "HallOfFame", "__iter__", [], False, "list ref"),
    ("insert", "HallOfFame", "insert", [("item", "ref")], False, "unit"),
    ("remove", "HallOfFame", "remove", [("index", "Z")], False, "unit"),
    ("clear", "HallOfFame", "clear", [], False, "unit"),
    ("hof_update", "HallOfFame", "update", [("population", "list ref")], True, "unit"),
    ("pf_update", "ParetoFront", "update", [("population", "list ref")], False, "unit"),
]
BY_METHOD = {"__len__": "len", "__getitem__": "getitem", "__iter__": "iter", "insert": "insert", "remove": "remove",
             "clear": "clear"}
KNOWN_DUNDER = ("__init__", "__len__", "__getitem__", "__iter__", "__reversed__", "__str__")
FIELDS = ("maxsize", "keys", "items", "similar")
EXPECTED = {"deepcopy": ("copy", "deepcopy"), "bisect_right": ("bisect", "bisect_right")}
BUILTINS = ("len", "enumerate", "reversed", "range", "any", "all", "list", "iter", "min", "max", "object", "True", "False",
            "None")
COQT = {"Z": "Z", "bool": "bool", "ref": "(ref W)", "fref": "(fref W)", "unit": "unit"}


def is_list(t):
    return isinstance(t, str) and t.startswith("list ")


def elem(t):
    return t[5:]


def coqtype(t):
    if t in COQT:
        return COQT[t]
    if is_list(t) and elem(t) in COQT:
        return "(list %s)" % COQT[elem(t)]
    raise Refuse("type", "no Coq type for %s" % (t,))


def cn(name):
    """Coq identifier of a Python local (injective; cannot meet a name of the run-time vocabulary or a temporary)"""
    return "v_" + name


def zlit(v):
    return "%d" % v if v >= 0 else "(%d)" % v


def is_self(e):
    return isinstance(e, ast.Name) and e.id == "self"


def self_attr(e):
    """e is self.<attr> -> attr"""
    if isinstance(e, ast.Attribute) and is_self(e.value):
        return e.attr
    return None


def mutates_self(stmts):
    """does the code (possibly) change the archive's lists?  (used for loops over self: the regenerated loop iterates a
    snapshot, which is only right when the body leaves the list alone)"""
    for s in stmts:
        for n in ast.walk(s):
            if isinstance(n, ast.Delete):
                return True
            if isinstance(n, (ast.Assign, ast.AugAssign, ast.AnnAssign)):
                tg = n.targets if isinstance(n, ast.Assign) else [n.target]
                for t in tg:
                    if not isinstance(t, (ast.Name, ast.Tuple)):
                        return True
            if isinstance(n, ast.Call) and isinstance(n.func, ast.Attribute):
                f = n.func
                if is_self(f.value) and f.attr != "similar":
                    return True
                if self_attr(f.value) is not None:      # self.items.<method>(...)
                    return True
    return False


def assigned_names(stmts):
    """names a block may (re)bind or change in place, in source order of their first such occurrence"""
    found = []
    for s in stmts:
        for n in ast.walk(s):
            if isinstance(n, ast.Name) and isinstance(n.ctx, (ast.Store, ast.Del)):
                found.append((n.lineno, n.col_offset, n.id))
            elif isinstance(n, ast.Call) and isinstance(n.func, ast.Attribute) and isinstance(n.func.value, ast.Name) \
                    and n.func.value.id != "self":
                v = n.func.value                # x.append(..) and any other method call on a local
                found.append((v.lineno, v.col_offset, v.id))
            elif isinstance(n, ast.Delete):
                for t in n.targets:
                    if isinstance(t, ast.Subscript) and isinstance(t.value, ast.Name):
                        found.append((t.value.lineno, t.value.col_offset, t.value.id))
    out = []
    for _, _, x in sorted(found):
        if x not in out:
            out.append(x)
    return out


def names_read(e):
    return {n.id for n in ast.walk(e) if isinstance(n, ast.Name)}


class Scope(object):
    """what falling off the end / continue / break / return mean where a block is compiled: functions
    (env, indentation) -> lines of text"""
    def __init__(self, fall, cont=None, brk=None, retn=None, retv=None):
        self.fall, self.cont, self.brk, self.retn, self.retv = fall, cont, brk, retn, retv


class FnTr(object):
    def __init__(self, key, maxsize, rettype, hints, available):
        self.key = key
        self.maxsize = maxsize          # may read self.maxsize
        self.rettype = rettype
        self.hints = hints              # local -> list type, for lists created empty
        self.available = available      # method name -> (key, params, rettype): what self.<m>() / len(self) ... resolve to
        self.counter = 0
        self.fresh = set()              # locals holding a list created by this method and never aliased

    def temp(self):
        self.counter += 1
        return "t%d" % self.counter

    def method(self, node, name):
        if name not in self.available:
            refuse(node, "no translated method %s to resolve to" % name)
        return self.available[name]

    # ---- expressions: (text, type); effects / reads are appended to binds in evaluation order ----------------
    def expr(self, e, env, binds):
        if isinstance(e, ast.Constant):
            if isinstance(e.value, bool):
                return ("true" if e.value else "false"), "bool"
            if isinstance(e.value, int):
                return zlit(e.value), "Z"
            refuse(e, "constant %r" % (e.value,))
        if isinstance(e, ast.Name):
            if not isinstance(e.ctx, ast.Load):
                refuse(e, "name in store context")
            if e.id in env:
                return cn(e.id), env[e.id]
            refuse(e, "unknown name %s (or a local that is not bound on every path)" % e.id)
        if isinstance(e, ast.List):
            if not e.elts:
                return "nil", "list ?"
            vs = [self.expr(x, env, binds) for x in e.elts]
            ts = {t for _, t in vs}
            if len(ts) != 1 or list(ts)[0] not in COQT:
                refuse(e, "list display of %s" % (sorted(ts),))
            return "[%s]" % "; ".join(v for v, _ in vs), "list %s" % list(ts)[0]
        if isinstance(e, ast.Attribute):
            return self.attribute(e, env, binds)
        if isinstance(e, ast.UnaryOp):
            if isinstance(e.op, ast.Not):
                return "(negb %s)" % self.truth(e.operand, env, binds), "bool"
            if isinstance(e.op, ast.USub):
                if isinstance(e.operand, ast.Constant) and isinstance(e.operand.value, int) \
                        and not isinstance(e.operand.value, bool):
                    return zlit(-e.operand.value), "Z"
                v, t = self.expr(e.operand, env, binds)
                if t != "Z":
                    refuse(e, "unary minus of %s" % (t,))
                return "(- %s)" % v, "Z"
            refuse(e, "unary operator %s" % type(e.op).__name__)
        if isinstance(e, ast.BinOp):
            return self.binop(e, env, binds)
        if isinstance(e, ast.Compare):
            return self.compare(e, env, binds)
        if isinstance(e, ast.BoolOp):
            return self.boolop(e, env, binds, False)
        if isinstance(e, ast.IfExp):
            c = self.truth(e.test, env, binds)
            n = len(binds)
            a, ta = self.expr(e.body, env, binds)
            b, tb = self.expr(e.orelse, env, binds)
            if len(binds) != n:
                refuse(e, "branch of a conditional expression that reads the archive or can raise")
            if ta != tb or ta == "list ?" or is_list(ta):
                refuse(e, "conditional expression of types %s / %s" % (ta, tb))
            return "(if %s then %s else %s)" % (c, a, b), ta
        if isinstance(e, ast.Subscript):
            return self.subscript(e, env, binds)
        if isinstance(e, ast.Call):
            return self.call(e, env, binds)
        refuse(e, "expression outside the grammar")

    def truth(self, e, env, binds):
        """e in a boolean context"""
        if isinstance(e, ast.BoolOp):
            return self.boolop(e, env, binds, True)[0]
        v, t = self.expr(e, env, binds)
        if t == "bool":
            return v
        if is_list(t) and t != "list ?":
            return "(negb (is_empty %s))" % v
        refuse(e, "truth value of %s" % (t,))

    def attribute(self, e, env, binds):
        if not isinstance(e.ctx, ast.Load):
            refuse(e, "attribute in store context")
        if is_self(e.value):
            if e.attr == "maxsize":
                if not self.maxsize:
                    refuse(e, "self.maxsize read by a method that is declared not to")
                return "maxsize", "Z"
            if e.attr == "items":
                x = self.temp()
                binds.append((x, "get_items"))
                return x, "list ref"
            if e.attr == "keys":
                x = self.temp()
                binds.append((x, "get_keys"))
                return x, "list fref"
            refuse(e, "attribute self.%s" % e.attr)
        v, t = self.expr(e.value, env, binds)
        if e.attr == "fitness" and t == "ref":
            return "(fitness_of %s)" % v, "fref"
        if e.attr == "wvalues" and t == "fref":
            x = self.temp()
            binds.append((x, "valM %s" % v))
            return x, "list Z"
        refuse(e, "attribute .%s of %s" % (e.attr, t))

    def binop(self, e, env, binds):
        a, ta = self.expr(e.left, env, binds)
        b, tb = self.expr(e.right, env, binds)
        op = type(e.op)
        if is_list(ta) and ta == tb and ta != "list ?" and op is ast.Add:
            return "(%s ++ %s)" % (a, b), ta
        if ta != "Z" or tb != "Z":
            refuse(e, "arithmetic on %s, %s" % (ta, tb))
        if op in (ast.Add, ast.Sub, ast.Mult):
            return "(%s %s %s)" % (a, {ast.Add: "+", ast.Sub: "-", ast.Mult: "*"}[op], b), "Z"
        if op in (ast.Mod, ast.FloorDiv):
            x = self.temp()
            binds.append((x, "%s %s %s" % ("modM" if op is ast.Mod else "floordivM", a, b)))
            return x, "Z"
        refuse(e, "operator %s" % op.__name__)

    def compare(self, e, env, binds):
        if len(e.ops) != 1:
            refuse(e, "comparison chain")
        a, ta = self.expr(e.left, env, binds)
        b, tb = self.expr(e.comparators[0], env, binds)
        op = type(e.ops[0])
        if ta == "Z" and tb == "Z":
            tbl = {ast.Eq: "(%s =? %s)", ast.NotEq: "(negb (%s =? %s))", ast.Lt: "(%s <? %s)", ast.LtE: "(%s <=? %s)",
                   ast.Gt: "(%s >? %s)", ast.GtE: "(%s >=? %s)"}
            if op not in tbl:
                refuse(e, "comparison %s on ints" % op.__name__)
            return tbl[op] % (a, b), "bool"
        if ta == "fref" and tb == "fref":
            tbl = {ast.Eq: "fit_eq", ast.NotEq: "fit_ne", ast.Lt: "fit_lt", ast.LtE: "fit_le", ast.Gt: "fit_gt",
                   ast.GtE: "fit_ge"}
            if op not in tbl:
                refuse(e, "comparison %s on fitness objects" % op.__name__)
            x, y = self.temp(), self.temp()
            binds.append((x, "valM %s" % a))
            binds.append((y, "valM %s" % b))
            return "(%s %s %s)" % (tbl[op], x, y), "bool"
        refuse(e, "comparison of %s and %s" % (ta, tb))

    def boolop(self, e, env, binds, boolean_context):
        """`a and b` / `a or b` evaluate to one of the operands: outside a boolean context (if / not / and / or / any)
        every operand must itself be a bool, so that the result is its truth value"""
        is_or = isinstance(e.op, ast.Or)
        parts = []
        for i, x in enumerate(e.values):
            b = binds if i == 0 else []
            if boolean_context:
                v = self.truth(x, env, b)
            else:
                v, t = self.expr(x, env, b)
                if t != "bool":
                    refuse(x, "operand of and/or of type %s where the value (not only its truth) is used" % (t,))
            parts.append((v, [] if i == 0 else b))
        if all(not b for _, b in parts):
            out = parts[-1][0]
            for v, _ in reversed(parts[:-1]):
                out = "(%s %s %s)" % ("orb" if is_or else "andb", v, out)
            return out, "bool"
        # short circuit: a later operand reads the archive / can raise, it is only evaluated when needed
        v, b = parts[-1]
        term = "%sret %s" % (self.emit(b), v)
        for v, b in reversed(parts[:-1]):
            inner = "(if %s then ret true else (%s))" % (v, term) if is_or else "(if %s then (%s) else ret false)" % (v, term)
            term = "%s%s" % (self.emit(b), inner)
        x = self.temp()
        binds.append((x, "(%s)" % term))
        return x, "bool"

    def subscript(self, e, env, binds):
        if not isinstance(e.ctx, ast.Load):
            refuse(e, "subscript in store context")
        if is_self(e.value):
            if isinstance(e.slice, ast.Slice):
                refuse(e, "slice of self")
            key, params, ret = self.method(e, "__getitem__")
            i, ti = self.expr(e.slice, env, binds)
            if ti != "Z":
                refuse(e, "self[%s]" % (ti,))
            x = self.temp()
            binds.append((x, "gen_%s %s" % (key, i)))
            return x, ret
        v, t = self.expr(e.value, env, binds)
        if not is_list(t) or t == "list ?":
            refuse(e, "subscript of %s" % (t,))
        if isinstance(e.slice, ast.Slice):
            a, b = self.slice_bounds(e.slice, env, binds)
            return "(py_slice %s %s %s 1)" % (v, a, b), t
        i, ti = self.expr(e.slice, env, binds)
        if ti != "Z":
            refuse(e, "index of type %s" % (ti,))
        x = self.temp()
        binds.append((x, "indexM %s %s" % (v, i)))
        return x, elem(t)

    def slice_bounds(self, s, env, binds):
        if s.step is not None and not (isinstance(s.step, ast.Constant) and s.step.value == 1
                                       and not isinstance(s.step.value, bool)):
            refuse(s, "slice step")
        out = []
        for b in (s.lower, s.upper):
            if b is None:
                out.append("None")
            else:
                v, t = self.expr(b, env, binds)
                if t != "Z":
                    refuse(s, "slice bound of type %s" % (t,))
                out.append("(Some %s)" % v)
        return out

    def iterable(self, e, env, binds, pair_ok=False):
        """an expression in iteration position -> (list text, element type, names of the lists it walks)"""
        if is_self(e):
            key, params, ret = self.method(e, "__iter__")
            x = self.temp()
            binds.append((x, "gen_%s" % key))
            return x, elem(ret), {"self"}
        if self_attr(e) in ("items", "keys"):
            v, t = self.expr(e, env, binds)
            return v, elem(t), {"self"}
        if isinstance(e, ast.Call) and isinstance(e.func, ast.Name) and not e.keywords:
            f = e.func.id
            if f in env:
                refuse(e, "%s is a local here" % f)
            if f == "reversed" and len(e.args) == 1 and not is_self(e.args[0]):
                v, t, w = self.iterable(e.args[0], env, binds)
                return "(rev %s)" % v, t, w
            if f in ("list", "iter") and len(e.args) == 1:
                return self.iterable(e.args[0], env, binds)
            if f == "enumerate" and pair_ok and len(e.args) in (1, 2):
                v, t, w = self.iterable(e.args[0], env, binds)
                start = "0"
                if len(e.args) == 2:
                    start, ts = self.expr(e.args[1], env, binds)
                    if ts != "Z":
                        refuse(e, "enumerate start of type %s" % (ts,))
                return "(enumerate_from %s %s)" % (start, v), ("Z", t), w
            if f == "range" and 1 <= len(e.args) <= 3:
                vs = []
                for a in e.args:
                    v, t = self.expr(a, env, binds)
                    if t != "Z":
                        refuse(e, "range of %s" % (t,))
                    vs.append(v)
                if len(vs) == 3:
                    st = e.args[2]
                    ok = isinstance(st, ast.Constant) or (isinstance(st, ast.UnaryOp) and isinstance(st.operand, ast.Constant))
                    if not ok or vs[2] in ("0", "(0)"):
                        refuse(e, "range step must be a non-zero literal")
                if len(vs) == 1:
                    vs = ["0", vs[0], "1"]
                elif len(vs) == 2:
                    vs = vs + ["1"]
                return "(py_range3 %s %s %s)" % tuple(vs), "Z", set()
            refuse(e, "iteration over %s(...)" % f)
        v, t = self.expr(e, env, binds)
        if not is_list(t) or t == "list ?":
            refuse(e, "iteration over %s" % (t,))
        return v, elem(t), names_read(e)

    def call(self, e, env, binds):
        if e.keywords or any(isinstance(a, ast.Starred) for a in e.args):
            refuse(e, "keyword / starred arguments")
        f = e.func
        if isinstance(f, ast.Name):
            if f.id in env:
                refuse(e, "call of the local %s" % f.id)
            n = len(e.args)
            if f.id == "len" and n == 1:
                if is_self(e.args[0]):
                    key, params, ret = self.method(e, "__len__")
                    x = self.temp()
                    binds.append((x, "gen_%s" % key))
                    return x, ret
                v, t = self.expr(e.args[0], env, binds)
                if not is_list(t):
                    refuse(e, "len of %s" % (t,))
                return "(zlen %s)" % (v if t != "list ?" else "(@nil unit)"), "Z"
            if f.id == "deepcopy" and n == 1:
                v, t = self.expr(e.args[0], env, binds)
                if t != "ref":
                    refuse(e, "deepcopy of %s" % (t,))
                x = self.temp()
                binds.append((x, "deepcopyM %s" % v))
                return x, "ref"
            if f.id == "bisect_right" and n == 2:
                a, ta = self.expr(e.args[0], env, binds)
                b, tb = self.expr(e.args[1], env, binds)
                if ta != "list fref" or tb != "fref":
                    refuse(e, "bisect_right(%s, %s)" % (ta, tb))
                x = self.temp()
                binds.append((x, "bisect_rightM %s %s" % (a, b)))
                return x, "Z"
            if f.id in ("min", "max") and n == 2:
                a, ta = self.expr(e.args[0], env, binds)
                b, tb = self.expr(e.args[1], env, binds)
                if ta != "Z" or tb != "Z":
                    refuse(e, "%s(%s, %s)" % (f.id, ta, tb))
                return "(Z.%s %s %s)" % (f.id, a, b), "Z"
            if f.id in ("reversed", "list", "iter") and n == 1:
                if f.id == "iter" and self.key != "iter":
                    refuse(e, "iter() outside __iter__")
                v, t, _ = self.iterable(e, env, binds)
                if t not in COQT:
                    refuse(e, "%s of %s" % (f.id, t))
                return v, "list %s" % t
            if f.id == "list" and n == 0:
                return "nil", "list ?"
            if f.id in ("any", "all") and n == 1 and isinstance(e.args[0], ast.GeneratorExp):
                g = e.args[0]
                if len(g.generators) != 1 or g.generators[0].ifs or g.generators[0].is_async \
                        or not isinstance(g.generators[0].target, ast.Name):
                    refuse(e, "generator expression outside the grammar")
                l, t, _ = self.iterable(g.generators[0].iter, env, binds)
                if t not in COQT:
                    refuse(e, "generator over %s" % (t,))
                x = g.generators[0].target.id
                env2 = dict(env)
                env2[x] = t
                b = []
                v = self.truth(g.elt, env2, b)
                y = self.temp()
                binds.append((y, "%sM (fun %s => %sret %s) %s" % (f.id, cn(x), self.emit(b), v, l)))
                return y, "bool"
            refuse(e, "call of %s with %d arguments" % (f.id, n))
        if isinstance(f, ast.Attribute):
            if is_self(f.value) and f.attr == "similar" and len(e.args) == 2:
                a, ta = self.expr(e.args[0], env, binds)
                b, tb = self.expr(e.args[1], env, binds)
                if ta != "ref" or tb != "ref":
                    refuse(e, "self.similar(%s, %s)" % (ta, tb))
                x = self.temp()
                binds.append((x, "similarM %s %s" % (a, b)))
                return x, "bool"
            if f.attr == "dominates" and len(e.args) == 1 and not is_self(f.value):
                a, ta = self.expr(f.value, env, binds)
                b, tb = self.expr(e.args[0], env, binds)
                if ta != "fref" or tb != "fref":
                    refuse(e, "dominates on %s, %s" % (ta, tb))
                x, y = self.temp(), self.temp()
                binds.append((x, "valM %s" % a))
                binds.append((y, "valM %s" % b))
                return "(fit_dom %s %s)" % (x, y), "bool"
            refuse(e, "call of .%s(...) as an expression" % f.attr)
        refuse(e, "call outside the grammar")

    # ---- text ---------------------------------------------------------------------------------------------
    @staticmethod
    def emit(binds):
        return "".join("%s <- %s ;; " % (p, t) for p, t in binds)

    @staticmethod
    def pat(names):
        if not names:
            return "_"
        if len(names) == 1:
            return cn(names[0])
        return "'(%s)" % ", ".join(cn(x) for x in names)

    @staticmethod
    def tup(names):
        if not names:
            return "tt"
        if len(names) == 1:
            return cn(names[0])
        return "(%s)" % ", ".join(cn(x) for x in names)

    # ---- statements ---------------------------------------------------------------------------------------
    def block(self, stmts, env, sc, ind):
        pad = "  " * ind
        if not stmts:
            return sc.fall(env, ind)
        s, rest = stmts[0], stmts[1:]
        nxt = lambda env2, ind2=ind: self.block(rest, env2, sc, ind2)   # noqa
        if isinstance(s, ast.Expr) and isinstance(s.value, ast.Constant) and isinstance(s.value.value, str):
            return nxt(env)
        if isinstance(s, ast.Pass):
            return nxt(env)
        if isinstance(s, (ast.Continue, ast.Break, ast.Return)):
            if rest:
                refuse(rest[0], "statement after continue / break / return")
            if isinstance(s, ast.Continue):
                k = sc.cont
            elif isinstance(s, ast.Break):
                k = sc.brk
            else:
                if s.value is not None and not (isinstance(s.value, ast.Constant) and s.value.value is None):
                    if sc.retv is None:
                        refuse(s, "return of a value")
                    binds = []
                    v, t = self.expr(s.value, env, binds)
                    return pad + self.emit(binds) + sc.retv(s, v, t) + "\n"
                k = sc.retn
            if k is None:
                refuse(s, "%s not allowed here" % type(s).__name__)
            return k(env, ind)
        if isinstance(s, ast.Assign):
            return self.assign(s, env, nxt, pad)
        if isinstance(s, ast.AugAssign):
            if not isinstance(s.target, ast.Name) or type(s.op) not in (ast.Add, ast.Sub):
                refuse(s, "augmented assignment outside the grammar")
            x = s.target.id
            if env.get(x) != "Z":
                refuse(s, "augmented assignment to %s" % (env.get(x),))
            binds = []
            v, t = self.expr(s.value, env, binds)
            if t != "Z":
                refuse(s, "augmented assignment of %s" % (t,))
            return pad + self.emit(binds) + "let %s := (%s %s %s) in\n" % (
                cn(x), cn(x), "+" if isinstance(s.op, ast.Add) else "-", v) + nxt(env)
        if isinstance(s, ast.Expr) and isinstance(s.value, ast.Call):
            return self.call_stmt(s.value, env, nxt, pad)
        if isinstance(s, ast.Delete):
            return self.delete(s, env, nxt, pad)
        if isinstance(s, ast.If):
            binds = []
            c = self.truth(s.test, env, binds)
            # the continuation is compiled once per branch: each path keeps its own bindings
            a = self.block(list(s.body), dict(env), self.after(sc, nxt), ind + 1)
            b = self.block(list(s.orelse), dict(env), self.after(sc, nxt), ind + 1)
            return pad + self.emit(binds) + "if %s then\n%s%selse\n%s" % (c, a, pad, b)
        if isinstance(s, ast.For):
            return self.loop(s, env, sc, nxt, ind)
        refuse(s, "statement outside the grammar")

    @staticmethod
    def after(sc, nxt):
        """scope of a nested block that is followed by the rest of the enclosing block"""
        return Scope(nxt, sc.cont, sc.brk, sc.retn, sc.retv)

    def bind_local(self, node, name, t, env):
        if name == "self" or name in EXPECTED or name in BUILTINS or not re.fullmatch(r"[A-Za-z_][A-Za-z0-9_]*", name):
            refuse(node, "assignment to %s" % name)
        env[name] = t

    def assign(self, s, env, nxt, pad):
        if len(s.targets) != 1:
            refuse(s, "chained assignment")
        tg = s.targets[0]
        env = dict(env)
        if isinstance(tg, ast.Name):
            val = s.value
            binds = []
            v, t = self.expr(val, env, binds)
            new_list = isinstance(val, ast.List) or (isinstance(val, ast.Call) and isinstance(val.func, ast.Name)
                                                      and val.func.id == "list") \
                or (isinstance(val, ast.Subscript) and isinstance(val.slice, ast.Slice)) \
                or (isinstance(val, ast.BinOp) and isinstance(val.op, ast.Add))
            if is_list(t) and not new_list:
                # x = self.items / x = other / x = reversed(l): a second name (or a live iterator) for an existing list;
                # the regenerated code treats lists as values, so later in-place changes would be lost
                refuse(s, "a second name for an existing list")
            if t == "list ?":
                t = self.hints.get(tg.id, "list ?")
                v = "(@nil %s)" % coqtype(elem(t)) if t != "list ?" else "(@nil unit)"
            if t == "unit":
                refuse(s, "assignment of None")
            self.bind_local(s, tg.id, t, env)
            if is_list(t) and new_list:
                self.fresh.add(tg.id)
            else:
                self.fresh.discard(tg.id)
            return pad + self.emit(binds) + "let %s := %s in\n" % (cn(tg.id), v) + nxt(env)
        if isinstance(tg, ast.Tuple) and isinstance(s.value, ast.Tuple) and len(tg.elts) == len(s.value.elts) \
                and all(isinstance(x, ast.Name) for x in tg.elts) and len({x.id for x in tg.elts}) == len(tg.elts):
            binds = []
            vs = []
            for x in s.value.elts:
                v, t = self.expr(x, env, binds)
                if t not in COQT or t == "unit":
                    refuse(s, "parallel assignment of %s" % (t,))
                vs.append((v, t))
            for x, (v, t) in zip(tg.elts, vs):
                self.bind_local(s, x.id, t, env)
                self.fresh.discard(x.id)
            return pad + self.emit(binds) + "let '(%s) := (%s) in\n" % (
                ", ".join(cn(x.id) for x in tg.elts), ", ".join(v for v, _ in vs)) + nxt(env)
        refuse(s, "assignment target outside the grammar")

    def call_stmt(self, c, env, nxt, pad):
        if c.keywords or any(isinstance(a, ast.Starred) for a in c.args):
            refuse(c, "keyword / starred arguments")
        f = c.func
        if not isinstance(f, ast.Attribute):
            refuse(c, "call statement outside the grammar")
        binds = []
        # self.insert(e) / self.remove(e) / self.clear()
        if is_self(f.value):
            if f.attr not in ("insert", "remove", "clear"):
                refuse(c, "call of self.%s as a statement" % f.attr)
            key, params, ret = self.method(c, f.attr)
            if len(c.args) != len(params):
                refuse(c, "self.%s with %d arguments" % (f.attr, len(c.args)))
            vs = []
            for a, (_, pt) in zip(c.args, params):
                v, t = self.expr(a, env, binds)
                if t != pt:
                    refuse(c, "self.%s(%s)" % (f.attr, t))
                vs.append(v)
            return pad + self.emit(binds) + "gen_%s%s ;;;\n" % (key, "".join(" " + v for v in vs)) + nxt(env)
        # self.items.insert(i, e) / self.keys.insert(i, e) / .append(e)
        fld = self_attr(f.value)
        if fld in ("items", "keys"):
            et = "ref" if fld == "items" else "fref"
            if f.attr == "insert" and len(c.args) == 2:
                i, ti = self.expr(c.args[0], env, binds)
                v, tv = self.expr(c.args[1], env, binds)
                if ti != "Z" or tv != et:
                    refuse(c, "self.%s.insert(%s, %s)" % (fld, ti, tv))
                x = self.temp()
                return pad + self.emit(binds) + "%s <- get_%s ;; set_%s (py_insert %s %s %s) ;;;\n" % (
                    x, fld, fld, x, i, v) + nxt(env)
            if f.attr == "append" and len(c.args) == 1:
                v, tv = self.expr(c.args[0], env, binds)
                if tv != et:
                    refuse(c, "self.%s.append(%s)" % (fld, tv))
                x = self.temp()
                return pad + self.emit(binds) + "%s <- get_%s ;; set_%s (%s ++ [%s]) ;;;\n" % (x, fld, fld, x, v) + nxt(env)
            if f.attr == "clear" and not c.args:
                return pad + "set_%s nil ;;;\n" % fld + nxt(env)
            refuse(c, "self.%s.%s(...)" % (fld, f.attr))
        # x.append(e) on a list created here
        if isinstance(f.value, ast.Name) and f.attr == "append" and len(c.args) == 1:
            x = f.value.id
            t = env.get(x)
            if not is_list(t or "") or x not in self.fresh:
                refuse(c, "append to %s, which is not a list created by this method" % x)
            v, tv = self.expr(c.args[0], env, binds)
            if tv not in COQT or tv == "unit":
                refuse(c, "append of %s" % (tv,))
            if t == "list ?":
                raise Retype(x, "list %s" % tv)
            if elem(t) != tv:
                refuse(c, "append of %s to %s" % (tv, t))
            return pad + self.emit(binds) + "let %s := (%s ++ [%s]) in\n" % (cn(x), cn(x), v) + nxt(env)
        refuse(c, "call statement outside the grammar")

    def delete(self, s, env, nxt, pad):
        if len(s.targets) != 1 or not isinstance(s.targets[0], ast.Subscript):
            refuse(s, "del outside the grammar")
        tg = s.targets[0]
        binds = []
        fld = self_attr(tg.value)
        if fld in ("items", "keys"):
            if isinstance(tg.slice, ast.Slice):
                a, b = self.slice_bounds(tg.slice, env, binds)
                x = self.temp()
                return pad + self.emit(binds) + "%s <- get_%s ;; set_%s (py_del_slice %s %s %s) ;;;\n" % (
                    x, fld, fld, x, a, b) + nxt(env)
            i, ti = self.expr(tg.slice, env, binds)
            if ti != "Z":
                refuse(s, "del self.%s[%s]" % (fld, ti))
            x, y = self.temp(), self.temp()
            return pad + self.emit(binds) + "%s <- get_%s ;; %s <- delM %s %s ;; set_%s %s ;;;\n" % (
                x, fld, y, x, i, fld, y) + nxt(env)
        if isinstance(tg.value, ast.Name) and tg.value.id in self.fresh and is_list(env.get(tg.value.id, "")) \
                and env[tg.value.id] != "list ?" and not isinstance(tg.slice, ast.Slice):
            x = tg.value.id
            i, ti = self.expr(tg.slice, env, binds)
            if ti != "Z":
                refuse(s, "del %s[%s]" % (x, ti))
            return pad + self.emit(binds) + "%s <- delM %s %s ;;\n" % (cn(x), cn(x), i) + nxt(env)
        refuse(s, "del outside the grammar")

    def loop(self, s, env, sc, nxt, ind):
        pad = "  " * ind
        binds = []
        pair = isinstance(s.target, ast.Tuple)
        l, t, walked = self.iterable(s.iter, env, binds, pair_ok=pair)
        if pair:
            if not isinstance(t, tuple) or len(s.target.elts) != 2 or not all(isinstance(x, ast.Name) for x in s.target.elts) \
                    or s.target.elts[0].id == s.target.elts[1].id:
                refuse(s, "loop target outside the grammar")
            targets = [(s.target.elts[0].id, t[0]), (s.target.elts[1].id, t[1])]
        elif isinstance(s.target, ast.Name):
            if isinstance(t, tuple):
                refuse(s, "loop over pairs with a single target")
            targets = [(s.target.id, t)]
        else:
            refuse(s, "loop target outside the grammar")
        changed = assigned_names(list(s.body))
        # the regenerated loop walks a snapshot of the list: the body must leave that list alone
        if "self" in walked and mutates_self(list(s.body)):
            refuse(s, "loop over the archive whose body may change the archive")
        for w in walked - {"self"}:
            if w in changed:
                refuse(s, "loop over %s whose body may change %s" % (w, w))
        tnames = [x for x, _ in targets]
        carried = [x for x in changed if x in env and x not in tnames]
        cty = {x: env[x] for x in carried}
        def state(kind):
            def k(env2, ind2):
                for x in carried:
                    if env2.get(x) != cty[x]:
                        refuse(s, "the loop changes the type of %s (or leaves it unbound on a path)" % x)
                return "  " * ind2 + "ret (%s %s)\n" % (kind, self.tup(carried))
            return k
        benv = dict(env)
        for x, tx in targets:
            self.bind_local(s, x, tx, benv)
            self.fresh.discard(x)
        for x in carried:
            benv[x] = cty[x]
        bsc = Scope(state("Next"), state("Next"), state("Break"),
                    (lambda env2, ind2: "  " * ind2 + "ret Return\n") if sc.retn is not None else None, None)
        body = self.block(list(s.body), benv, bsc, ind + 2)
        # after the loop: the targets and the names first bound inside the body are not available any more
        aenv = {x: tx for x, tx in env.items() if x not in tnames}
        for x in carried:
            aenv[x] = cty[x]
        c = self.temp()
        tpat = self.pat(tnames) if len(tnames) == 1 else "'(%s, %s)" % (cn(tnames[0]), cn(tnames[1]))
        spat = self.pat(carried)
        cpat = self.tup(carried) if carried else "_"
        out = pad + self.emit(binds) + "%s <- for_ctl %s (fun %s %s =>\n%s%s  ) %s ;;\n" % (
            c, l, tpat, spat, body, pad, self.tup([x for x in carried]))
        out += pad + "match %s with\n" % c
        if s.orelse:
            out += pad + "| Next %s =>\n" % cpat + self.block(list(s.orelse), dict(aenv), self.after(sc, nxt), ind + 2)
            out += pad + "| Break %s =>\n" % cpat + nxt(dict(aenv), ind + 2)
        else:
            out += pad + "| Next %s | Break %s =>\n" % (cpat, cpat) + nxt(dict(aenv), ind + 2)
        out += pad + "| Return =>\n%s" % (sc.retn(aenv, ind + 2) if sc.retn is not None else pad + "    raise\n")
        out += pad + "end\n"
        return out


# ---- module / class level -------------------------------------------------------------------------------------
def check_module(tree):
    """names of fixed meaning are bound at module level exactly by the expected imports and nowhere else in the module;
    returns the two class definitions"""
    classes = {}
    for n in ast.walk(tree):
        if isinstance(n, (ast.Import, ast.ImportFrom)):
            for a in n.names:
                nm = (a.asname or a.name).split(".")[0]
                if nm in EXPECTED:
                    mod, orig = EXPECTED[nm]
                    if not (isinstance(n, ast.ImportFrom) and n.module == mod and a.name == orig and n.level == 0
                            and n in tree.body):
                        refuse(n, "%s is not bound by `from %s import %s` at module level" % (nm, mod, orig))
                elif nm in BUILTINS or nm in ("HallOfFame", "ParetoFront") or a.name == "*":
                    refuse(n, "import binds %s" % nm)
        elif isinstance(n, ast.Name) and isinstance(n.ctx, (ast.Store, ast.Del)):
            if n.id in EXPECTED or n.id in BUILTINS or n.id in ("HallOfFame", "ParetoFront"):
                refuse(n, "%s is rebound" % n.id)
        elif isinstance(n, (ast.FunctionDef, ast.AsyncFunctionDef, ast.ClassDef)):
            if n.name in EXPECTED or n.name in BUILTINS:
                refuse(n, "%s is rebound by a definition" % n.name)
            if n.name in ("HallOfFame", "ParetoFront"):
                if not (isinstance(n, ast.ClassDef) and n in tree.body) or n.name in classes:
                    refuse(n, "%s is not defined exactly once, as a module-level class" % n.name)
                classes[n.name] = n
        elif isinstance(n, ast.arg):
            if n.arg in EXPECTED or n.arg in BUILTINS:
                refuse(n, "parameter %s shadows a name of fixed meaning" % n.arg)
        elif isinstance(n, (ast.Global, ast.Nonlocal)):
            for x in n.names:
                if x in EXPECTED or x in BUILTINS or x in ("HallOfFame", "ParetoFront"):
                    refuse(n, "global %s" % x)
        elif isinstance(n, ast.Attribute) and isinstance(n.ctx, (ast.Store, ast.Del)):
            if isinstance(n.value, ast.Name) and n.value.id in ("HallOfFame", "ParetoFront"):
                refuse(n, "assignment to an attribute of the class %s" % n.value.id)
        elif isinstance(n, ast.Call) and isinstance(n.func, ast.Name) and n.func.id in ("setattr", "delattr", "exec", "eval"):
            refuse(n, "%s(...) in the module" % n.func.id)
    for e in EXPECTED:
        found = [a for n in tree.body if isinstance(n, ast.ImportFrom) for a in n.names if (a.asname or a.name) == e]
        if len(found) != 1:
            refuse("Module", "%s is imported %d times" % (e, len(found)))
    for c in ("HallOfFame", "ParetoFront"):
        if c not in classes:
            refuse("Module", "class %s not found" % c)
    return classes


def class_methods(cls, bases):
    if cls.decorator_list or cls.keywords or [ast.dump(b) for b in cls.bases] != [ast.dump(ast.Name(id=b, ctx=ast.Load()))
                                                                                 for b in bases]:
        refuse(cls, "class header of %s" % cls.name)
    ms = {}
    for n in cls.body:
        if isinstance(n, ast.Expr) and isinstance(n.value, ast.Constant) and isinstance(n.value.value, str):
            continue
        if isinstance(n, ast.Pass):
            continue
        if not isinstance(n, ast.FunctionDef):
            refuse(n, "class body of %s holds something else than plain methods" % cls.name)
        if n.name in ms:
            refuse(n, "method %s defined twice" % n.name)
        if n.name in FIELDS:
            refuse(n, "method named like the attribute %s" % n.name)
        if n.name.startswith("__") and n.name.endswith("__") and n.name not in KNOWN_DUNDER:
            refuse(n, "special method %s" % n.name)
        ms[n.name] = n
    return ms


def plain_header(fn, params, defaults=0):
    a = fn.args
    if fn.decorator_list or a.posonlyargs or a.kwonlyargs or a.kw_defaults or a.vararg or a.kwarg or fn.returns \
            or isinstance(fn, ast.AsyncFunctionDef):
        refuse(fn, "method header of %s" % fn.name)
    if [x.arg for x in a.args] != ["self"] + params or any(x.annotation for x in a.args):
        refuse(fn, "parameters %r of %s, expected %r" % ([x.arg for x in a.args], fn.name, ["self"] + params))
    if len(a.defaults) != defaults:
        refuse(fn, "default values of %s" % fn.name)


def check_inits(hof, pf):
    """__init__ of HallOfFame: self.maxsize = maxsize; self.keys = list(); self.items = list(); self.similar = similar
    (any order, [] for list()); __init__ of ParetoFront: HallOfFame.__init__(self, None, similar)"""
    fn = hof.get("__init__")
    if fn is None:
        refuse("ClassDef", "HallOfFame.__init__ missing")
    plain_header(fn, ["maxsize", "similar"], 1)
    if ast.dump(fn.args.defaults[0]) != ast.dump(ast.Name(id="eq", ctx=ast.Load())):
        refuse(fn, "default of similar")
    seen = {}
    for s in fn.body:
        if isinstance(s, ast.Expr) and isinstance(s.value, ast.Constant) and isinstance(s.value.value, str):
            continue
        if not (isinstance(s, ast.Assign) and len(s.targets) == 1 and self_attr(s.targets[0]) in FIELDS):
            refuse(s, "statement of HallOfFame.__init__")
        f = self_attr(s.targets[0])
        v = s.value
        if f in ("maxsize", "similar"):
            ok = isinstance(v, ast.Name) and v.id == f
        else:
            ok = (isinstance(v, ast.List) and not v.elts) or (
                isinstance(v, ast.Call) and isinstance(v.func, ast.Name) and v.func.id == "list" and not v.args and not v.keywords)
        if not ok or f in seen:
            refuse(s, "initialisation of self.%s" % f)
        seen[f] = True
    if len(seen) != 4:
        refuse(fn, "HallOfFame.__init__ does not initialise the four attributes")
    fn = pf.get("__init__")
    if fn is not None:
        plain_header(fn, ["similar"], 1)
        body = [s for s in fn.body if not (isinstance(s, ast.Expr) and isinstance(s.value, ast.Constant))]
        want = "HallOfFame.__init__(self, None, similar)"
        if len(body) != 1 or ast.dump(body[0]) != ast.dump(ast.parse(want).body[0]):
            refuse(fn, "ParetoFront.__init__ is not `%s`" % want)
    else:
        refuse("ClassDef", "ParetoFront.__init__ missing (maxsize would be a required argument)")


def forbidden_nodes(fn):
    for n in ast.walk(fn):
        if isinstance(n, (ast.Global, ast.Nonlocal, ast.Lambda, ast.Try, ast.With, ast.Yield, ast.YieldFrom, ast.Await,
                          ast.ClassDef, ast.Import, ast.ImportFrom, ast.NamedExpr, ast.Starred, ast.While, ast.Raise,
                          ast.Assert, ast.AsyncFor, ast.AsyncWith, ast.ListComp, ast.SetComp, ast.DictComp, ast.JoinedStr)) \
                or (isinstance(n, (ast.FunctionDef, ast.AsyncFunctionDef)) and n is not fn):
            refuse(n, "%s inside a translated method" % type(n).__name__)
        if hasattr(ast, "Match") and isinstance(n, ast.Match):
            refuse(n, "match statement")


def sig_text(params, maxsize):
    return "".join([" (maxsize : Z)"] if maxsize else []) + "".join(" (%s : %s)" % (cn(p), coqtype(t)) for p, t in params)


def translate_function(fn, key, params, maxsize, rettype, available):
    plain_header(fn, [p for p, _ in params])
    forbidden_nodes(fn)
    hints = {}
    for _ in range(8):
        tr = FnTr(key, maxsize, rettype, hints, available)
        env = {p: t for p, t in params}
        if rettype == "unit":
            sc = Scope(lambda env2, ind2: "  " * ind2 + "ret tt\n", None, None, lambda env2, ind2: "  " * ind2 + "ret tt\n", None)
        else:
            def retv(node, v, t):
                if t != rettype:
                    refuse(node, "return of %s, expected %s" % (t, rettype))
                return "ret %s" % v
            sc = Scope(lambda env2, ind2: refuse(fn, "falls off the end without returning a value"), None, None, None, retv)
        try:
            body = tr.block(list(fn.body), env, sc, 1)
        except Retype as r:
            if hints.get(r.name) not in (None, r.ty):
                refuse(fn, "cannot settle the element type of %s" % r.name)
            hints[r.name] = r.ty
            continue
        break
    else:
        refuse(fn, "type inference does not settle")
    return "Definition gen_%s%s : M %s :=\n%s." % (key, sig_text(params, maxsize), coqtype(rettype), body.rstrip("\n"))


HEADER = """(* GENERATED by harness/c08_py2coq.py from %s -- do not edit, never committed *)
From Coq Require Import List ZArith Bool.
From DV Require Import Base.PyTuple Base.PyList Model.C08_Archive Model.C08_GenRt.
Import ListNotations.
Local Open Scope Z_scope.
Local Open Scope c08_scope.

Section Gen.
Context {W : World}.
Local Notation M := (@M W).

"""

TRAILER = """End Gen.
"""


REF_FILE = os.path.join(os.path.dirname(os.path.abspath(__file__)), "c08_gen_ref.v.in")


def reference_texts():
    """the committed reference transcription of every method (the translator's output for the source at the time the
    tie was built), keyed by the method key: what a refused method is defined as"""
    out = {}
    for part in re.split(r"(?m)^\(\* == ", open(REF_FILE).read())[1:]:
        key, body = part.split(" == *)\n", 1)
        out[key.strip()] = body.strip()
    return out


def placeholder(key, why):
    why = str(why).replace("*)", "* )").replace("(*", "( *").replace('"', "'")
    return "(* REFUSED %s: %s -- placeholder: the committed reference transcription (harness/c08_gen_ref.v.in), this method " \
           "is tied by the correspondence only *)\n%s" % (key, why, reference_texts()[key])


def translate_source(text, origin="deap/tools/support.py"):
    """source text -> (Gallina text, {key: None | Refuse}).  A refused method gets the reference transcription as a
    placeholder definition (reported by the caller)."""
    status = {}
    glob = None
    try:
        tree = ast.parse(text)
        classes = check_module(tree)
        hof = class_methods(classes["HallOfFame"], ["object"])
        pf = class_methods(classes["ParetoFront"], ["HallOfFame"])
        check_inits(hof, pf)
        for m in pf:
            if m not in ("__init__", "update") and (m in hof or m.startswith("__")):
                refuse(pf[m], "ParetoFront overrides %s" % m)
    except Refuse as r:
        glob = r
    except (SyntaxError, ValueError, RecursionError, MemoryError) as e:
        glob = Refuse("Module", "source does not parse: %s" % e)
    out = HEADER % origin
    available = {}
    for key, cls, meth, params, maxsize, rettype in FUNCS:
        try:
            if glob is not None:
                raise glob
            fn = (hof if cls == "HallOfFame" else pf).get(meth)
            if fn is None:
                refuse("ClassDef", "%s.%s is not defined" % (cls, meth))
            txt = translate_function(fn, key, params, maxsize, rettype, available)
            status[key] = None
        except Refuse as r:
            status[key] = r
            txt = placeholder(key, r)
        except Exception as e:  # noqa  (a translator crash on an unforeseen construct is a refusal: fail closed)
            status[key] = Refuse("FunctionDef", "translator error %s: %s" % (type(e).__name__, e))
            txt = placeholder(key, status[key])
        if meth in BY_METHOD:
            available[meth] = (key, params, rettype)
        out += txt + "\n\n"
    return out + TRAILER, status


def translate_repo(repo):
    path = os.path.join(repo, *FILE)
    try:
        text = open(path).read()
    except (OSError, UnicodeDecodeError) as e:
        text = "\x00 unreadable: %s" % e        # -> does not parse -> refusal
    return translate_source(text, path)


if __name__ == "__main__":
    import sys
    txt, st = translate_repo(sys.argv[1] if len(sys.argv) > 1 else "/repo")
    print(txt)
    for k, v in st.items():
        sys.stderr.write("%s: %s\n" % (k, "translated" if v is None else "REFUSED %s" % v))
