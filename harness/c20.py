"""C20 -- benchmark functions equal their published definitions and optima (deap/benchmarks/*)."""
import os

import vlib

GEN_FILE = "C20_bench_gen.v"


class RegenResult(object):
    """unpacks as (ok, message, meta); prints as the message (harness/setup.py formats it with %s)"""

    def __init__(self, ok, msg, meta):
        self.t = (ok, msg, meta)

    def __iter__(self):
        return iter(self.t)

    def __str__(self):
        return "%s: %s" % ("ok" if self.t[0] else "FAILED", self.t[1])


def regen(repo=None):
    """Tie (T): regenerate coq/Gen/C20_bench_gen.v from the working tree.  Returns (ok, message, meta)."""
    return RegenResult(*_regen(repo))


def _regen(repo=None):
    import c20_py2coq
    repo = repo or vlib.REPO
    try:
        txt, meta = c20_py2coq.translate_all(repo)
    except (c20_py2coq.Refuse, SyntaxError, OSError) as e:
        return False, "translator failed: %s" % e, None
    gen = os.path.join(vlib.COQ, "Gen")
    with vlib.BuildLock():
        os.makedirs(gen, exist_ok=True)
        p = os.path.join(gen, GEN_FILE)
        old = open(p).read() if os.path.exists(p) else None
        if old != txt:
            open(p, "w").write(txt)
    return True, "regenerated (%d definitions, %d refused)" % (len(meta["order"]), len(meta["refused"])), meta


# ----------------------------------------------------------------------------------------------
# case generation
# ----------------------------------------------------------------------------------------------
import math
import random as _random
from fractions import Fraction

from vlib import cz, czl, cbool, clist, cfloat, cstr, copt

import c20_oracle as O


def cfl(l):
    return clist([cfloat(v) for v in l])


def cmat(m):
    return clist([cfl(r) for r in m])


def U(lo, hi):
    return lambda rng, n: [rng.uniform(lo, hi) for _ in range(n)]


def zdt4_dom(rng, n):
    return [rng.uniform(0, 1)] + [rng.uniform(-5, 5) for _ in range(n - 1)]


SHEKEL_A = [[0.5, 0.5], [0.25, 0.25], [0.25, 0.75], [0.75, 0.25], [0.75, 0.75]]
SHEKEL_C = [0.002, 0.005, 0.005, 0.005, 0.005]

# name -> (min dim, max dim, sampler, [(optimum location builder, value, tolerance)])
SINGLE = {
    "plane": (1, 30, U(-5, 5), [(lambda n: [0.0] * n, 0.0, 0.0)]),
    "sphere": (1, 30, U(-5, 5), [(lambda n: [0.0] * n, 0.0, 0.0)]),
    "cigar": (1, 30, U(-5, 5), [(lambda n: [0.0] * n, 0.0, 0.0)]),
    "rosenbrock": (1, 30, U(-3, 3), [(lambda n: [1.0] * n, 0.0, 0.0)]),
    "h1": (2, 2, U(-100, 100), [(lambda n: [8.6998, 6.7665], 2.0, 1e-3)]),
    "ackley": (1, 30, U(-15, 30), [(lambda n: [0.0] * n, 0.0, 1e-12)]),
    "bohachevsky": (1, 30, U(-100, 100), [(lambda n: [0.0] * n, 0.0, 1e-12)]),
    "griewank": (1, 30, U(-600, 600), [(lambda n: [0.0] * n, 0.0, 1e-12)]),
    "rastrigin": (1, 30, U(-5.12, 5.12), [(lambda n: [0.0] * n, 0.0, 1e-12)]),
    "rastrigin_scaled": (2, 30, U(-5.12, 5.12), [(lambda n: [0.0] * n, 0.0, 1e-12)]),
    "rastrigin_skew": (1, 30, U(-5.12, 5.12), [(lambda n: [0.0] * n, 0.0, 1e-12)]),
    "schaffer": (1, 30, U(-100, 100), [(lambda n: [0.0] * n, 0.0, 1e-12)]),
    "schwefel": (1, 30, U(-500, 500), [(lambda n: [420.96874636] * n, 0.0, 1e-4)]),   # tolerance * n
    "himmelblau": (2, 2, U(-6, 6), [(lambda n: [3.0, 2.0], 0.0, 0.0), (lambda n: [-2.805118, 3.131312], 0.0, 1e-9),
                                    (lambda n: [-3.779310, -3.283186], 0.0, 1e-9), (lambda n: [3.584428, -1.848126], 0.0, 1e-9)]),
}
MULTI = {
    "kursawe": (1, 30, U(-5, 5)),
    "schaffer_mo": (1, 3, U(-10, 10)),
    "zdt1": (2, 30, U(0, 1)), "zdt2": (2, 30, U(0, 1)), "zdt3": (2, 30, U(0, 1)),
    "zdt4": (2, 30, zdt4_dom), "zdt6": (2, 30, U(0, 1)),
    "fonseca": (3, 6, U(-4, 4)),
    "poloni": (2, 2, U(-math.pi, math.pi)),
}
GPF = {
    "kotanchek": (2, U(-1, 7)), "salustowicz_1d": (1, U(0, 10)), "salustowicz_2d": (2, U(0, 7)),
    "unwrapped_ball": (None, U(-2, 8)), "rational_polynomial": (3, U(0.05, 2)), "sin_cos": (2, U(0, 6)),
    "ripple": (2, U(-5, 5)), "rational_polynomial2": (2, U(0, 6)),
}
# polynomial / rational functions: on short dyadic inputs every intermediate result is exactly
# representable, so CPython and the float instance must agree bit for bit
DYADIC_EXACT = ["cigar", "rosenbrock", "himmelblau", "schaffer_mo", "zdt2"]


def dyadic(rng, n, lo=-32, hi=32, den=8):
    return [rng.randint(lo, hi) / den for _ in range(n)]


def norm2(v):
    return math.sqrt(math.fsum(t * t for t in v))


def as_list(r):
    return [float(v) for v in r]


class Cases(object):
    def __init__(self, run, meta):
        self.run = run
        self.meta = meta
        self.terms = []
        self.cases = []

    def exact(self, coqname):
        f = self.meta["functions"].get(coqname)
        return bool(f and f.get("exact"))

    def add(self, term, case, nontrivial=True):
        self.terms.append(term)
        self.cases.append(case)
        self.run.note_case(case, nontrivial,
                           sample=case if len(self.run.samples) < 6 and len(self.cases) % 211 == 1 else None)


def call(fn, *a, **k):
    """run implementation code; ('ok', value) or ('raise', name)"""
    try:
        return "ok", fn(*a, **k)
    except Exception as e:  # noqa
        return "raise", "%s: %s" % (type(e).__name__, e)


def cnum(name, ints, nums, mats, x, exact, obs):
    return "CNum %s %s %s %s %s %s %s" % (cstr(name), czl(ints), cfl(nums), clist([cmat(m) for m in mats]), cfl(x),
                                          cbool(exact), cfl(obs))


def check_values(run, what, case, got, want, signature=None, rtol=1e-9):
    """got: implementation output (sequence), want: oracle output"""
    got = list(got)
    if len(got) != len(want):
        run.oracle_violation("%s: %d objective values returned, %d expected" % (what, len(got), len(want)), case,
                             signature=signature, observed=got)
        return False
    for i, (a, b) in enumerate(zip(got, want)):
        if not O.close(float(a), float(b), rtol):
            run.oracle_violation("%s: objective %d is %r, published formula gives %r" % (what, i, a, b), case,
                                 signature=signature, observed=got)
            return False
    return True


def dims_for(run, rng, lo, hi):
    if run.thorough or hi - lo <= 4:
        return list(range(lo, hi + 1))
    base = {lo, lo + 1, 2, 3, 5, 10, 17, 30, hi}
    base |= {rng.randint(lo, hi) for _ in range(3)}
    return sorted(d for d in base if lo <= d <= hi)


def gen_single(run, C, B):
    rng = run.rng
    reps = run.scale(2, 8)
    for name, (lo, hi, samp, optima) in SINGLE.items():
        f = getattr(B, name)
        ofn = getattr(O, name)
        ex = C.exact("bm_" + name)
        for n in dims_for(run, rng, lo, hi):
            pts = [samp(rng, n) for _ in range(reps)]
            pts.append([0.0] * n)
            pts.append([rng.choice([-1.0, 1.0, 0.5]) for _ in range(n)])
            for ip, x in enumerate(pts):
                # the two special points involve no cancellation: constants are compared to 1e-12
                tight = 1e-12 if ip >= reps else 1e-9
                st, r = call(f, list(x))
                case = {"kind": "single", "f": name, "x": x, "observed": repr(r)}
                if st != "ok":
                    run.oracle_violation("%s raises on a valid input: %s" % (name, r), case)
                    continue
                if not isinstance(r, tuple) or len(r) != 1:
                    run.oracle_violation("%s does not return one entry per objective" % name, case, observed=repr(r))
                    continue
                check_values(run, name, case, r, ofn(x), rtol=tight)
                C.add(cnum(name, [], [], [], x, ex, as_list(r)), case)
            # tabulated optimum
            for loc, val, tol in optima:
                x = loc(n)
                st, r = call(f, list(x))
                case = {"kind": "optimum", "f": name, "x": x, "tabulated": val, "observed": repr(r)}
                t = tol * n if name == "schwefel" else tol
                if st != "ok" or abs(float(r[0]) - val) > t + 1e-15:
                    run.oracle_violation("%s at its documented optimum is %r, documentation tabulates %r" % (name, r, val), case)
                    continue
                C.add(cnum(name, [], [], [], x, ex, as_list(r)), case)
                # the tabulated point is not beaten nearby (minimisation; h1 is maximised); plane is linear and
                # unbounded, its tabulated point is only checked for its value
                for _ in range(0 if name == "plane" else 3):
                    y = [v + rng.uniform(-0.05, 0.05) for v in x]
                    st2, r2 = call(f, y)
                    if st2 != "ok":
                        continue
                    better = (r2[0] > r[0] + 1e-3) if name == "h1" else (r2[0] < r[0] - max(t, 1e-9))
                    if better:
                        run.oracle_violation("%s: a point near the documented optimum is better than it" % name,
                                             dict(case, near=y, near_value=r2[0]))
        # bit-exact group on short dyadic inputs
        if name in DYADIC_EXACT:
            for n in dims_for(run, rng, lo, hi)[:6]:
                for _ in range(reps):
                    x = dyadic(rng, n)
                    st, r = call(f, list(x))
                    if st != "ok":
                        continue
                    case = {"kind": "single-dyadic", "f": name, "x": x, "observed": repr(r)}
                    check_values(run, name, case, r, ofn(x))
                    C.add(cnum(name, [], [], [], x, True, as_list(r)), case)
    # shekel with the documented A and c and random ones
    for _ in range(run.scale(20, 200)):
        if rng.random() < 0.5:
            a, c = SHEKEL_A, SHEKEL_C
        else:
            m, d = rng.randint(1, 6), rng.randint(1, 5)
            a = [[rng.uniform(0, 1) for _ in range(d)] for _ in range(m)]
            c = [rng.uniform(0.001, 0.1) for _ in range(m)]
        x = [rng.uniform(0, 1) for _ in range(len(a[0]))]
        if rng.random() < 0.2:
            x = list(a[rng.randrange(len(a))])
        st, r = call(B.shekel, list(x), a, c)
        case = {"kind": "shekel", "x": x, "a": a, "c": c, "observed": repr(r)}
        if st != "ok":
            run.oracle_violation("shekel raises: %s" % r, case)
            continue
        check_values(run, "shekel", case, r, O.shekel(x, a, c))
        C.add(cnum("shekel", [], c, [a], x, False, as_list(r)), case)


def gen_multi(run, C, B):
    rng = run.rng
    reps = run.scale(2, 8)
    for name, (lo, hi, samp) in MULTI.items():
        f, ofn = getattr(B, name), getattr(O, name)
        ex = C.exact("bm_" + name)
        for n in dims_for(run, rng, lo, hi):
            pts = [samp(rng, n) for _ in range(reps)]
            if name.startswith("zdt"):
                pts.append([rng.uniform(0, 1)] + [0.0] * (n - 1))      # a point of the optimal front (g = 1)
                pts.append([0.0] * n)
                pts.append([1.0] * n)
            for x in pts:
                st, r = call(f, list(x))
                case = {"kind": "multi", "f": name, "x": x, "observed": repr(r)}
                if st != "ok":
                    run.oracle_violation("%s raises on a valid input: %s" % (name, r), case)
                    continue
                if len(r) != 2:
                    run.oracle_violation("%s does not return one entry per objective" % name, case)
                    continue
                check_values(run, name, case, r, ofn(x))
                if name.startswith("zdt"):
                    # front identity: f2 = g * h(f1, g), with g and h written out here
                    if name == "zdt4":
                        g = 1 + 10 * (n - 1) + math.fsum(v * v - 10 * math.cos(4 * math.pi * v) for v in x[1:])
                    elif name == "zdt6":
                        g = 1 + 9 * (math.fsum(x[1:]) / (n - 1)) ** 0.25
                    else:
                        g = 1 + 9 * math.fsum(x[1:]) / (n - 1)
                    f1 = r[0]
                    h = {"zdt1": lambda: 1 - math.sqrt(f1 / g), "zdt4": lambda: 1 - math.sqrt(f1 / g),
                         "zdt2": lambda: 1 - (f1 / g) ** 2, "zdt6": lambda: 1 - (f1 / g) ** 2,
                         "zdt3": lambda: 1 - math.sqrt(f1 / g) - f1 / g * math.sin(10 * math.pi * f1)}[name]()
                    if not O.close(r[1], g * h):
                        run.oracle_violation("%s: f2 = %r differs from g*h(f1,g) = %r" % (name, r[1], g * h), case)
                C.add(cnum(name, [], [], [], x, ex, as_list(r)), case)
        if name in DYADIC_EXACT:
            for n in dims_for(run, rng, lo, hi)[:6]:
                for _ in range(reps):
                    x = dyadic(rng, n, 0, 8, 8) if name.startswith("zdt") else dyadic(rng, n)
                    if name.startswith("zdt") and sum(x[1:]) == 0 and x[0] == 0:
                        x[1] = 0.5
                    st, r = call(f, list(x))
                    if st != "ok":
                        continue
                    case = {"kind": "multi-dyadic", "f": name, "x": x, "observed": repr(r)}
                    check_values(run, name, case, r, ofn(x))
                    C.add(cnum(name, [], [], [], x, name != "zdt2", as_list(r)), case)
    # dent
    for _ in range(run.scale(20, 200)):
        x = [rng.uniform(-1.5, 1.5), rng.uniform(-1.5, 1.5)]
        lam = rng.choice([0.85, 0.85, rng.uniform(0, 2)])
        st, r = call(B.dent, list(x), lam) if lam != 0.85 or rng.random() < 0.5 else call(B.dent, list(x))
        case = {"kind": "dent", "x": x, "lambda": lam, "observed": repr(r)}
        if st != "ok":
            run.oracle_violation("dent raises: %s" % r, case)
            continue
        check_values(run, "dent", case, r, O.dent(x, lam))
        C.add(cnum("dent", [], [lam], [], x, False, as_list(r)), case)
    # DTLZ
    for name in ("dtlz1", "dtlz2", "dtlz3", "dtlz4", "dtlz5", "dtlz6", "dtlz7"):
        f, ofn = getattr(B, name), getattr(O, name)
        for m in range(2, 7):
            ns = sorted({m, m + 1, m + 4, rng.randint(m, 30), 30}) if not run.thorough else list(range(m, 31))
            if m == 3:
                ns = sorted(set(ns) | {7})
            for n in ns:
                for rep in range(reps + (1 if (m, n) == (3, 7) else 0)):
                    x = [rng.uniform(0, 1) for _ in range(n)]
                    if rep == 0:
                        x = x[:m - 1] + [0.5] * (n - m + 1)      # on the optimal front of DTLZ1-5
                    if rep == 1:
                        x = [rng.choice([0.0, 1.0, 0.5]) for _ in range(n)]
                    if rep == reps:
                        # corpus: the reconnaissance witness of the repaired dtlz5/dtlz6 defect (norm 0.7676 instead of 1.1)
                        x = [0.1, 0.2, 0.3, 0.4, 0.5, 0.6, 0.7]
                    extra, nums = (), []
                    if name == "dtlz4":
                        alpha = rng.choice([100, 100.0, 1, 2.0, 10])
                        extra, nums = (alpha,), [float(alpha)]
                    st, r = call(f, list(x), m, *extra)
                    case = {"kind": "dtlz", "f": name, "x": x, "objectives": m, "extra": list(extra), "observed": repr(r)}
                    if st != "ok":
                        run.oracle_violation("%s raises on a valid input: %s" % (name, r), case)
                        continue
                    if len(r) != m:
                        run.oracle_violation("%s returns %d values for %d objectives" % (name, len(r), m), case)
                        continue
                    check_values(run, name, case, r, ofn(x, m, *extra))
                    # front identities, from the returned objective vector alone
                    xm = x[m - 1:]
                    if name == "dtlz1":
                        g = O._g13(xm)
                        if not O.close(math.fsum(r), 0.5 * (1 + g)):
                            run.oracle_violation("dtlz1: objectives sum to %r, (1+g)/2 = %r" % (math.fsum(r), 0.5 * (1 + g)), case)
                    elif name in ("dtlz2", "dtlz3", "dtlz4", "dtlz5", "dtlz6"):
                        g = O._g13(xm) if name == "dtlz3" else (math.fsum(v ** 0.1 for v in xm) if name == "dtlz6" else O._g2(xm))
                        if not O.close(norm2(r), 1 + g):
                            run.oracle_violation("%s: objective vector has Euclidean norm %r, 1+g = %r" % (name, norm2(r), 1 + g), case)
                    C.add(cnum(name, [m], nums, [], x, False, as_list(r)), case)


def gen_gp(run, C, gp):
    rng = run.rng
    for name, (dim, samp) in GPF.items():
        f, ofn = getattr(gp, name), getattr(O, name)
        for _ in range(run.scale(12, 120)):
            n = dim if dim is not None else rng.randint(1, 30)
            x = samp(rng, n)
            st, r = call(f, list(x))
            case = {"kind": "gp", "f": name, "x": x, "observed": repr(r)}
            if st != "ok":
                run.oracle_violation("%s raises on a valid input: %s" % (name, r), case)
                continue
            if not isinstance(r, float):
                run.oracle_violation("%s does not return a scalar" % name, case)
                continue
            check_values(run, name, case, [r], [ofn(x)])
            C.add(cnum(name, [], [], [], x, False, [r]), case)
        if name in ("unwrapped_ball", "rational_polynomial2", "rational_polynomial"):
            for _ in range(run.scale(6, 60)):
                n = dim if dim is not None else rng.randint(1, 12)
                x = dyadic(rng, n, 1, 48, 8) if name == "rational_polynomial" else dyadic(rng, n, -16, 64, 8)
                st, r = call(f, list(x))
                if st != "ok":
                    continue
                case = {"kind": "gp-dyadic", "f": name, "x": x, "observed": repr(r)}
                check_values(run, name, case, [r], [ofn(x)])
                C.add(cnum(name, [], [], [], x, True, [r]), case)


def cbin(name, ints, bits, obs):
    return "CBin %s %s %s %s" % (cstr(name), czl(ints), czl(bits), copt(obs, czl))


def gen_binary(run, C, binary):
    rng = run.rng
    import itertools

    def one(name, bits, ints=(), scalar=False):
        f, ofn = getattr(binary, name), getattr(O, name)
        st, r = call(f, list(bits), *ints)
        case = {"kind": "binary", "f": name, "bits": list(bits), "ints": list(ints), "observed": repr(r)}
        if st != "ok":
            run.oracle_violation("%s raises on a valid input: %s" % (name, r), case)
            return
        want = ofn(list(bits), *ints)
        got = [r] if scalar else list(r)
        if not scalar and (not isinstance(r, tuple) or len(r) != 1):
            run.oracle_violation("%s does not return one entry per objective" % name, case)
            return
        if got != (want if not scalar else [want]):
            run.oracle_violation("%s = %r, published definition gives %r" % (name, got, want), case)
        C.add(cbin(name, list(ints), list(bits), [int(v) for v in got]), case)
        # other individual containers (tuple, array('b'), numpy int / bool arrays): the same bits, the same value
        if rng.random() < 0.35:
            import array as _array
            import numpy as _np
            for cname, mk in (("tuple", tuple), ("array.array('b')", lambda b: _array.array("b", b)),
                              ("numpy int64", lambda b: _np.array(b, dtype=_np.int64)), ("numpy int8", lambda b: _np.array(b, dtype=_np.int8))):
                st2, r2 = call(f, mk(list(bits)), *ints)
                c2 = dict(case, container=cname, observed=repr(r2))
                run.extra_cov["binary_container_calls"] = run.extra_cov.get("binary_container_calls", 0) + 1
                if st2 != "ok":
                    run.oracle_violation("%s raises on a valid %s individual: %s" % (name, cname, r2), c2)
                    continue
                try:
                    g2 = [int(r2)] if scalar else [int(v) for v in r2]
                except Exception:
                    g2 = None
                if g2 != ([want] if scalar else list(want)):
                    run.oracle_violation("%s on a %s individual = %r, published definition gives %r" % (name, cname, r2, want), c2)

    for n in range(0, run.scale(6, 9)):
        for bits in itertools.product([0, 1], repeat=n):
            one("trap", bits, scalar=True)
            one("inv_trap", bits, scalar=True)
    for _ in range(run.scale(30, 300)):
        n = rng.randint(1, 30)
        p = rng.choice([0.0, 1.0, 0.5, 0.9, 0.1])
        bits = [1 if rng.random() < p else 0 for _ in range(n)]
        one("trap", bits, scalar=True)
        one("inv_trap", bits, scalar=True)

    def rbits(n):
        p = rng.choice([0.0, 1.0, 0.5, 0.5, 0.9, 0.1])
        b = [1 if rng.random() < p else 0 for _ in range(n)]
        # make some 4-blocks uniform so that the trap maxima are hit
        for s in range(0, n - 3, 4):
            if rng.random() < 0.3:
                v = rng.choice([0, 1])
                b[s:s + 4] = [v] * 4
        return b
    for _ in range(run.scale(60, 600)):
        k = rng.choice([10, 10, rng.randint(1, 10)])
        one("chuang_f1", rbits(4 * k + 1))
        one("chuang_f3", rbits(4 * k + 1))
        k2 = rng.choice([5, 5, rng.randint(1, 5)])
        one("chuang_f2", rbits(8 * k2 + 2))
    # documented global optima of the 40+1 / 40+2 bit functions
    for name, n, opts in (("chuang_f1", 41, [[1] * 41, [0] * 41]),
                          ("chuang_f3", 41, [[1, 1] + [0] * 36 + [1, 1, 1], [0] * 41]),
                          ("chuang_f2", 42, [[1] * 42, [0] * 42, [1, 1, 1, 1, 0, 0, 0, 0] * 5 + [1, 0],
                                             [0, 0, 0, 0, 1, 1, 1, 1] * 5 + [0, 1]])):
        f = getattr(binary, name)
        for b in opts:
            one(name, b)
            if f(list(b)) != (40,):
                run.oracle_violation("%s at a documented global optimum is %r, not 40" % (name, f(list(b))),
                                     {"kind": "binary-optimum", "f": name, "bits": b})
        best = 40
        for _ in range(run.scale(50, 500)):
            b = rbits(n)
            v = f(b)[0]
            if v > best:
                run.oracle_violation("%s: a random string scores %d, above the documented global optima (%d)" % (name, v, best),
                                     {"kind": "binary-optimum", "f": name, "bits": b})
    for _ in range(run.scale(80, 800)):
        order = rng.randint(1, 8)
        n = rng.choice([order * rng.randint(0, 8), rng.randint(0, 40)])
        b = rbits(n)
        for s in range(0, n, order):
            if rng.random() < 0.4:
                b[s:s + order] = [1] * len(b[s:s + order])
        one("royal_road1", b, (order,))
        one("royal_road2", b, (order,))
    # long blocks (order beyond the 53-bit mantissa): complete, almost complete (one zero, at either end or inside), empty
    for _ in range(run.scale(24, 240)):
        order = rng.choice([52, 53, 54, 55, 56, 60, 63, 64, 65, 70])
        nblocks = rng.randint(1, 3)
        b = []
        for _k in range(nblocks):
            blk = [1] * order
            u = rng.random()
            if u < 0.5:
                blk[rng.choice([0, order - 1, order - 1, rng.randrange(order)])] = 0
            elif u < 0.6:
                blk = [0] * order
            b += blk
        one("royal_road1", b, (order,))
    rec = []

    def inner(ind, *a, **k):
        rec.append((list(ind), a, k))
        return (len(ind),)
    for _ in range(run.scale(80, 800)):
        nbits = rng.choice([1, 2, 3, 8, 10, 16, 31, 32, 52, 53, rng.randint(1, 53), rng.randint(54, 64)])
        nel = rng.randint(0, 6)
        extra = rng.choice([0, 0, rng.randint(0, nbits - 1)])
        p = rng.choice([0.0, 1.0, 0.5, 0.5])
        bits = [1 if rng.random() < p else 0 for _ in range(nel * nbits + extra)]
        mn, mx = rng.choice([(-5.0, 5.0), (0.0, 1.0), (rng.uniform(-10, 0), rng.uniform(0, 10)), (3.0, -2.0)])
        del rec[:]
        dec = binary.bin2float(mn, mx, nbits)(inner)
        st, r = call(dec, list(bits), 7, key="v")
        case = {"kind": "bin2float", "min": mn, "max": mx, "nbits": nbits, "bits": bits, "observed": repr(rec)}
        if st != "ok" or len(rec) != 1:
            run.oracle_violation("bin2float wrapper failed: %s" % (r,), case)
            continue
        fed, a, k = rec[0]
        want = O.bin2float_decode(mn, mx, nbits, bits)
        if a != (7,) or k != {"key": "v"} or r != (len(fed),):
            run.oracle_violation("bin2float does not pass extra arguments / the result through", case)
        okv = len(fed) == len(want) and all(O.close(float(g), float(w)) for g, w in zip(fed, want))
        if not okv:
            run.oracle_violation("bin2float feeds %r, decoded bit groups are %r" % (fed, [float(w) for w in want]), case)
        if nbits <= 53:
            C.add("CDecode %s %s %s %s %s" % (cfloat(mn), cfloat(mx), cz(nbits), czl(bits), cfl(fed)), case)
        else:
            run.note_case(case)


def gen_decorators(run, C, tools):
    rng = run.rng
    import numpy
    rec = []

    def inner(ind, *a, **k):
        rec.append((ind, a, k))
        return tuple(float(i + 1) for i in range(3))

    def fed_ok(case, what, want_fr):
        """exactly one call, extra arguments passed through, argument close to the exact rational transform"""
        if len(rec) != 1:
            run.oracle_violation("%s: wrapped function called %d times" % (what, len(rec)), case)
            return None
        fed, a, k = rec[0]
        if a != (5,) or k != {"kw": 1}:
            run.oracle_violation("%s does not pass extra arguments through" % what, case)
        fed = [float(v) for v in fed]
        if len(fed) != len(want_fr) or not all(O.close(g, float(w)) for g, w in zip(fed, want_fr)):
            run.oracle_violation("%s feeds %r, the inversely transformed individual is %r" % (what, fed, [float(w) for w in want_fr]), case)
            return None
        return fed

    for _ in range(run.scale(60, 600)):
        n = rng.randint(1, 30)
        x = [rng.uniform(-10, 10) for _ in range(n)]
        # translate
        t = [rng.uniform(-10, 10) for _ in range(n)]
        dec = tools.translate(t)(inner)
        for vec in (t, [rng.uniform(-3, 3) for _ in range(n)]):
            if vec is not t:
                dec.translate(vec)
            del rec[:]
            st, r = call(dec, list(x), 5, kw=1)
            case = {"kind": "translate", "vector": vec, "x": x, "observed": repr(rec)}
            if st != "ok" or r != (1.0, 2.0, 3.0):
                run.oracle_violation("translate wrapper failed / changed the result: %s" % (r,), case)
                continue
            fed = fed_ok(case, "translate", [Fraction(a) - Fraction(b) for a, b in zip(x, vec)])
            if fed is not None:
                C.add("CTranslate %s %s %s" % (cfl(vec), cfl(x), cfl(fed)), case)
        # scale
        s = [rng.choice([-1, 1]) * rng.uniform(0.1, 10) for _ in range(n)]
        dec = tools.scale(s)(inner)
        for fac in (s, [rng.choice([0.25, 2.0, 0.1, 3.0]) for _ in range(n)]):
            if fac is not s:
                dec.scale(fac)
            del rec[:]
            st, r = call(dec, list(x), 5, kw=1)
            case = {"kind": "scale", "factor": fac, "x": x, "observed": repr(rec)}
            if st != "ok" or r != (1.0, 2.0, 3.0):
                run.oracle_violation("scale wrapper failed / changed the result: %s" % (r,), case)
                continue
            fed = fed_ok(case, "scale", [Fraction(a) / Fraction(b) for a, b in zip(x, fac)])
            if fed is not None:
                stored = [float(v) for v in dec.scale.__self__.factor]
                C.add("CScale %s %s %s %s" % (cfl(fac), cfl(x), cfl(stored), cfl(fed)), case)
        # rotate: a random orthogonal matrix, as the documentation prescribes, and a general invertible one
        n = rng.randint(1, 8)
        x = [rng.uniform(-10, 10) for _ in range(n)]
        nrng = numpy.random.RandomState(rng.randrange(2 ** 31))
        q, _ = numpy.linalg.qr(nrng.random_sample((n, n)))
        dec = tools.rotate(q)(inner)
        for mat in (q, numpy.identity(n) + 0.3 * nrng.random_sample((n, n))):
            if mat is not q:
                dec.rotate(mat)
            del rec[:]
            st, r = call(dec, list(x), 5, kw=1)
            case = {"kind": "rotate", "matrix": mat.tolist(), "x": x, "observed": repr(rec)}
            if st != "ok" or r != (1.0, 2.0, 3.0) or len(rec) != 1:
                run.oracle_violation("rotate wrapper failed / changed the result: %s" % (r,), case)
                continue
            fed = [float(v) for v in rec[0][0]]
            back = [math.fsum(float(mat[i][j]) * fed[j] for j in range(n)) for i in range(n)]   # M . fed must be x
            if len(fed) != n or not all(abs(a - b) <= 1e-7 * (1 + abs(b)) for a, b in zip(back, x)):
                run.oracle_violation("rotate feeds %r; rotating it back gives %r, not the individual" % (fed, back), case)
                continue
            minv = [[float(v) for v in row] for row in dec.rotate.__self__.matrix]
            # contract of numpy.linalg.inv assumed by theorem C20_rotate_feeds: Minv . M = I
            prod = [[math.fsum(minv[i][k] * float(mat[k][j]) for k in range(n)) for j in range(n)] for i in range(n)]
            if any(abs(prod[i][j] - (1.0 if i == j else 0.0)) > 1e-8 for i in range(n) for j in range(n)):
                run.oracle_violation("rotate: the stored matrix is not the inverse of the rotation matrix", case)
                continue
            C.add("CRotate %s %s %s" % (cmat(minv), cfl(x), cfl(fed)), case)
        # noise
        nobj = 3
        draws = [rng.choice([None, rng.gauss(0, 1), rng.gauss(0, 1)]) for _ in range(nobj)]
        single = rng.random() < 0.4
        if single:
            d0 = [rng.gauss(0, 1) for _ in range(nobj)]
            it = iter(d0)
            dec = tools.noise(lambda: next(it))(inner)
            draws = list(d0)
        else:
            dec = tools.noise([None if d is None else (lambda d=d: d) for d in draws])(inner)
        x = [rng.uniform(-10, 10) for _ in range(rng.randint(1, 10))]
        xin = list(x)
        del rec[:]
        st, r = call(dec, xin, 5, kw=1)
        case = {"kind": "noise", "draws": draws, "single_function": single, "x": x, "observed": repr((rec, r))}
        if st != "ok" or len(rec) != 1:
            run.oracle_violation("noise wrapper failed: %s" % (r,), case)
            continue
        if rec[0][0] is not xin or list(xin) != x or rec[0][1] != (5,) or rec[0][2] != {"kw": 1}:
            run.oracle_violation("noise does not feed the wrapped function the individual itself", case)
        want = [b if d is None else b + d for b, d in zip((1.0, 2.0, 3.0), draws)]
        if list(r) != want:
            run.oracle_violation("noise returns %r, result plus noise is %r" % (r, want), case)
        C.add("CNoise %s %s %s %s %s" % (clist([copt(d, cfloat) for d in draws]), cfl(x), cfl([1.0, 2.0, 3.0]),
                                          cfl(list(rec[0][0])), cfl(list(r))), case)


# ----------------------------------------------------------------------------------------------
# decorators as STATE MACHINES: initial parameter, then setter calls, evaluation after every step.
# "feeds the wrapped function exactly the inversely transformed individual" is checked with the
# CURRENT parameters at every step (a cached flag or a stale reciprocal computed in __init__ and
# not refreshed by the setter shows up here).
# ----------------------------------------------------------------------------------------------
PARAM_KINDS = ("neutral", "generic", "negative", "mixed")


def make_param(rng, dec, kind, n, nobj=3):
    """parameter of decorator `dec` of the given kind, as plain Python data (lists / nested lists / None)"""
    import numpy
    if dec == "translate":
        if kind == "neutral":
            return [0.0] * n
        if kind == "generic":
            return [rng.uniform(-10, 10) for _ in range(n)]
        if kind == "negative":
            return [-rng.uniform(0.1, 10) for _ in range(n)]
        v = [rng.choice([0.0, rng.uniform(-10, 10)]) for _ in range(n)]
        if n > 1 and all(t == 0.0 for t in v):
            v[-1] = 2.5
        return v
    if dec == "scale":
        if kind == "neutral":
            return [1.0] * n
        if kind == "generic":
            return [rng.uniform(0.1, 10) for _ in range(n)]
        if kind == "negative":
            return [-rng.uniform(0.1, 10) for _ in range(n)]
        return [rng.choice([1.0, rng.choice([-1, 1]) * rng.uniform(0.1, 10)]) for _ in range(n)]
    if dec == "rotate":
        if kind == "neutral":
            return numpy.identity(n).tolist()
        nrng = numpy.random.RandomState(rng.randrange(2 ** 31))
        q, _ = numpy.linalg.qr(nrng.random_sample((n, n)))
        if kind == "generic":
            return q.tolist()
        if kind == "negative":
            return (-q).tolist()
        m = numpy.identity(n)             # identity except for one plane rotation / a swap
        if n >= 2:
            i, j = rng.sample(range(n), 2)
            a = rng.uniform(0.1, 3.0)
            m[i, i], m[i, j], m[j, i], m[j, j] = math.cos(a), -math.sin(a), math.sin(a), math.cos(a)
        return m.tolist()
    if dec == "noise":
        if kind == "neutral":
            return None
        if kind == "generic":
            return [rng.gauss(0, 1) for _ in range(nobj)] if rng.random() < 0.6 else ("single", rng.gauss(0, 1))
        if kind == "negative":
            return [-abs(rng.gauss(0, 1)) - 0.1 for _ in range(nobj)]
        v = [rng.choice([None, rng.gauss(0, 1)]) for _ in range(nobj)]
        if all(t is None for t in v):
            v[0] = 0.75
        return v
    raise ValueError(dec)


def noise_arg(p):
    """the object handed to tools.noise / evaluate.noise, and the per-objective draws the oracle expects"""
    if p is None:
        return None, [None, None, None]
    if isinstance(p, (tuple, list)) and len(p) == 2 and p[0] == "single":
        d = p[1]
        return (lambda: d), [d, d, d]
    return [None if d is None else (lambda d=d: d) for d in p], list(p)


class DecState(object):
    """one decorated recording function (possibly two decorators deep) and the oracle's view of its parameters"""

    def __init__(self, run, C, tools, stack, params, corpus=None):
        import numpy
        self.run, self.C, self.tools, self.numpy = run, C, tools, numpy
        self.stack = list(stack)               # outermost first, e.g. ["translate", "scale"]
        self.params = dict(params)             # decorator name -> current parameter
        self.rec = []
        self.history = [("init", d, params[d]) for d in self.stack]
        self.corpus = corpus

        def inner(ind, *a, **k):
            self.rec.append((ind, a, k))
            return (1.0, 2.0, 3.0)
        f = inner
        for d in reversed(self.stack):
            f = getattr(tools, d)(self.arg(d, params[d]))(f)
        self.f = f

    def arg(self, d, p):
        if d == "rotate":
            return self.numpy.array(p)
        if d == "noise":
            return noise_arg(p)[0]
        return list(p)

    def set(self, d, p):
        st, r = call(getattr(self.f, d), self.arg(d, p))
        self.history.append(("set", d, p))
        if st != "ok":
            self.run.oracle_violation("%s setter raises: %s" % (d, r), self.case([], None))
            return False
        self.params[d] = p
        return True

    def case(self, x, obs):
        return {"kind": "decorator-sequence", "stack": self.stack, "history": [list(h) for h in self.history], "x": x,
                "observed": repr(obs), "corpus": self.corpus}

    def evaluate(self, x):
        run, C = self.run, self.C
        del self.rec[:]
        xin = list(x)
        st, r = call(self.f, xin, 5, kw=1)
        case = self.case(x, (self.rec, r))
        if st != "ok" or len(self.rec) != 1:
            run.oracle_violation("%s wrapper failed (%s) or called the wrapped function %d times" % ("/".join(self.stack), r, len(self.rec)), case)
            return
        fed_obj, a, k = self.rec[0]
        if a != (5,) or k != {"kw": 1}:
            run.oracle_violation("%s does not pass extra arguments through" % "/".join(self.stack), case)
        fed = [float(v) for v in fed_obj]
        # result: unchanged, except for noise
        want_r = (1.0, 2.0, 3.0)
        if "noise" in self.stack:
            draws = noise_arg(self.params["noise"])[1]
            want_r = tuple(b if d is None else b + d for b, d in zip(want_r, draws))
        if tuple(r) != want_r:
            run.oracle_violation("%s returns %r, expected %r with the current parameters" % ("/".join(self.stack), r, want_r), case)
        # argument: the inverse transforms with the CURRENT parameters, outermost first
        n = len(x)
        ok = True
        if "rotate" in self.stack:
            # rotate is outermost here: fed = Minv x (- t); check M . (fed + t) = x
            back = list(fed)
            if "translate" in self.stack:
                back = [b + t for b, t in zip(back, self.params["translate"])]
            M = self.params["rotate"]
            mx = [math.fsum(M[i][j] * back[j] for j in range(n)) for i in range(n)]
            ok = len(fed) == n and all(abs(u - v) <= 1e-7 * (1 + abs(v)) for u, v in zip(mx, x))
            want = "the vector y with M.(y%s) = individual" % (" + t" if "translate" in self.stack else "")
        else:
            cur = [Fraction(v) for v in x]
            for d in self.stack:
                if d == "translate":
                    cur = [u - Fraction(t) for u, t in zip(cur, self.params[d])]
                elif d == "scale":
                    cur = [u / Fraction(t) for u, t in zip(cur, self.params[d])]
            ok = len(fed) == len(cur) and all(O.close(g, float(w)) for g, w in zip(fed, cur))
            want = [float(w) for w in cur]
            if self.stack == ["noise"] and (fed_obj is not xin or xin != list(x)):
                ok = False
        if not ok:
            run.oracle_violation("%s feeds %r after %r; the inversely transformed individual (current parameters) is %r"
                                 % ("/".join(self.stack), fed, self.history[-1], want), case)
            return
        # Coq side for the single decorators
        if self.stack == ["translate"]:
            C.add("CTranslate %s %s %s" % (cfl(self.params["translate"]), cfl(x), cfl(fed)), case)
        elif self.stack == ["scale"]:
            stored = [float(v) for v in self.f.scale.__self__.factor]
            C.add("CScale %s %s %s %s" % (cfl(self.params["scale"]), cfl(x), cfl(stored), cfl(fed)), case)
        elif self.stack == ["rotate"]:
            minv = [[float(v) for v in row] for row in self.f.rotate.__self__.matrix]
            M = self.params["rotate"]
            prod = [[math.fsum(minv[i][q] * M[q][j] for q in range(n)) for j in range(n)] for i in range(n)]
            if any(abs(prod[i][j] - (1.0 if i == j else 0.0)) > 1e-8 for i in range(n) for j in range(n)):
                run.oracle_violation("rotate: the stored matrix is not the inverse of the CURRENT rotation matrix", case)
                return
            C.add("CRotate %s %s %s" % (cmat(minv), cfl(x), cfl(fed)), case)
        elif self.stack == ["noise"]:
            draws = noise_arg(self.params["noise"])[1]
            C.add("CNoise %s %s %s %s %s" % (clist([copt(d, cfloat) for d in draws]), cfl(x), cfl([1.0, 2.0, 3.0]),
                                              cfl(fed), cfl(list(r))), case)
        else:
            run.note_case(case)


def run_decorator_sequence(run, C, tools, stack, init, steps, xs, corpus=None):
    """init: {decorator: parameter}; steps: [(decorator, parameter)]; xs: one individual per evaluation (init + every step)"""
    st, S = call(DecState, run, C, tools, stack, init, corpus)
    if st != "ok":
        run.oracle_violation("decorating with %r raises: %s" % (init, S), {"kind": "decorator-sequence", "stack": stack, "init": repr(init)})
        return
    S.evaluate(xs[0])
    for i, (d, p) in enumerate(steps):
        if not S.set(d, p):
            return
        S.evaluate(xs[(i + 1) % len(xs)])


def gen_decorator_sequences(run, C, tools):
    rng = run.rng
    # corpus first
    cdir = os.path.join(vlib.VERIF, "corpus")
    if os.path.isdir(cdir):
        import json
        for fn in sorted(os.listdir(cdir)):
            if fn.startswith("C20_") and fn.endswith(".json"):
                c = json.load(open(os.path.join(cdir, fn)))
                if c.get("kind") == "decorator-sequence":
                    run_decorator_sequence(run, C, tools, c["stack"], c["init"], [tuple(s) for s in c["steps"]], c["xs"], corpus=fn)
    singles = ["translate", "scale", "rotate", "noise"]
    # every (initial kind, next kind) pair for every decorator, then longer random sequences
    for d in singles:
        for k0 in PARAM_KINDS:
            for k1 in PARAM_KINDS:
                for rep in range(run.scale(1, 6)):
                    n = rng.randint(1, 6) if d == "rotate" else rng.randint(1, 12)
                    nsteps = 1 if rep == 0 else rng.randint(1, 3)
                    kinds = [k1] + [rng.choice(PARAM_KINDS) for _ in range(nsteps - 1)]
                    init = {d: make_param(rng, d, k0, n)}
                    steps = [(d, make_param(rng, d, k, n)) for k in kinds]
                    xs = [[rng.uniform(-10, 10) for _ in range(n)] for _ in range(2)]
                    # the individual equal to the installed translation vector: the wrapped function must see zeros
                    if d == "translate" and rep == 0:
                        xs = [list(steps[0][1]), list(steps[0][1])]
                    run_decorator_sequence(run, C, tools, [d], init, steps, xs)
    # two decorators deep, setters called on the outer wrapper
    for stack in (["translate", "scale"], ["scale", "translate"], ["rotate", "translate"]):
        for k0 in PARAM_KINDS:
            for k1 in PARAM_KINDS:
                for rep in range(run.scale(1, 4)):
                    n = rng.randint(1, 6)
                    init = {stack[0]: make_param(rng, stack[0], k0, n), stack[1]: make_param(rng, stack[1], k1, n)}
                    steps = []
                    for _ in range(rng.randint(1, 3)):
                        d = rng.choice(stack)
                        steps.append((d, make_param(rng, d, rng.choice(PARAM_KINDS), n)))
                    xs = [[rng.uniform(-10, 10) for _ in range(n)] for _ in range(2)]
                    run_decorator_sequence(run, C, tools, stack, init, steps, xs)



class RandomProxy(object):
    """Logging proxy around random.Random handed to MovingPeaks(random=...)"""

    def __init__(self, seed):
        self.r = _random.Random(seed)
        self.log = []

    def random(self):
        v = self.r.random()
        self.log.append(("random", v))
        return v

    def uniform(self, a, b):
        v = self.r.uniform(a, b)
        self.log.append(("uniform", v))
        return v

    def gauss(self, mu, sigma):
        v = self.r.gauss(mu, sigma)
        self.log.append(("gauss", v))
        return v

    def randrange(self, *a):
        v = self.r.randrange(*a)
        self.log.append(("randrange", v))
        return v

    def choice(self, seq):
        v = self.r.choice(seq)
        self.log.append(("choice", None))
        return v

    def sample(self, seq, k):
        v = self.r.sample(seq, k)
        self.log.append(("sample", None))
        return v


def gen_movingpeaks(run, C, mp):
    rng = run.rng
    fids = {mp.cone: 0, mp.sphere: 1, mp.function1: 2}
    ospec = {0: O.mp_cone, 1: O.mp_sphere_as_coded, 2: O.mp_function1}
    # the three peak functions on their own
    for f, fid in fids.items():
        for _ in range(run.scale(25, 250)):
            n = rng.randint(1, 30)
            dy = rng.random() < 0.3
            x = dyadic(rng, n, 0, 800, 8) if dy else [rng.uniform(0, 100) for _ in range(n)]
            p = dyadic(rng, n, 0, 800, 8) if dy else [rng.uniform(0, 100) for _ in range(n)]
            h, w = (rng.randint(240, 560) / 8, rng.randint(1, 96) / 8) if dy else (rng.uniform(30, 70), rng.uniform(0.0001, 12))
            if rng.random() < 0.1:
                x = list(p)
            st, r = call(f, list(x), list(p), h, w)
            case = {"kind": "peak", "f": f.__name__, "x": x, "position": p, "height": h, "width": w, "observed": repr(r)}
            if st != "ok":
                run.oracle_violation("movingpeaks.%s raises: %s" % (f.__name__, r), case)
                continue
            check_values(run, "movingpeaks." + f.__name__, case, [r], [ospec[fid](x, p, h, w)])
            C.add("CPeak %s %s %s %s %s %s" % (cz(fid), cfl(x), cfl(p), cfloat(h), cfloat(w), cfloat(r)), case)
    # MovingPeaks objects
    scen = [mp.SCENARIO_1, mp.SCENARIO_2, mp.SCENARIO_3]
    for it in range(run.scale(40, 400)):
        dim = rng.randint(1, 6)
        sc = dict(rng.choice(scen))
        kind = rng.choice(["int", "fluct", "fluct", "list"])
        limits = None
        if kind == "int":
            sc["npeaks"] = rng.randint(1, 12)
        elif kind == "fluct":
            lo = rng.randint(1, 5)
            hi = lo + rng.randint(0, 12)
            cur = rng.randint(lo, hi)
            sc["npeaks"] = [lo, cur, hi]
            sc["number_severity"] = rng.choice([0.1, 0.5, 1.0, 2.0, 0.0, rng.uniform(0, 1)])
            limits = (lo, hi)
        else:
            pool = [rng.choice(list(fids)) for _ in range(rng.randint(1, 4))]
            sc["pfunc"] = pool
            sc["npeaks"] = rng.randint(1, len(pool))
        if kind != "list":
            sc["pfunc"] = rng.choice([mp.cone, mp.function1, mp.sphere, sc["pfunc"]])
        if kind == "fluct" and rng.random() < 0.3:
            sc["pfunc"] = [rng.choice(list(fids)) for _ in range(sc["npeaks"][1])]
        basis = rng.choice([None, None, 10, 45.5])
        sc["bfunc"] = None if basis is None else (lambda x, c=basis: c)
        sc["period"] = rng.choice([0, 0, 3, 5000])
        prox = RandomProxy(rng.randrange(2 ** 32))
        pf_list = sc["pfunc"] if isinstance(sc["pfunc"], list) else None
        pf_before = list(pf_list) if pf_list is not None else None
        st, m = call(mp.MovingPeaks, dim, random=prox, **sc)
        case0 = {"kind": "mp-config", "dim": dim, "npeaks": sc["npeaks"], "pfunc": repr(sc["pfunc"]), "basis": basis,
                 "period": sc["period"], "number_severity": sc.get("number_severity")}
        if st != "ok":
            run.oracle_violation("MovingPeaks(...) raises for a documented configuration: %s" % m, case0)
            continue
        benchmarks = [(m, prox)]
        if pf_list is not None and rng.random() < 0.6:
            # a second benchmark configured with the SAME pfunc list object (a script that builds several landscapes
            # from one configuration); both are evaluated and changed alternately and judged independently
            prox2 = RandomProxy(rng.randrange(2 ** 32))
            st2, m2 = call(mp.MovingPeaks, dim, random=prox2, **sc)
            if st2 != "ok":
                run.oracle_violation("MovingPeaks(...) raises for a documented configuration (second benchmark from the same "
                                     "pfunc list): %s" % m2, case0)
                continue
            benchmarks.append((m2, prox2))
            case0 = dict(case0, two_benchmarks_from_one_pfunc_list=True)
            run.extra_cov["mp_two_benchmarks_one_pfunc_list"] = run.extra_cov.get("mp_two_benchmarks_one_pfunc_list", 0) + 1
        nchanges = 0
        dead = False
        for step in range(run.scale(6, 20)):
          for m, prox in benchmarks:
            if dead:
                break
            # evaluation = maximum over the peak functions (+ basis function)
            for _ in range(2):
                x = [rng.uniform(0, 100) for _ in range(dim)]
                if rng.random() < 0.3 and m.peaks_position:
                    x = list(rng.choice(m.peaks_position))
                funcs, ps = list(m.peaks_function), [list(p) for p in m.peaks_position]
                hs, ws = list(m.peaks_height), list(m.peaks_width)
                count = rng.random() < 0.5
                nev = m.nevals
                st, r = call(m, list(x), count=count)
                case = dict(case0, kind="mp-eval", x=x, positions=ps, heights=hs, widths=ws,
                            functions=[f.__name__ for f in funcs], observed=repr(r), count=count)
                if st != "ok":
                    run.oracle_violation("MovingPeaks.__call__ raises: %s" % r, case)
                    dead = True
                    break
                if not (len(funcs) == len(ps) == len(hs) == len(ws)):
                    run.oracle_violation("per-peak lists have different lengths", case)
                    dead = True
                    break
                vals = [ospec[fids[f]](x, p, h, w) for f, p, h, w in zip(funcs, ps, hs, ws)]
                if basis is not None:
                    vals.append(basis)
                if not (isinstance(r, tuple) and len(r) == 1 and O.close(float(r[0]), max(vals))):
                    run.oracle_violation("MovingPeaks evaluation %r is not the maximum %r over its peak functions" % (r, max(vals)), case)
                C.add("CMPCall %s %s %s %s %s %s %s" % (czl([fids[f] for f in funcs]), cmat(ps), cfl(hs), cfl(ws),
                                                         copt(None if basis is None else float(basis), cfloat), cfl(x),
                                                         cfl([float(r[0])])), case)
                if count and sc["period"] > 0 and (nev + 1) % sc["period"] == 0:
                    nchanges += 1
            if dead:
                break
            # change
            before = len(m.peaks_function)
            k0 = len(prox.log)
            st, r = call(m.changePeaks)
            after = len(m.peaks_function)
            case = dict(case0, kind="mp-change", before=before, after=after, step=step)
            if st != "ok":
                run.oracle_violation("changePeaks raises: %s" % r, case)
                dead = True
                break
            lens = {len(m.peaks_function), len(m.peaks_position), len(m.peaks_height), len(m.peaks_width), len(m.last_change_vector)}
            if len(lens) != 1:
                run.oracle_violation("per-peak lists have different lengths after changePeaks", case)
            if limits is not None:
                if not (limits[0] <= after <= limits[1]):
                    run.oracle_violation("peak count %d outside its configured limits %r after changePeaks" % (after, limits), case)
                draws = [v for kname, v in prox.log[k0:k0 + 2]]
                kinds = [kname for kname, v in prox.log[k0:k0 + 2]]
                if kinds == ["random", "random"]:
                    C.add("CMPCount %s %s %s %s %s %s %s" % (cz(limits[0]), cz(limits[1]), cfloat(sc["number_severity"]),
                                                             cz(before), cfloat(draws[0]), cfloat(draws[1]), cz(after)), case)
                else:
                    run.oracle_violation("changePeaks does not start with the two number-of-peaks draws", case)
            else:
                if after != before:
                    run.oracle_violation("peak count changed although npeaks is a constant", case)
                run.note_case(case)
          if dead:
            break
        if pf_list is not None and pf_list != pf_before:
            run.oracle_violation("MovingPeaks changed the pfunc list it was configured with (%d -> %d entries)" % (len(pf_before), len(pf_list)),
                                 dict(case0, kind="mp-config-list"))


def gen_docs(run, B, mp, binary):
    """The three places where the documentation's own formula / tabulated optimum contradicted the code (and the
    literature) and was repaired (known findings, `fixed`): if the text comes back, the function no longer returns the value
    of the formula its documentation states -- reported with the concrete input on which the two differ."""
    import math
    doc = B.rastrigin_skew.__doc__ or ""
    case = {"kind": "documentation", "f": "rastrigin_skew", "x": [0.05]}
    run.note_case(case)
    if "\\cos(2\\pi x_i)" in doc or "cos(2\\pi x_i)" in doc.replace(" ", ""):
        got = B.rastrigin_skew([0.05])[0]
        stated = 10 + ((10 * 0.05) ** 2 - 10 * math.cos(2 * math.pi * 0.05))
        run.oracle_violation("rastrigin_skew([0.05]) = %r, the formula in its documentation (cos(2 pi x_i)) gives %r" % (got, stated), case)
    doc = mp.function1.__doc__ or ""
    case = {"kind": "documentation", "f": "movingpeaks.function1", "x": [3.0, 4.0], "position": [0.0, 0.0], "height": 1.0, "width": 1.0}
    run.note_case(case)
    if "sqrt" in doc:
        got = mp.function1([3.0, 4.0], [0.0, 0.0], 1.0, 1.0)
        run.oracle_violation("movingpeaks.function1([3,4],[0,0],1,1) = %r, the formula in its documentation (with a square root) gives %r"
                             % (got, 1.0 / (1.0 + 5.0)), case)
    doc = (binary.chuang_f3.__doc__ or "").replace(" ", "")
    case = {"kind": "documentation", "f": "chuang_f3", "bits": [1] * 41}
    run.note_case(case)
    if "[1,1,...,1]" in doc:
        got = binary.chuang_f3([1] * 41)
        if got != (40,):
            run.oracle_violation("chuang_f3 documents [1,1,...,1] as a global optimum (value 40); chuang_f3([1]*41) = %r" % (got,), case)


def gen_rand(run, B):
    saved = B.random
    try:
        for s in range(20):
            B.random = _random.Random(s)
            r = B.rand([1.0, 2.0])
            if not (isinstance(r, tuple) and len(r) == 1 and 0.0 <= r[0] < 1.0):
                run.oracle_violation("rand does not return one value in [0, 1)", {"kind": "rand", "seed": s, "observed": repr(r)})
            run.note_case({"kind": "rand", "seed": s})
    finally:
        B.random = saved


def main(run):
    import deap.benchmarks as B
    from deap.benchmarks import binary, gp, movingpeaks, tools
    run.rule = ("every function of deap.benchmarks, .binary, .gp, .movingpeaks: dimensions 1..30 as allowed (a spread of dimensions "
                "in the quick tier, all in the thorough tier), 2..6 objectives for DTLZ, uniform random inputs in the documented range, "
                "the documented optimum, zero / corner points, short dyadic inputs (bit-exact group); binary functions: exhaustive "
                "strings up to 5 (8) bits, random strings with uniform blocks, the documented optima; decorators through a recording "
                "inner function with random vectors / orthogonal and general matrices / bit widths 1..64; MovingPeaks: random "
                "configurations of the three scenarios, evaluation points incl. peak centres, sequences of changePeaks with logged "
                "draws. A case is distinct by its full input; all are non-trivial.")
    run.trusted += ["Coq 8.16.1 kernel and vm_compute",
                    "translator harness/c20_py2coq.py (deap/benchmarks/*.py -> coq/Gen/C20_bench_gen.v), validated on every run by "
                    "evaluating the regenerated definitions against the implementation",
                    "hand-transcribed published formulas coq/Model/C20_BenchSpec.v (and, independently, harness/c20_oracle.py)",
                    "float evaluation inside coqc: IEEE primitives of Coq's PrimFloat plus the exp/ln/sin/cos/pow approximations of "
                    "coq/Base/C20_FloatFun.v (comparison within 1e-9 relative to 1+|value|; bit-exact for + - * / sqrt, sum-only functions)",
                    "CPython 3.12 semantics assumed: list slicing/indexing (Base/PyList.v), range, zip, enumerate, reduce, "
                    "builtin sum (Neumaier compensation on floats), max = first maximum, round half to even",
                    "numpy.linalg.inv / numpy.dot as oracles for the rotate decorator (inverse contract checked numerically on every matrix used)",
                    "real-number semantics: rounding, overflow and underflow of the float implementation are not verified"]
    run.assumptions += ["inputs are Python floats in the documented ranges (lists), bit strings are lists of 0/1 ints",
                        "dimension >= 2 for zdt*/rastrigin_scaled, >= number of objectives for dtlz*, 4k+1 / 8k+2 bits for chuang_f*",
                        "rotation matrices are invertible; scale factors non-zero"]
    ok, msg, meta = regen()
    run.extra_cov["translator"] = msg
    if not ok:
        run.broken.append({"kind": "translator_failed", "where": ["harness/c20_py2coq.py"], "log": msg})
        return
    refused = meta["refused"]
    run.extra_cov["translator_refused"] = refused
    run.extra_cov["translated"] = sorted(meta["functions"])
    if refused:
        # tie for the refused functions is the correspondence only; the theorems are then established on the
        # hand-written specification (Props/C20_spec.v), which the generated file aliases for those functions
        run.notes.append("tie: correspondence-only for %s" % ", ".join("%s (%s)" % kv for kv in sorted(refused.items())))
        run.extra_cov["tie"] = "translation for %d definitions, correspondence-only for %d" % (len(meta["functions"]), len(refused))
        # the aliased definitions satisfy `generated = published` trivially; try the full theorem file first (it goes through
        # when the refused functions have congruence-style proofs), else the theorems on the hand formulas
        nb, no = len(run.broken), len(run.obligations)
        if not run.build_props():
            del run.broken[nb:]
            del run.obligations[no:]
            run.notes.append("Props/C20.v does not build with the aliased definitions; theorems established on the hand formulas (Props/C20_spec.v)")
            run.build_props(props="Props/C20_spec.v")
    else:
        run.extra_cov["tie"] = "translation (regenerated definitions proved equal to the published formulas) + correspondence"
        run.build_props()
    def search(run):
        """extra counterexample search (only when an obligation or the correspondence broke and the first pass
        found no failing input): the oracle on ten times more random inputs, no Coq evaluation"""
        saved = run.tier
        run.tier = "thorough"
        try:
            D = Cases(run, meta)
            for g, mod in ((gen_single, B), (gen_multi, B), (gen_gp, gp), (gen_binary, binary), (gen_decorators, tools), (gen_decorator_sequences, tools),
                           (gen_movingpeaks, movingpeaks)):
                g(run, D, mod)
                if run.oracle_viol:
                    break
        finally:
            run.tier = saved
    run.search_fn = search
    C = Cases(run, meta)
    gen_single(run, C, B)
    gen_multi(run, C, B)
    gen_gp(run, C, gp)
    gen_binary(run, C, binary)
    gen_decorators(run, C, tools)
    gen_decorator_sequences(run, C, tools)
    gen_movingpeaks(run, C, movingpeaks)
    gen_rand(run, B)
    gen_docs(run, B, movingpeaks, binary)
    run.correspond("all", "C20", C.terms, C.cases, shard=run.scale(150, 300),
                   requires=["From Coq Require Import Floats."])
