"""Differential fuzz of the translator harness/c09_py2coq.py (not part of ./check; run by hand:
    /venv/bin/python harness/c09_gen_fuzz.py <seed> <number of mutants>).

Random AST mutations (statement deleted / duplicated / swapped with its neighbour, comparison operator replaced,
integer constant +-1, a name replaced by another name of the function in load or store position, arithmetic
operator replaced; one or two per mutant) of the twelve operators in a copy of the source text (never /repo).
For every mutant the translator ACCEPTS, the mutated PYTHON function is run on 40 random inputs with recorded
draws and the REGENERATED definition is evaluated on the same inputs and draws inside coqc (check_gen).
A disagreement means the translation does not describe the code -- except where the code leaves the modelled
behaviour (itertools.repeat of a repeat object or of a sequence: `unmodelled` = Mismatch by design; exceptions
other than ValueError / IndexError are skipped for the same reason).  Reported per mutant for manual triage."""
import ast, copy, os, random, subprocess, sys, types, warnings, shutil
from fractions import Fraction
from concurrent.futures import ThreadPoolExecutor
HERE = os.path.dirname(os.path.abspath(__file__))
sys.path.insert(0, HERE)
REPO = os.environ.get('VERIF_REPO', '/repo')
sys.path.insert(0, REPO)
import c09_py2coq as T
from c09 import DrawProxy, cdraws, cexn, cgene, cbound
from vlib import cz, czl, cq, cnatl, clist
COQ = os.path.join(os.path.dirname(HERE), 'coq')
SCRATCH = os.environ.get('C09_FUZZ_DIR', '/var/tmp/c09_gen_fuzz')
srcs = {f: open(os.path.join(REPO, 'deap', 'tools', f)).read() for f in T.FILES}
seed0 = int(sys.argv[1]) if len(sys.argv) > 1 else 0
N = int(sys.argv[2]) if len(sys.argv) > 2 else 100
rng = random.Random(seed0)
names = {s[0]: s for s in T.SIG}

def mutate(tree, fname):
    fns = [n for n in tree.body if isinstance(n, ast.FunctionDef) and n.name in names and names[n.name][1] == fname]
    fn = rng.choice(fns)
    lists = []
    for n in ast.walk(fn):
        for fld in ("body", "orelse"):
            l = getattr(n, fld, None)
            if isinstance(l, list) and l and isinstance(l[0], ast.stmt):
                lists.append(l)
    exprs = list(ast.walk(fn))
    for _ in range(rng.choice([1, 1, 2])):
        kind = rng.randrange(8)
        if kind == 0:
            l = rng.choice(lists); i = rng.randrange(len(l))
            if not (isinstance(l[i], ast.Expr)): del l[i]
            if not l: l.append(ast.Pass())
        elif kind == 1:
            l = rng.choice(lists); i = rng.randrange(len(l)); l.insert(i, copy.deepcopy(l[i]))
        elif kind == 2:
            l = rng.choice(lists)
            if len(l) > 1:
                i = rng.randrange(len(l)-1); l[i], l[i+1] = l[i+1], l[i]
        elif kind == 3:
            c = [e for e in exprs if isinstance(e, ast.Compare)]
            if c:
                e = rng.choice(c); e.ops = [rng.choice([ast.Lt(), ast.LtE(), ast.Gt(), ast.GtE(), ast.Eq(), ast.NotEq()])]
        elif kind == 4:
            c = [e for e in exprs if isinstance(e, ast.Constant) and type(e.value) is int]
            if c:
                e = rng.choice(c); e.value += rng.choice([-1, 1])
        elif kind == 5:
            c = [e for e in exprs if isinstance(e, ast.Name) and isinstance(e.ctx, ast.Load)]
            d = [e.id for e in c]
            if c:
                e = rng.choice(c); e.id = rng.choice(d)
        elif kind == 6:
            c = [e for e in exprs if isinstance(e, ast.Name) and isinstance(e.ctx, ast.Store)]
            d = [e.id for e in exprs if isinstance(e, ast.Name)]
            if c:
                e = rng.choice(c); e.id = rng.choice(d)
        else:
            c = [e for e in exprs if isinstance(e, ast.BinOp) and isinstance(e.op, (ast.Add, ast.Sub, ast.Mod, ast.Mult))]
            if c:
                e = rng.choice(c); e.op = rng.choice([ast.Add(), ast.Sub(), ast.Mult(), ast.Mod()])
    return fn.name

class ES(list):
    pass

def mkargs(fn, r):
    sig = names[fn][2]
    n1 = r.randint(0, 7); n2 = n1 if r.random() < 0.6 else r.randint(0, 7)
    perm = fn in ("cxPartialyMatched", "cxUniformPartialyMatched", "cxOrdered")
    args = []
    k = 0
    for p in sig:
        if p[0] in ("list", "es"):
            n = (n1, n2)[k % 2]; k += 1
            if perm and r.random() < 0.8:
                n = n1
                l = list(range(n)); r.shuffle(l)
            elif fn == "mutFlipBit":
                l = [r.randint(0, 1) for _ in range(n)]
            else:
                l = [r.randint(-2, 6) for _ in range(n)]
            if p[0] == "es":
                l = ES(l); l.strategy = [r.randint(10, 19) for _ in range(n)]
            args.append(l)
        elif p[0] == "Q":
            args.append(r.choice([0.0, 1.0, 0.5, 0.5, 0.25, 0.75]))
        else:
            n = len(args[0])
            if r.random() < 0.5:
                args.append(r.randint(-3, 3) + (3 if len(args) == 2 else 0))
            else:
                args.append([r.randint(-3, 0) + (4 if len(args) == 2 else 0) for _ in range(n + r.choice([0, 0, 1, -1]))])
    return args

def term(fn, before, args, log, status, res, ids):
    d = cdraws(log)
    i = cnatl(ids)
    if fn == "cxESTwoPoint":
        a, b = args
        obs = "(Ok ((%s, %s), (%s, %s)))" % (czl(a), czl(a.strategy), czl(b), czl(b.strategy)) if status == "ok" else cexn(res)
        (g1, s1), (g2, s2) = before
        return "CES %s %s %s %s %s %s %s" % (czl(g1), czl(s1), czl(g2), czl(s2), d, obs, i)
    sig = names[fn][2]
    nl = sum(1 for p in sig if p[0] == "list")
    if nl == 2:
        obs = "(Ok (%s, %s))" % (czl(args[0]), czl(args[1])) if status == "ok" else cexn(res)
        ctor = {"cxOnePoint": "COnePoint", "cxTwoPoint": "CTwoPoint", "cxUniform": "CUniform", "cxMessyOnePoint": "CMessy",
                "cxPartialyMatched": "CPMX", "cxUniformPartialyMatched": "CUPMX", "cxOrdered": "COrdered"}[fn]
        pb = " %s" % cq(Fraction(args[2])) if len(args) == 3 else ""
        return "%s %s %s%s %s %s %s" % (ctor, czl(before[0]), czl(before[1]), pb, d, obs, i)
    if fn == "mutFlipBit":
        obs = "(Ok %s)" % clist([cgene(x) for x in args[0]]) if status == "ok" else cexn(res)
        return "CFlip %s %s %s %s %s" % (clist([cgene(x) for x in before[0]]), cq(Fraction(args[1])), d, obs, i)
    obs = "(Ok %s)" % czl(args[0]) if status == "ok" else cexn(res)
    if fn == "mutShuffleIndexes":
        return "CShuffle %s %s %s %s %s" % (czl(before[0]), cq(Fraction(args[1])), d, obs, i)
    if fn == "mutUniformInt":
        return "CUniformInt %s %s %s %s %s %s %s" % (czl(before[0]), cbound(before[1]), cbound(before[2]), cq(Fraction(args[3])), d, obs, i)
    return "CInversion %s %s %s %s" % (czl(before[0]), d, obs, i)

CORRGEN = open(COQ + '/Corr/C09_gen.v').read().replace("From DV Require Import Gen.C09_gen.", "From Scr Require Import C09_gen.")

def one(job):
    it, fn, text, gen = job
    d = os.path.join(SCRATCH, str(it))
    shutil.rmtree(d, ignore_errors=True); os.makedirs(d)
    mod = types.ModuleType("mutmod%d" % it)
    try:
        exec(compile(text, "mut%d" % it, "exec"), mod.__dict__)
    except Exception as e:
        return it, fn, "module does not load: %r" % e, 0
    f = getattr(mod, fn)
    r = random.Random(it)
    terms, infos = [], []
    for c in range(40):
        args = mkargs(fn, r)
        if fn == "cxESTwoPoint":
            before = [(list(a), list(a.strategy)) for a in args]
        else:
            before = [list(a) if isinstance(a, list) else a for a in args]
        proxy = DrawProxy(None, r.randrange(10**9))
        mod.random = proxy
        try:
            with warnings.catch_warnings():
                warnings.simplefilter("ignore")
                res = f(*args); status = "ok"
        except Exception as e:
            res = type(e).__name__; status = "raise"
        objs = [a for a in args if isinstance(a, list) and not (fn == "mutUniformInt" and a is not args[0])]
        idmap = {}
        for x in objs: idmap.setdefault(id(x), len(idmap))
        ids = []
        if status == "ok":
            ids = [idmap.setdefault(id(x), len(idmap)) for x in res] if isinstance(res, tuple) else [99]
        if status == "raise" and res not in ("ValueError", "IndexError"):
            continue            # exceptions outside the model (TypeError, UnboundLocalError ...): the model says Mismatch by design
        try:
            terms.append(term(fn, before, args, proxy.log, status, res, ids))
            infos.append((before, proxy.log, status, res if status != "ok" else [list(a) for a in objs]))
        except Exception as e:      # values the literal printers cannot express (non-int results ...)
            terms.append(None); infos.append(("unprintable", repr(e)))
    open(d + '/C09_gen.v', 'w').write(gen)
    open(d + '/C09_corrgen.v', 'w').write(CORRGEN)
    keep = [(t, i) for t, i in zip(terms, infos) if t is not None]
    body = ("From Coq Require Import List ZArith QArith NArith Bool String.\nFrom DV Require Import Base.Corr Corr.C09.\n"
            "From Scr Require Import C09_corrgen.\nImport ListNotations.\nOpen Scope Z_scope.\nDefinition cases : list _ := [\n"
            + ";\n".join(t for t, _ in keep) + "\n].\nEval vm_compute in (failing check_gen cases).\n")
    open(d + '/cases.v', 'w').write(body)
    for fl in ("C09_gen.v", "C09_corrgen.v", "cases.v"):
        p = subprocess.run(['timeout', '300', 'coqc', '-Q', COQ, 'DV', '-Q', d, 'Scr', '-w', 'none', fl], cwd=d,
                           stdout=subprocess.PIPE, stderr=subprocess.STDOUT, text=True)
        if p.returncode != 0:
            return it, fn, "COQ ERROR in %s: %s" % (fl, p.stdout[-300:]), len(keep)
    import re
    m = re.search(r"=\s*(\[.*?\])\s*:\s*list N", p.stdout, re.S)
    bad = [int(x) for x in re.findall(r"(\d+)%N", m.group(1))]
    if not bad:
        shutil.rmtree(d, ignore_errors=True)
        return it, fn, None, len(keep)
    msgs = []
    for b in bad[:3]:
        msgs.append(repr(keep[b][1])[:400])
    return it, fn, "DISAGREE on %d/%d: %s" % (len(bad), len(keep), " || ".join(msgs)), len(keep)

jobs = []
for it in range(N):
    fname = rng.choice(T.FILES)
    tree = ast.parse(srcs[fname])
    fn = mutate(tree, fname)
    try:
        text = ast.unparse(ast.fix_missing_locations(tree))
    except Exception:
        continue
    s2 = dict(srcs); s2[fname] = text
    g, st = T.translate_sources(s2)
    if st[fn] is None:
        jobs.append((seed0 * 100000 + it, fn, text, g))
print("mutants", N, "accepted", len(jobs)); sys.stdout.flush()
tot = 0; nbad = 0
with ThreadPoolExecutor(5) as ex:
    for it, fn, msg, n in ex.map(one, jobs):
        tot += n
        if msg:
            nbad += 1
            print(it, fn, msg); sys.stdout.flush()
print("cases evaluated", tot, "mutants with a problem", nbad, "(kept under %s)" % SCRATCH if nbad else "")
if not nbad:
    shutil.rmtree(SCRATCH, ignore_errors=True)
