"""C03 — packaged evolutionary loops keep fitnesses, counts and logs truthful
(deap/algorithms.py eaSimple / eaMuPlusLambda / eaMuCommaLambda / eaGenerateUpdate, deap/gp.py harm).

Every case runs a real loop with recording operators.  From the recording
  * the property statement is evaluated directly (oracle(), independent of the Coq model), and
  * a Coq term of type DV.Corr.C03.case is printed: initial objects, the oracle answers observed
    (selection positions, objects returned by varAnd/varOr/generate, harm's event stream) and all
    observables; Corr.C03.check re-runs the model on the answers and compares.
"""
import copy
import random as pyrandom
from fractions import Fraction

from vlib import cz, czl, cnat, cnatl, cbool, clist, copt, cq, cfloat

# --------------------------------------------------------------------------------------------
# recording environment
# --------------------------------------------------------------------------------------------


class Rec(object):
    def __init__(self):
        self.keep = []      # keeps every object alive so id() is never reused
        self.ids = {}
        self.ev = []        # chronological event log
        self.len_on = False
        self.caller = None
        self.hof = None
        self.geno = list
        self.vs = 1          # fitness values are raw / vs (vs a power of two): the model sees the raw integers

    def uid(self, o):
        k = id(o)
        if k not in self.ids:
            self.ids[k] = len(self.keep)
            self.keep.append(o)
        return self.ids[k]


REC = Rec()


class quiet(object):
    """suspend the logging of len() calls (used inside every recording wrapper)"""

    def __enter__(self):
        self.old = REC.len_on
        REC.len_on = False

    def __exit__(self, *a):
        REC.len_on = self.old


def fitvals(ind):
    """fitness values of an individual as the raw integers of the model (None = invalid)"""
    if not ind.fitness.valid:
        return None
    out = []
    for v in ind.fitness.values:
        x = float(v) * REC.vs
        assert x == int(x), (v, REC.vs)
        out.append(int(x))
    return out


def describe(ind):
    return (REC.uid(ind), [int(x) for x in REC.geno(ind)], fitvals(ind))


def ev_pure(p, g):
    """the evaluation function in raw integers: depends on the genotype only (same formula as Corr.C03.ev_fun)"""
    a, b, m, two = p[0], p[1], p[2], p[3]
    off = p[4] if len(p) > 4 else 0
    s = sum((i + 1) * x for i, x in enumerate(g))
    out = [(a * s + b) % m + off]
    if two:
        out.append(len(g) - sum(g))
    return out


def to_values(raw, evtype="float"):
    """what the user's evaluate returns for the raw integers: raw / vs, in several Python/numpy types"""
    vs = REC.vs
    if evtype == "int" and vs == 1:
        return tuple(int(r) for r in raw)
    fl = [r / vs for r in raw]
    for r, f in zip(raw, fl):
        assert f * vs == r
    if evtype == "list":
        return fl
    if evtype == "npfloat":
        import numpy
        return tuple(numpy.float64(f) for f in fl)
    if evtype == "nparray":
        import numpy
        return numpy.array(fl, dtype=numpy.float64)
    return tuple(fl)


class DrawCap(Exception):
    pass


class RandomProxy(object):
    """stands for the name `random` inside deap.gp: random() is logged (and optionally scripted)"""

    def __init__(self, rng, grid=None, cap=200000):
        self._rng = rng
        self._grid = grid
        self._n = 0
        self._cap = cap

    def random(self):
        self._n += 1
        if self._n > self._cap:
            raise DrawCap()
        if not REC.len_on:
            return self._rng.random()      # a draw made inside an operator (mate / mutate / select): not a draw site of harm
        if self._grid is not None:
            u = self._rng.choice(self._grid)
        else:
            u = self._rng.random()
        REC.ev.append(("draw", u))
        return u

    def __getattr__(self, name):
        return getattr(self._rng, name)


# --------------------------------------------------------------------------------------------
# running one case on the implementation
# --------------------------------------------------------------------------------------------
def make_fitness(base, w, wscale=1):
    return type("C03Fit", (base.Fitness,), {"weights": tuple(float(x) / wscale for x in w)})


def make_list_ind(Fit):
    class Ind(list):
        def __init__(self, it=()):
            list.__init__(self, it)
            self.fitness = Fit()

        def __len__(self):
            if REC.len_on:
                REC.ev.append(("len", REC.uid(self)))
            return list.__len__(self)
    return Ind


def wrap_select(inner, is_best=False):
    def select(individuals, k):
        with quiet():
            arg = [REC.uid(i) for i in individuals]
            res = inner(individuals, k)
            idxs = []
            for r in res:
                j = len(individuals)
                for jj, x in enumerate(individuals):
                    if x is r:
                        j = jj
                        break
                idxs.append(j)
            REC.ev.append(("select", arg, k, idxs, is_best))
        return res
    return select


def wrap_evaluate(p, evtype="float"):
    def evaluate(ind):
        with quiet():
            g = [int(x) for x in REC.geno(ind)]
            REC.ev.append(("evaluate", REC.uid(ind), g))
            return to_values(ev_pure(p, g), evtype)
    return evaluate


def wrap_clone():
    def clone(x):
        with quiet():
            y = copy.deepcopy(x)
            REC.ev.append(("clone", REC.uid(x), REC.uid(y)))
        return y
    return clone


def wrap_mate(inner):
    def mate(a, b):
        with quiet():
            ia, ib = REC.uid(a), REC.uid(b)
            o1, o2 = inner(a, b)
            REC.ev.append(("mate", ia, ib, describe(o1)[:2], describe(o2)[:2]))
        return o1, o2
    return mate


def wrap_mutate(inner):
    def mutate(a):
        with quiet():
            ia = REC.uid(a)
            out = inner(a)
            REC.ev.append(("mutate", ia, describe(out[0])[:2]))
        return out
    return mutate


# ---- recording for the COMPOSED model (Corr/C03_Full.v): draws of deap.algorithms' `random`, operator script ----
class AlgoRandom(object):
    """stands for the name `random` inside deap.algorithms: every call is a draw of the composed model.
    random() values are logged bit-exactly (a share of them is taken from `edge`, the values the code compares
    with); sample / choice are answered and logged by POSITION, and raise what CPython's raise."""

    def __init__(self, rng, log, edge):
        self._rng = rng
        self._log = log
        self._edge = edge

    def random(self):
        if self._edge and self._rng.random() < 0.3:
            u = self._rng.choice(self._edge)
        else:
            u = self._rng.random()
        self._log.append(("R", u))
        return u

    def sample(self, population, k):
        n = len(population)
        if not 0 <= k <= n:
            raise ValueError("Sample larger than population or is negative")
        idx = self._rng.sample(range(n), k)
        assert k == 2
        self._log.append(("S", n, idx[0], idx[1]))
        return [population[i] for i in idx]

    def choice(self, seq):
        if not len(seq):
            raise IndexError("Cannot choose from an empty sequence")
        i = self._rng.randrange(len(seq))
        self._log.append(("C", len(seq), i))
        return seq[i]

    def __getattr__(self, name):
        return getattr(self._rng, name)


def full_ret(FR, r, a, b):
    """how the model describes a returned object: first / second argument, or a NEW object (numbered now,
    in the order the model allocates: first result, then second)"""
    if r is a:
        return ("A1",)
    if b is not None and r is b:
        return ("A2",)
    if id(r) in REC.ids:
        FR["bad"] = "an operator returned an object that is neither an argument nor new"
    d = describe(r)
    return ("N", d[1], d[2])


def full_mate(inner, FR):
    def mate(a, b):
        with quiet():
            ia, ib = describe(a), describe(b)
            o1, o2 = inner(a, b)
            oa, ob = describe(a), describe(b)
            r1 = full_ret(FR, o1, a, b)
            r2 = full_ret(FR, o2, a, b)
            if o1 is o2:
                FR["bad"] = "mate returned one object twice"
            FR["script"].append(("mate", ia[1:], ib[1:], oa[1:], ob[1:], r1, r2))
        return o1, o2
    return mate


def full_mutate(inner, FR):
    def mutate(a):
        with quiet():
            ia = describe(a)
            out = inner(a)
            oa = describe(a)
            FR["script"].append(("mutate", ia[1:], oa[1:], full_ret(FR, out[0], a, None)))
        return out
    return mutate


def make_stats(tools, variant="snap"):
    class SnapStats(tools.Statistics):
        def compile(self, data):
            with quiet():
                REC.ev.append(("stats_data", data is REC.caller))
                return super(SnapStats, self).compile(data)

    def snapfunc(values):
        with quiet():
            snap = [describe(i) for i in values]
            csnap = None if REC.caller is None else [describe(i) for i in REC.caller]
            best = None
            if REC.hof is not None and len(REC.hof.items) > 0:
                best = fitvals(REC.hof[0])
            REC.ev.append(("stats", snap, csnap, best))
            return len(snap)
    st = SnapStats()
    st.register("snap", snapfunc)
    if variant == "multi":
        # the snapshotting object as one chapter of a MultiStatistics, beside an ordinary one
        other = tools.Statistics(key=lambda ind: len(list(REC.geno(ind))))
        other.register("maxsize", lambda v: max(v) if v else 0)
        return tools.MultiStatistics(a=st, b=other)
    return st


def make_hof(tools, maxsize, variant="hof", similar=None):
    base_cls = tools.ParetoFront if variant == "pareto" else tools.HallOfFame

    class RecHof(base_cls):
        def update(self, population):
            with quiet():
                REC.ev.append(("hof", [REC.uid(i) for i in population],
                               [bool(i.fitness.valid) for i in population]))
                return super(RecHof, self).update(population)
    kw = {} if similar is None else {"similar": similar}
    return RecHof(**kw) if variant == "pareto" else RecHof(maxsize, **kw)


CREATOR_COUNT = [0]


def run_impl(cfg):
    """Run one configuration (one or several successive legs on the same objects) on the implementation.
    Returns a list of (leg configuration, observation dict); an observation may be {'raised': ..} / {'skipped': ..}."""
    global REC
    import contextlib
    import io
    from deap import algorithms, base, tools, gp, creator
    REC = Rec()
    REC.vs = cfg.get("vs", 1)
    w = cfg["weights"]
    p = tuple(cfg["evp"])
    Fit = make_fitness(base, w, cfg.get("wscale", 1))
    rng = pyrandom.Random(cfg["seed"])
    pyrandom.seed(cfg["seed"] + 1)            # the global generator used by real operators
    legs = [cfg] + [dict(cfg, **leg) for leg in cfg.get("legs", [])]
    any_harm = any(l["kind"] == "harm" for l in legs)
    tb = base.Toolbox()
    tb.register("evaluate", wrap_evaluate(p, cfg.get("evtype", "float")))
    if cfg.get("map") == "eager":
        tb.register("map", lambda f, xs: [f(x) for x in xs])     # an order preserving map that is not lazy
    elif cfg.get("map") == "chunked":
        # evaluates in two chunks (as a pool would) but returns the results in submission order
        def cmap(f, xs):
            xs = list(xs)
            h = len(xs) // 2
            second = [f(x) for x in xs[h:]]
            first = [f(x) for x in xs[:h]]
            return first + second
        tb.register("map", cmap)
    tree_mode = cfg.get("tree", False)
    container = cfg.get("container", "plain")
    similar = None
    if tree_mode:
        pset, codes = cfg["_pset"], cfg["_codes"]
        REC.geno = lambda ind: [codes[n.name] for n in list.__iter__(ind)]

        class Tree(gp.PrimitiveTree):
            def __init__(self, content):
                gp.PrimitiveTree.__init__(self, content)
                self.fitness = Fit()

            def __len__(self):
                if REC.len_on:
                    REC.ev.append(("len", REC.uid(self)))
                return list.__len__(self)
        Ind = Tree
    elif container == "plain":
        REC.geno = lambda ind: list(list.__iter__(ind))
        Ind = make_list_ind(Fit)
    else:
        # the usual route: classes made by deap.creator (list / array.array typecode 'b' / numpy int8)
        import array
        import numpy
        CREATOR_COUNT[0] += 1
        fname, iname = "C03F%d" % CREATOR_COUNT[0], "C03I%d" % CREATOR_COUNT[0]
        creator.create(fname, base.Fitness, weights=Fit.weights)
        REC.geno = lambda ind: [int(x) for x in ind]
        if container == "creator_list":
            creator.create(iname, list, fitness=getattr(creator, fname))
            Ind = getattr(creator, iname)
        elif container == "creator_array_b":
            creator.create(iname, array.array, typecode="b", fitness=getattr(creator, fname))
            Ind = getattr(creator, iname)
        else:
            creator.create(iname, numpy.ndarray, fitness=getattr(creator, fname))
            cls = getattr(creator, iname)
            Ind = lambda g: cls(numpy.array(list(g), dtype=numpy.int8))  # noqa
            similar = numpy.array_equal

    # ---- operators ----
    STYLES = ("inplace", "functional", "swapped", "fresh")

    def style():
        st = cfg.get("opstyle", "inplace")
        return rng.choice(STYLES) if st == "mixed" else st

    def bump(x):
        # make sure the genotype really changes (a stale fitness must be visible)
        if len(list(x)) > 0:
            x[0] = (x[0] + 1) % 4
        else:
            x.append(1)

    def s_mate(a, b):
        # scripted crossover: exchange tails.
        #   inplace    : modifies its arguments and returns them
        #   swapped    : modifies its arguments and returns them in the other order
        #   functional : leaves its arguments alone and returns modified deep copies, which still carry
        #                the (now stale) fitness of the arguments -- the caller must invalidate the RETURNED objects
        #   fresh      : modifies its arguments and returns brand new objects with an unset fitness
        st = style()
        if st == "functional":
            a, b = copy.deepcopy(a), copy.deepcopy(b)
        k = rng.randint(0, 3)
        ta, tb_ = list(a)[k:], list(b)[k:]
        a[k:], b[k:] = tb_, ta
        bump(a)
        bump(b)
        if st == "swapped":
            return b, a
        if st == "fresh":
            return Ind(list(a)), Ind(list(b))
        return a, b

    def s_mutate(a):
        st = style()
        if st == "functional":
            a = copy.deepcopy(a)
        r = rng.random()
        if r < 0.4 or len(list(a)) == 0:
            a.append(rng.randint(0, 3))
        elif r < 0.6 and len(list(a)) > 1:
            a.pop()
        else:
            bump(a)
        if st == "fresh":
            return Ind(list(a)),
        return a,

    def cx_two_point_copy(ind1, ind2):
        # the crossover recommended for numpy individuals (slices are views: copy before swapping)
        size = len(ind1)
        c1, c2 = sorted(rng.sample(range(size + 1), 2))
        ind1[c1:c2], ind2[c1:c2] = ind2[c1:c2].copy(), ind1[c1:c2].copy()
        return ind1, ind2

    ops = cfg.get("ops", "scripted")
    if tree_mode:
        tb.register("expr", gp.genHalfAndHalf, pset=pset, min_=1, max_=3)
        tb.register("expr_mut", gp.genFull, min_=0, max_=2)
        mate_in = gp.cxOnePoint
        mut_in = lambda ind: gp.mutUniform(ind, expr=tb.expr_mut, pset=pset)  # noqa
    elif container == "creator_numpy_int8":
        mate_in = cx_two_point_copy
        mut_in = lambda ind: tools.mutFlipBit(ind, indpb=0.3)  # noqa
    elif ops == "real" or container == "creator_array_b":
        mate_in = tools.cxTwoPoint
        mut_in = lambda ind: tools.mutFlipBit(ind, indpb=0.3)  # noqa
    else:
        mate_in, mut_in = s_mate, s_mutate
    # composed-model recording: a single leg of eaSimple / eaMuPlusLambda / eaMuCommaLambda on list-like genotypes
    full = bool(cfg.get("full")) and not cfg.get("legs") and cfg["kind"] in ("simple", "plus", "comma") and not tree_mode
    FR = {"draws": [], "script": [], "bad": None}
    if any_harm:
        tb.register("mate", wrap_mate(mate_in))
        tb.register("mutate", wrap_mutate(mut_in))
        tb.register("clone", wrap_clone())
    elif full:
        tb.register("mate", full_mate(mate_in, FR))
        tb.register("mutate", full_mutate(mut_in, FR))
        tb.register("clone", wrap_clone())
    else:
        tb.register("mate", mate_in)
        tb.register("mutate", mut_in)

    def register_select(selname):
        if selname == "best":
            sel_in = tools.selBest
        elif selname == "tournament":
            sel_in = lambda inds, k: tools.selTournament(inds, k, tournsize=2)  # noqa
        elif selname == "firstk":
            sel_in = lambda inds, k: list(inds[:k])  # noqa
        elif selname == "lastk":
            sel_in = lambda inds, k: list(reversed(inds))[:k]  # noqa
        elif selname == "identity":
            # hands back the very list it was given when everything is requested
            sel_in = lambda inds, k: inds if k == len(inds) else list(inds[:k])  # noqa
        elif selname == "tuple":
            sel_in = lambda inds, k: tuple(inds[:k])  # noqa
        else:
            sel_in = lambda inds, k: [inds[rng.randrange(len(inds))] for _ in range(k)]  # noqa
        tb.register("select", wrap_select(sel_in, selname == "best"))

    def new_ind(g, pre):
        ind = Ind(g)
        if pre:
            ind.fitness.values = to_values(ev_pure(p, [int(x) for x in REC.geno(ind)]), cfg.get("evtype", "float"))
            if not ind.fitness.valid:
                raise ValueError("a fitness is not valid right after the values returned by the evaluation function were assigned "
                                 "(%r)" % (to_values(ev_pure(p, [int(x) for x in REC.geno(ind)]), cfg.get("evtype", "float")),))
        return ind

    # ---- initial population ----
    pop = []
    if cfg["kind"] != "gu":
        if tree_mode:
            for i in range(cfg["n"]):
                pop.append(new_ind(tb.expr(), cfg["preeval"][i]))
        else:
            for i, g in enumerate(cfg["genos"]):
                pop.append(new_ind(g, cfg["preeval"][i]))
        for (i, j) in cfg.get("alias", []):      # the same (valid) object listed twice
            pop[j] = pop[i]
    stats = make_stats(tools, cfg.get("stats_variant", "snap")) if cfg.get("stats", True) else None

    def fresh_hof():
        return make_hof(tools, cfg.get("hofsize", 1), cfg.get("hof_variant", "hof"), similar) if cfg.get("hof", True) else None
    hof = fresh_hof()
    REC.hof = hof

    generated = []
    gu_state = {"sizes": [], "k": 0}

    def generate():
        with quiet():
            k = gu_state["sizes"][gu_state["k"]]
            gu_state["k"] += 1
            out = []
            for _ in range(k):
                ind = Ind([rng.randint(0, 3) for _ in range(rng.randint(1, 4))])
                if rng.random() < cfg.get("gu_stale", 0.0):
                    # an individual that already carries a (stale) fitness must be evaluated all the same
                    ind.fitness.values = to_values([v + 1 for v in ev_pure(p, list(ind))])
                out.append(ind)
            generated.append(out)
            REC.ev.append(("generate", [describe(i) for i in out]))
            return out

    def update(population):
        with quiet():
            REC.ev.append(("update", [REC.uid(i) for i in population], population is generated[-1]))
    tb.register("generate", generate)
    tb.register("update", update)

    # ---- variation wrappers (module globals of deap.algorithms) ----
    orig_and, orig_or = algorithms.varAnd, algorithms.varOr

    def var_and(population, toolbox, cxpb, mutpb):
        inp = [REC.uid(i) for i in population]
        out = orig_and(population, toolbox, cxpb, mutpb)
        REC.ev.append(("var", inp, [describe(o) for o in out]))
        return out

    def var_or(population, toolbox, lambda_, cxpb, mutpb):
        inp = [REC.uid(i) for i in population]
        out = orig_or(population, toolbox, lambda_, cxpb, mutpb)
        REC.ev.append(("var", inp, [describe(o) for o in out]))
        return out

    def marker_sorted(*a, **k):
        with quiet():
            REC.ev.append(("sorted",))
            return sorted(*a, **k)

    def caller_actions(acts):
        """what a caller may do to its own population between two runs"""
        for act in acts:
            if act[0] == "invalidate" and pop:
                ind = pop[act[1] % len(pop)]
                if len([x for x in pop if x is ind]) > 1:
                    continue            # an unevaluated object listed twice is the known finding: not generated here
                with quiet():
                    if tree_mode or container == "creator_numpy_int8" or container == "creator_array_b":
                        pass                # keep the genotype, just drop the fitness
                    else:
                        bump(ind)
                del ind.fitness.values
            elif act[0] == "immigrant":
                pop.append(new_ind(tb.expr() if tree_mode else act[1], act[2]))
            elif act[0] == "drop" and len(pop) > 2:
                pop.pop(act[1] % len(pop))
            elif act[0] == "replace" and pop:
                pop[act[1] % len(pop)] = new_ind(tb.expr() if tree_mode else act[2], False)

    results = []
    out_sink = io.StringIO()
    for li, leg in enumerate(legs):
        kind = leg["kind"]
        if li > 0:
            with quiet():
                caller_actions(leg.get("caller_ops", []))
            if leg.get("fresh_hof", True):
                hof = fresh_hof()
                REC.hof = hof
        register_select(leg.get("sel", "random"))
        with quiet():
            objs = [describe(i) for i in pop]
        pop_uids = [o[0] for o in objs]
        seen = set()
        objs = [o for o in objs if not (o[0] in seen or seen.add(o[0]))]
        REC.caller = pop if kind != "gu" else None
        ev0 = len(REC.ev)
        ngen = leg["ngen"]
        ngenerated0 = len(generated)
        if kind == "gu":
            gu_state["sizes"], gu_state["k"] = leg["gu_sizes"], 0
        verbose = bool(leg.get("verbose", False))
        algorithms.varAnd, algorithms.varOr = var_and, var_or
        old_gp_random = gp.random
        gp.random = RandomProxy(pyrandom.Random(cfg["seed"] + 2 + li), leg.get("grid"))
        gp.sorted = marker_sorted
        old_alg_random = algorithms.random
        if full:
            cx_, mu_ = float(leg["cxpb"]), float(leg["mutpb"])
            algorithms.random = AlgoRandom(pyrandom.Random(cfg["seed"] + 77), FR["draws"], cfg.get("edge", [cx_, mu_, cx_ + mu_]))
        try:
            try:
                with contextlib.redirect_stdout(out_sink):
                    if kind == "simple":
                        ret = algorithms.eaSimple(pop, tb, leg["cxpb"], leg["mutpb"], ngen, stats=stats, halloffame=hof, verbose=verbose)
                    elif kind == "plus":
                        ret = algorithms.eaMuPlusLambda(pop, tb, leg["mu"], leg["lam"], leg["cxpb"], leg["mutpb"], ngen,
                                                        stats=stats, halloffame=hof, verbose=verbose)
                    elif kind == "comma":
                        ret = algorithms.eaMuCommaLambda(pop, tb, leg["mu"], leg["lam"], leg["cxpb"], leg["mutpb"], ngen,
                                                         stats=stats, halloffame=hof, verbose=verbose)
                    elif kind == "gu":
                        ret = algorithms.eaGenerateUpdate(tb, ngen, halloffame=hof, stats=stats, verbose=verbose)
                    else:
                        REC.len_on = True
                        ret = gp.harm(pop, tb, leg["cxpb"], leg["mutpb"], ngen, alpha=leg["alpha"], beta=leg["beta"],
                                      gamma=leg["gamma"], rho=leg["rho"], nbrindsmodel=leg["nbr"], mincutoff=leg["mincutoff"],
                                      stats=stats, halloffame=hof, verbose=verbose)
            finally:
                REC.len_on = False
                algorithms.varAnd, algorithms.varOr = orig_and, orig_or
                algorithms.random = old_alg_random
                gp.random = old_gp_random
                del gp.sorted
        except DrawCap:
            results.append((leg, {"skipped": "draw cap reached (acceptance loop did not terminate within the cap)"}))
            break
        except Exception as e:  # noqa
            results.append((leg, {"raised": type(e).__name__ + ": " + str(e)[:200], "raised_type": type(e).__name__,
                                  "objs": objs, "pop0": pop_uids, "events": REC.ev[ev0:], "full": FR if full else None}))
            break
        rpop, logbook = ret
        mine = generated[ngenerated0:]
        obs = {"objs": objs, "pop0": pop_uids, "events": REC.ev[ev0:],
               "ret_is_caller": (rpop is pop) if kind != "gu" else None,
               "final": [describe(i) for i in rpop],
               "caller_final": [describe(i) for i in pop],
               "log_gen": list(logbook.select("gen")), "log_nevals": list(logbook.select("nevals")),
               "hof_final": None if hof is None or len(hof.items) == 0 else fitvals(hof[0]),
               "hof_all": None if hof is None else [fitvals(h) for h in hof.items],
               "printed": len(out_sink.getvalue()),
               "fresh_hof": li == 0 or leg.get("fresh_hof", True), "full": FR if full else None,
               "gu_ret_is_last": (kind == "gu") and ((ngen == 0 and list(rpop) == [] and not mine) or
                                                     (ngen > 0 and bool(mine) and rpop is mine[-1]))}
        results.append((leg, obs))
    return results


# --------------------------------------------------------------------------------------------
# splitting the event log per generation
# --------------------------------------------------------------------------------------------
def split_generations(obs):
    gens, cur = [], []
    for e in obs["events"]:
        cur.append(e)
        if e[0] == "stats":
            gens.append(cur)
            cur = []
    return gens, cur


def wkey(w, f):
    return tuple(a * b for a, b in zip(f, w))


# --------------------------------------------------------------------------------------------
# the property statement evaluated on the recording (independent of the Coq model)
# --------------------------------------------------------------------------------------------
def oracle(cfg, obs, carry=None):
    """returns a list of violation descriptions.  carry: what a hall of fame shared with earlier legs was shown"""
    bad = []
    kind, ngen, w, p = cfg["kind"], cfg["ngen"], cfg["weights"], tuple(cfg["evp"])
    gens, rest = split_generations(obs)
    nrec = ngen if kind == "gu" else ngen + 1
    # logbook: one record per generation, in order
    want_gens = list(range(ngen)) if kind == "gu" else list(range(ngen + 1))
    if obs["log_gen"] != want_gens:
        bad.append("logbook gens %r, expected %r" % (obs["log_gen"], want_gens))
    if len(gens) != nrec:
        bad.append("statistics compiled %d times, expected %d" % (len(gens), nrec))
        return bad
    if any(e[0] in ("evaluate", "hof", "select", "var") for e in rest):
        bad.append("operator calls after the last record")
    n0 = len(obs["pop0"])
    if carry is None:
        carry = {"shown": set(), "best_seen": []}
    shown = carry["shown"]
    best_seen = carry["best_seen"]    # every fitness the logbook's statistics saw, every evaluated fitness
    state = {u: (g, f) for (u, g, f) in obs["objs"]}
    prev_snap = None
    for gi, evs in enumerate(gens):
        gen = want_gens[gi]
        calls = [(e[1], e[2]) for e in evs if e[0] == "evaluate"]
        hofb = [e for e in evs if e[0] == "hof"]
        stats_e = [e for e in evs if e[0] == "stats"][0]
        sdata = [e for e in evs if e[0] == "stats_data"]
        snap, csnap, hbest = stats_e[1], stats_e[2], stats_e[3]
        # (1) every individual valid, fitness == evaluate(genotype)
        for (u, g, f) in snap:
            if f is None:
                bad.append("gen %d: individual %d has no valid fitness at the boundary" % (gen, u))
            elif f != ev_pure(p, g):
                bad.append("gen %d: individual %d carries fitness %r but evaluate(genotype)=%r" % (gen, u, f, ev_pure(p, g)))
        # (2) evaluate called exactly once for each new/changed individual, for no other; nevals
        if kind == "gu":
            expect = [(u, g) for (u, g, f) in [e for e in evs if e[0] == "generate"][0][1]]
        elif gi == 0:
            expect = [(u, state[u][0]) for u in obs["pop0"] if state[u][1] is None]
        elif kind == "harm":
            varied = {}
            for e in evs:
                if e[0] == "mate":
                    varied[e[3][0]] = e[3][1]
                    varied[e[4][0]] = e[4][1]
                elif e[0] == "mutate":
                    varied[e[2][0]] = e[2][1]
            expect = [(u, g) for (u, g, f) in snap if u in varied]
        else:
            var = [e for e in evs if e[0] == "var"]
            if len(var) != 1:
                bad.append("gen %d: variation called %d times" % (gen, len(var)))
                expect = []
            else:
                expect = [(u, g) for (u, g, f) in var[0][2] if f is None]
        if cfg.get("map") == "chunked":
            # a map that schedules the calls differently: only "exactly once each, no other" is claimed
            calls, expect = sorted(calls), sorted(expect)
        if calls != expect:
            bad.append("gen %d: evaluate was called on %r, the new/changed individuals are %r" % (gen, calls, expect))
        if len(set(u for u, _ in calls)) != len(calls):
            bad.append("gen %d: an individual was evaluated more than once" % gen)
        if gi < len(obs["log_nevals"]) and obs["log_nevals"][gi] != len(calls):
            bad.append("gen %d: logbook nevals=%r but evaluate was called %d times" % (gen, obs["log_nevals"][gi], len(calls)))
        # (3) the statistics saw the caller's list object; sizes
        if kind != "gu":
            if not all(e[1] for e in sdata) or csnap != snap:
                bad.append("gen %d: the caller's list is not the population of this boundary" % gen)
            if kind in ("simple", "harm"):
                want = n0
            else:
                want = n0 if gi == 0 else cfg["mu"]
            if len(csnap) != want:
                bad.append("gen %d: population size %d, prescribed %d" % (gen, len(csnap), want))
        # (4) hall of fame was shown every evaluated individual (after its evaluation)
        if cfg.get("hof", True):
            for e in hofb:
                if not all(e[2]):
                    bad.append("gen %d: hall of fame updated with unevaluated individuals" % gen)
                shown.update(e[1])
            for (u, g) in calls:
                if u not in shown:
                    bad.append("gen %d: evaluated individual %d never passed to the hall of fame" % (gen, u))
            for (u, g, f) in snap:
                if u not in shown:
                    bad.append("gen %d: population member %d never passed to the hall of fame" % (gen, u))
            best_seen.extend([f for (u, g, f) in snap if f is not None] + [ev_pure(p, g) for (u, g) in calls])
            for f in best_seen:
                if hbest is None or wkey(w, hbest) < wkey(w, f):
                    bad.append("gen %d: hall of fame best %r is worse than logged fitness %r" % (gen, hbest, f))
                    break
        # (5) mu+lambda with truncation selection is elitist
        if kind == "plus" and cfg.get("sel") == "best" and prev_snap and snap and gi > 0 and cfg["mu"] >= 1:
            b0 = max(wkey(w, f) for (u, g, f) in prev_snap if f is not None)
            fs = [wkey(w, f) for (u, g, f) in snap if f is not None]
            if not fs or max(fs) < b0:
                bad.append("gen %d: best fitness got worse under mu+lambda with selBest" % gen)
        prev_snap = snap
    # (6) returned object
    if kind == "gu":
        if not obs["gu_ret_is_last"]:
            bad.append("returned population is not the last generated one")
    else:
        if not obs["ret_is_caller"]:
            bad.append("returned population is not the caller's list object")
        if obs["final"] != obs["caller_final"] or (gens and obs["caller_final"] != gens[-1][-1][2]):
            bad.append("caller's list after the run differs from the last boundary")
    if cfg.get("hof", True) and best_seen:
        hb = obs["hof_final"]
        if hb is None or any(wkey(w, hb) < wkey(w, f) for f in best_seen):
            bad.append("final hall of fame best %r is worse than a logged fitness" % (hb,))
    return bad


def oracle_nostats(cfg, obs):
    """stats=None: no boundary snapshots; what remains observable of the statement"""
    bad = []
    kind, ngen, p = cfg["kind"], cfg["ngen"], tuple(cfg["evp"])
    want_gens = list(range(ngen)) if kind == "gu" else list(range(ngen + 1))
    if obs["log_gen"] != want_gens:
        bad.append("logbook gens %r, expected %r" % (obs["log_gen"], want_gens))
    ncalls = len([e for e in obs["events"] if e[0] == "evaluate"])
    if sum(obs["log_nevals"]) != ncalls:
        bad.append("sum of nevals %r but evaluate was called %d times" % (obs["log_nevals"], ncalls))
    for (u, g, f) in obs["final"]:
        if f is None or f != ev_pure(p, g):
            bad.append("final individual %d carries fitness %r but evaluate(genotype)=%r" % (u, f, ev_pure(p, g)))
    if kind != "gu":
        if not obs["ret_is_caller"] or obs["final"] != obs["caller_final"]:
            bad.append("returned population is not the caller's list object")
        want = len(obs["pop0"]) if kind in ("simple", "harm") or ngen == 0 else cfg["mu"]
        if len(obs["final"]) != want:
            bad.append("final population size %d, prescribed %d" % (len(obs["final"]), want))
    elif not obs["gu_ret_is_last"]:
        bad.append("returned population is not the last generated one")
    return bad


# --------------------------------------------------------------------------------------------
# Coq terms
# --------------------------------------------------------------------------------------------
def cind(g, f):
    return "(mkind %s %s)" % (czl(g), copt(f, czl))


def cobj(o):
    return "(%s, %s)" % (cnat(o[0]), cind(o[1], o[2]))


def csnap(snap):
    return clist(["(%s, Some %s)" % (cnat(u), cind(g, f)) for (u, g, f) in snap])


def cug(u, g):
    return "(%s, %s)" % (cnat(u), czl(g))


def cevp(p):
    return "(mkevp %s %s %s %s %s)" % (cz(p[0]), cz(p[1]), cz(p[2]), cbool(p[3]), cz(p[4] if len(p) > 4 else 0))


def common_observables(cfg, obs, gens):
    calls = clist([clist([cug(e[1], e[2]) for e in evs if e[0] == "evaluate"]) for evs in gens])
    recs = []
    for gi, evs in enumerate(gens):
        st = [e for e in evs if e[0] == "stats"][0]
        recs.append("(mkrec %s %s %s %s)" % (cnat(obs["log_gen"][gi]), cnat(obs["log_nevals"][gi]), csnap(st[1]), copt(st[3], czl)))
    shown = clist([cnatl(e[1]) for evs in gens for e in evs if e[0] == "hof"])
    final = cnatl([o[0] for o in obs["final"]])
    return calls, clist(recs), shown, final


def harm_events(evs, offspring_uids):
    """event stream of one harm generation in the vocabulary of the model"""
    out = []
    body = [e for e in evs if e[0] in ("draw", "select", "clone", "mate", "mutate", "len", "sorted")]
    phase2 = False
    i = 0
    while i < len(body):
        e = body[i]
        if e[0] == "sorted":
            phase2 = True
        elif e[0] == "len":
            if phase2 and i + 1 < len(body) and body[i + 1][0] == "draw":
                out.append("EAccept %s %s" % (cnat(e[1]), cbool(e[1] in offspring_uids)))
                i += 1
        elif e[0] == "draw":
            out.append("EDraw %s" % cq(Fraction(e[1])))
        elif e[0] == "select":
            out.append("ESelect %s %s %s" % (cnatl(e[1]), cnat(e[2]), cnatl(e[3])))
        elif e[0] == "clone":
            out.append("EClone %s %s" % (cnat(e[1]), cnat(e[2])))
        elif e[0] == "mate":
            out.append("EMate %s %s %s %s" % (cnat(e[1]), cnat(e[2]), cug(*e[3]), cug(*e[4])))
        elif e[0] == "mutate":
            out.append("EMutate %s %s" % (cnat(e[1]), cug(*e[2])))
        i += 1
    return clist(out)


def coq_term(cfg, obs):
    kind = cfg["kind"]
    gens, _ = split_generations(obs)
    calls, recs, shown, final = common_observables(cfg, obs, gens)
    objs = clist([cobj(o) for o in obs["objs"]])
    if kind == "harm":
        gl = []
        for evs in gens[1:]:
            st = [e for e in evs if e[0] == "stats"][0]
            gl.append(harm_events(evs, set(u for (u, g, f) in st[1])))
        return "CHarm %s %s %s %s %s %s %s %s %s %s %s %s %s %s" % (
            cnat(cfg["ngen"]), cevp(cfg["evp"]), czl(cfg["weights"]), cq(Fraction(cfg["cxpb"])), cq(Fraction(cfg["mutpb"])), cz(cfg["nbr"]),
            objs, cnatl(obs["pop0"]), clist(gl), calls, recs, shown, final, cbool(obs["ret_is_caller"]))
    ogs = []
    for evs in (gens if kind == "gu" else gens[1:]):
        if kind == "gu":
            gen_e = [e for e in evs if e[0] == "generate"][0]
            upd = [e for e in evs if e[0] == "update"][0]
            ogs.append("(mkog %s 0%%nat [] false [] %s)" % (cnatl(upd[1]), clist([cobj(o) for o in gen_e[1]])))
        else:
            sel = [e for e in evs if e[0] == "select"][0]
            var = [e for e in evs if e[0] == "var"][0]
            ogs.append("(mkog %s %s %s %s %s %s)" % (cnatl(sel[1]), cnat(sel[2]), cnatl(sel[3]), cbool(sel[4]),
                                                     cnatl(var[1]), clist([cobj(o) for o in var[2]])))
    k = {"simple": "KSimple", "plus": "KPlus", "comma": "KComma", "gu": "KGU"}[kind]
    inplace = obs["gu_ret_is_last"] if kind == "gu" else obs["ret_is_caller"]
    return "CLoop %s %s %s %s %s %s %s %s %s %s %s %s %s %s" % (
        k, cnat(cfg["ngen"]), cevp(cfg["evp"]), czl(cfg["weights"]), cnat(cfg.get("mu", 0)), cnat(cfg.get("lam", 0)),
        objs, cnatl(obs["pop0"]), clist(ogs), calls, recs, shown, final, cbool(inplace))


# ---- term for the composed model (Corr/C03_Full.v) ----
def cobjc(c):
    return "(%s, %s)" % (czl(c[0]), copt(c[1], czl))


def cdraw(d):
    if d[0] == "R":
        return "dR %s" % cfloat(d[1])
    if d[0] == "S":
        return "dS %s %s %s" % (cnat(d[1]), cnat(d[2]), cnat(d[3]))
    return "dC %s %s" % (cnat(d[1]), cnat(d[2]))


def cret(r, one=False):
    if r[0] == "A1":
        return "uA" if one else "rA1"
    if r[0] == "A2":
        return "rA2"
    return "(%s %s)" % ("uN" if one else "rN", cobjc(r[1:]))


def cop(e):
    if e[0] == "mate":
        return "OMate %s %s %s %s %s %s" % (cobjc(e[1]), cobjc(e[2]), cobjc(e[3]), cobjc(e[4]), cret(e[5]), cret(e[6]))
    return "OMut %s %s %s" % (cobjc(e[1]), cobjc(e[2]), cret(e[3], one=True))


def full_head(cfg, obs):
    k = {"simple": "FSimple", "plus": "FPlus", "comma": "FComma"}[cfg["kind"]]
    objs = obs["objs"]
    assert [o[0] for o in objs] == list(range(len(objs))), objs
    fr = obs["full"]
    return k, "%s %s %s %s %s %s %s %s %s %s" % (
        cevp(cfg["evp"]), czl(cfg["weights"]), cnat(cfg.get("mu", 0)), cz(cfg.get("lam", 0)),
        cfloat(cfg["cxpb"]), cfloat(cfg["mutpb"]), clist([cobjc(o[1:]) for o in objs]), cnatl(obs["pop0"]),
        clist([cdraw(d) for d in fr["draws"]]), clist([cop(e) for e in fr["script"]]))


def csel(e):
    return "(mkos %s %s %s)" % (cnatl(e[1]), cnat(e[2]), cnatl(e[3]))


def coq_term_full(cfg, obs):
    gens, _ = split_generations(obs)
    calls, recs, shown, final = common_observables(cfg, obs, gens)
    k, head = full_head(cfg, obs)
    sels = [csel([e for e in evs if e[0] == "select"][0]) for evs in gens[1:]]
    return "CFull %s %s %s %s %s %s %s %s %s" % (k, cnat(cfg["ngen"]), head, clist(sels), calls, recs, shown, final,
                                                cbool(obs["ret_is_caller"]))


def coq_term_full_raise(cfg, obs):
    """the loop left with an exception: the selection answers recorded so far, plus an empty answer for the
    generation that raised when its select call was not reached (mu+lambda / mu,lambda select after varOr)"""
    k, head = full_head(cfg, obs)
    sels = [csel(e) for e in obs["events"] if e[0] == "select"]
    nstats = len([e for e in obs["events"] if e[0] == "stats"])
    if nstats >= 1 and len(sels) < nstats:
        sels.append("(mkos [] 0%nat [])")
    x = {"AssertionError": "XAssertion", "ValueError": "XValue", "IndexError": "XIndex"}[obs["raised_type"]]
    return "CFullRaise %s %s %s %s" % (k, head, clist(sels), x)


# --------------------------------------------------------------------------------------------
# configuration generators (all guards of the real code respected, see design_notes/C03.md)
# --------------------------------------------------------------------------------------------
PROBS = [0.0, 0.25, 0.5, 0.75, 1.0]
DUP_SIG = "C03.duplicate_invalid_object_evaluated_twice"


NEEDS_K_LE_LEN = ("best", "firstk", "lastk", "identity", "tuple")
ULP_VS = 2 ** 23             # spacing of doubles in [2**29, 2**30): values 1e9 + k * 2**-23 differ by one ulp


def rand_evp(rng, vs):
    if vs == ULP_VS:
        off = 10 ** 9 * ULP_VS
    elif vs == 1:
        off = rng.choice([0, 0, -50, 10 ** 9])
    else:
        off = rng.choice([0, -20])
    return [rng.choice([1, 2, 3]), rng.randint(0, 5), rng.choice([3, 5, 7, 11]), rng.random() < 0.3, off]


def rand_weights(rng, two, vs):
    """encoded weights (integers) and their scale: real weight = w / wscale"""
    wscale = rng.choice([1, 1, 2])
    if wscale == 1:
        pool = [1, -1, 1, -1, 2, -2] + ([] if vs == ULP_VS else [3, -3])
    else:
        pool = [1, -1, 2, -2, 4, -4] + ([] if vs == ULP_VS else [6, -6])       # +-0.5, +-1, +-2, +-3
    w = [rng.choice(pool)]
    if two:
        w.append(rng.choice(pool))
    return w, wscale


def rand_geno(rng, cfg):
    if cfg.get("binary"):
        return [rng.randint(0, 1) for _ in range(cfg["L"])]
    return [rng.randint(0, 3) for _ in range(rng.randint(1, 5))]


def base_cfg(rng, kind, n=None, ngen=None, big=False):
    vs = rng.choice([1, 1, 1, 8, ULP_VS, 2 ** 30])
    evp = rand_evp(rng, vs)
    w, wscale = rand_weights(rng, evp[3], vs)
    n = rng.randint(0, 8 if big else 5) if n is None else n
    cfg = {"kind": kind, "evp": evp, "weights": w, "wscale": wscale, "vs": vs, "seed": rng.randrange(10 ** 9),
           "ngen": rng.randint(0, 8 if big else 4) if ngen is None else ngen, "n": n,
           "evtype": rng.choice(["float", "float", "npfloat", "list", "nparray"] + (["int"] if vs == 1 else [])),
           "preeval": [rng.random() < rng.choice([0.0, 0.5, 1.0]) for _ in range(n)],
           "hofsize": rng.choice([1, 1, 2, 3]), "hof_variant": rng.choice(["hof", "hof", "pareto"]),
           "stats_variant": rng.choice(["snap", "snap", "multi"]), "verbose": rng.random() < 0.15,
           "opstyle": rng.choice(["inplace", "functional", "swapped", "fresh", "mixed", "mixed"]),
           "map": rng.choice(["default", "default", "eager"]),
           "ops": rng.choice(["scripted", "scripted", "real"]),
           "container": "plain" if kind in ("harm", "gu") else rng.choice(["plain", "plain", "creator_list", "creator_array_b",
                                                                           "creator_numpy_int8"])}
    cfg["L"] = rng.randint(2, 6)
    cfg["binary"] = cfg["container"] in ("creator_array_b", "creator_numpy_int8")
    if cfg["ops"] == "real" and not cfg["binary"]:
        cfg["genos"] = [[rng.randint(0, 1) for _ in range(rng.randint(2, 6))] for _ in range(n)]
    else:
        cfg["genos"] = [rand_geno(rng, cfg) for _ in range(n)]
    # the same valid object listed twice in the caller's list
    if n >= 2 and rng.random() < 0.15:
        i, j = rng.sample(range(n), 2)
        if cfg["preeval"][i]:
            cfg["alias"] = [(i, j)]
    return cfg


def gen_simple(rng, **k):
    cfg = base_cfg(rng, "simple", **k)
    cfg["cxpb"], cfg["mutpb"] = rng.choice(PROBS), rng.choice(PROBS)
    cfg["sel"] = rng.choice(["random", "random", "tournament", "best", "firstk", "lastk", "identity", "tuple"]) if cfg["n"] > 0 else "firstk"
    return cfg


def gen_mu(rng, kind, **k):
    cfg = base_cfg(rng, kind, **k)
    n = cfg["n"]
    if n == 0:
        cfg["mu"], cfg["lam"] = 0, 0
    else:
        lam = rng.randint(1, 5)
        mu = rng.randint(1, lam) if kind == "comma" else rng.randint(1, 5)
        if rng.random() < 0.1 and cfg["ngen"] <= 1:
            mu = 0
        if rng.random() < 0.05 and kind == "plus":
            lam = 0
        if rng.random() < 0.15:
            mu = lam if kind == "comma" else n + lam      # k = n: everything is selected
        cfg["mu"], cfg["lam"] = mu, lam
    cfg["sel"] = rng.choice(["random", "best", "best", "tournament", "firstk", "identity", "tuple"])
    cx = rng.choice(PROBS)
    mut = rng.choice([q for q in PROBS if q + cx <= 1.0])
    cfg["cxpb"], cfg["mutpb"] = cx, mut
    return fix_guards(cfg)


def gen_gu(rng, **k):
    cfg = base_cfg(rng, "gu", n=0, **k)
    cfg["gu_sizes"] = [rng.randint(0, 4) for _ in range(cfg["ngen"])]
    cfg["gu_stale"] = rng.choice([0.0, 0.5])
    return cfg


def gen_harm(rng, n=None, ngen=None, **k):
    cfg = base_cfg(rng, "harm", n=rng.randint(1, 5) if n is None else n, ngen=ngen, **k)
    cfg["ops"] = "scripted"
    cfg["genos"] = [[rng.randint(0, 3) for _ in range(rng.randint(1, 6))] for _ in range(cfg["n"])]
    cfg["cxpb"], cfg["mutpb"] = rng.choice(PROBS), rng.choice(PROBS)
    cfg["sel"] = rng.choice(["random", "random", "tournament", "best", "firstk", "tuple"])
    cfg["alpha"], cfg["beta"] = rng.choice([0.05, 0.05, 0, 0.5]), rng.choice([10, 10, 1])
    cfg["gamma"], cfg["rho"] = rng.choice([0.25, 0.25, 1.0]), rng.choice([0.9, 0.9, 0.5, 1.0])
    cfg["nbr"] = rng.randint(1, 8)
    cfg["mincutoff"] = rng.choice([0, 1, 2, 3, 20])
    cfg["grid"] = rng.choice([None, None, [0.0, 0.125, 0.25, 0.375, 0.5, 0.625, 0.75, 0.875]])
    return fix_guards(cfg)


def fix_guards(cfg):
    """keep a configuration inside the guards under which the real code does not raise"""
    kind, n = cfg["kind"], cfg["n"]
    if kind == "harm":
        if n < 2 and cfg["sel"] in NEEDS_K_LE_LEN:
            cfg["sel"] = "random"          # select(population, 2) cannot return two individuals
        # sortednatural[int(len(population) * rho - 1):] must not be empty; nbrindsmodel == -1 is the default
        if cfg["nbr"] != -1:
            cfg["nbr"] = max(cfg["nbr"], 1, int(n * cfg["rho"] - 1) + 1)
    if kind in ("plus", "comma"):
        if cfg["cxpb"] + cfg["mutpb"] > 1.0:
            cfg["mutpb"] = 0.0
        if kind == "comma" and cfg["mu"] > cfg["lam"]:
            cfg["mu"] = cfg["lam"]
        if n == 0:
            cfg["mu"], cfg["lam"] = 0, 0       # nothing to vary, nothing to select
        elif cfg["mu"] == 0 and cfg["ngen"] > 1 and cfg["lam"] > 0:
            cfg["mu"] = 1                      # an emptied population cannot produce lambda > 0 offspring
        if kind == "plus" and cfg["sel"] in NEEDS_K_LE_LEN and cfg["mu"] > n + cfg["lam"]:
            cfg["mu"] = n + cfg["lam"]
        if min(n, cfg["mu"]) < 2 and not (n >= 2 and cfg["ngen"] <= 1):
            cfg["cxpb"] = 0.0              # random.sample(population, 2) needs two individuals
    return cfg


LEG_KEYS = ("kind", "ngen", "mu", "lam", "cxpb", "mutpb", "sel", "alpha", "beta", "gamma", "rho", "nbr", "mincutoff",
            "grid", "gu_sizes", "verbose")


def size_after(leg, n):
    return n if leg["kind"] in ("simple", "harm", "gu") or leg["ngen"] == 0 else leg["mu"]


def add_legs(rng, cfg, nlegs=None):
    """successive runs on the same population / toolbox / statistics object (and, half of the time, the same hall
    of fame), with the caller editing its population in between"""
    if cfg.get("alias") or cfg.get("tree"):
        return cfg
    n = size_after(cfg, cfg["n"])
    legs = []
    for _ in range(nlegs or rng.randint(1, 2)):
        acts = []
        if cfg["kind"] != "gu":
            for _ in range(rng.randint(0, 3)):
                t = rng.choice(["invalidate", "invalidate", "immigrant", "drop", "replace"])
                if t == "invalidate":
                    acts.append(("invalidate", rng.randrange(8)))
                elif t == "immigrant":
                    acts.append(("immigrant", rand_geno(rng, cfg) if not (cfg["ops"] == "real" and not cfg["binary"])
                                 else [rng.randint(0, 1) for _ in range(rng.randint(2, 6))], rng.random() < 0.5))
                    n += 1
                elif t == "drop":
                    acts.append(("drop", rng.randrange(8)))
                    if n > 2:
                        n -= 1
                else:
                    acts.append(("replace", rng.randrange(8), rand_geno(rng, cfg) if not (cfg["ops"] == "real" and not cfg["binary"])
                                 else [rng.randint(0, 1) for _ in range(rng.randint(2, 6))]))
        if cfg["kind"] == "gu":
            src = gen_gu(rng, ngen=rng.randint(0, 3))
        else:
            kinds = ["simple", "plus", "comma"] + (["harm"] if cfg["container"] == "plain" and n >= 1 else [])
            k = rng.choice(kinds)
            ng = rng.randint(0, 3)
            src = gen_simple(rng, n=n, ngen=ng) if k == "simple" else gen_harm(rng, n=n, ngen=ng) if k == "harm" else gen_mu(rng, k, n=n, ngen=ng)
        leg = {key: src[key] for key in LEG_KEYS if key in src}
        leg["n"] = n
        leg["caller_ops"] = acts
        leg["fresh_hof"] = rng.random() < 0.5
        merged = fix_guards(dict(cfg, **leg))
        leg = {key: merged[key] for key in list(leg.keys())}
        legs.append(leg)
        n = size_after(merged, n)
    cfg["legs"] = legs
    return cfg


def make_pset():
    import operator
    from deap import gp
    pset = gp.PrimitiveSet("C03MAIN", 1)
    pset.addPrimitive(operator.add, 2, name="add")
    pset.addPrimitive(operator.mul, 2, name="mul")
    pset.addPrimitive(operator.neg, 1, name="neg")
    pset.addTerminal(1, name="one")
    codes = {"add": 3, "mul": 2, "neg": 1, "one": 0, "ARG0": 1}
    return pset, codes


def cfg_public(cfg):
    return {k: v for k, v in cfg.items() if not k.startswith("_")}


# --------------------------------------------------------------------------------------------
def main(run):
    run.rule = ("each case = one full run of a packaged loop (eaSimple / eaMuPlusLambda / eaMuCommaLambda / eaGenerateUpdate / gp.harm) "
                "with recording operators: exhaustive small grid (ngen 0..2 x population 0..3 x extreme probabilities) plus seeded random "
                "configurations with ngen 0..4, population 0..5, partly pre-evaluated individuals, cxpb/mutpb in {0,.25,.5,.75,1}, mu<=lambda, "
                "scripted and real operators (cxTwoPoint/mutFlipBit/selTournament/selBest; GP trees with cxOnePoint/mutUniform for harm). "
                "every single-leg eaSimple / eaMuPlusLambda / eaMuCommaLambda run is replayed twice: by the loop model on the observed "
                "variation results (Corr/C03.v) and by the composed model on the recorded draws and operator script (Corr/C03_Full.v), plus "
                "runs that leave with the exceptions of varOr's guards; "
                "distinct = different configuration; non-trivial = at least one generation executed on a non-empty population")
    run.trusted += ["Coq 8.16.1 kernel and vm_compute",
                    "hand-written model coq/Model/C03_Loops.v tied by correspondence (harness/c03.py, coq/Corr/C03.v)",
                    "recording wrappers of harness/c03.py (uid registry, len()/random()/sorted() hooks in deap.gp, varAnd/varOr wrappers)",
                    "fitness values restricted to integer-valued floats (order-isomorphic to Z)",
                    "CPython semantics of slice assignment, zip, map, list.sort stability",
                    "composed model coq/Model/C03_Full.v (loops over C02's heap calling var_and / var_or) tied by correspondence "
                    "(coq/Corr/C03_Full.v): proxy for the name `random` of deap.algorithms (random() bit exact, sample / choice by "
                    "position), toolbox.clone / mate / mutate wrappers numbering objects in allocation order and recording the operator script"]
    run.assumptions += ["evaluate is a function of the genotype", "select returns k elements of its argument",
                        "Props/C03.v: variation satisfies the C02 contract (offspring valid => copy of a parent; invalid offspring are "
                        "distinct new objects); Props/C03_full.v: no such hypothesis (derived from C02's theorems), instead mate / mutate stay "
                        "inside C02's frame (write only to their arguments, return arguments or new objects), mate returns two different "
                        "objects (eaSimple), members of the initial population own their Fitness objects",
                        "initially invalid individuals are distinct objects; pre-set fitnesses are truthful",
                        "harm: acceptance loop terminates; mate returns two distinct objects"]
    run.build_props()
    run.build_props(props="Props/C03_full.v", extra=["Corr/C03_Full.v"])
    rng = run.rng
    terms, cases = [], []
    full_terms, full_cases = [], []
    stats = {"skipped": 0, "full_unsupported": 0}
    cov = {}

    def do(cfg, corr=True):
        # every single-leg run of eaSimple / eaMuPlusLambda / eaMuCommaLambda is ALSO recorded for the composed
        # model (draws of deap.algorithms' random, operator script) and replayed by Corr/C03_Full.v
        if corr and cfg["kind"] in ("simple", "plus", "comma") and not cfg.get("legs") and not cfg.get("tree"):
            cfg["full"] = True
        try:
            results = run_impl(cfg)
        except (DrawCap, KeyboardInterrupt):
            raise
        except Exception as e:  # noqa
            # nothing in the harness' own set-up can raise on the unchanged tree: assigning what the evaluation function
            # returned (tuple / list / numpy scalars / numpy array) to fitness.values, or running the loop, failed
            import traceback
            run.oracle_violation("evaluating / assigning the fitness of the initial population or running the loop raised %s: %s"
                                 % (type(e).__name__, str(e)[:200]), cfg_public(cfg), observed=traceback.format_exc()[-1200:])
            return
        carry = None
        for li, (leg, obs) in enumerate(results):
            pub = cfg_public(leg)
            pub["leg"] = li
            for key in ("kind", "container", "vs", "evtype", "hof_variant", "stats_variant", "verbose", "sel", "opstyle", "wscale"):
                cov.setdefault(key, {})
                cov[key][str(leg.get(key))] = cov[key].get(str(leg.get(key)), 0) + 1
            cov.setdefault("leg", {})
            cov["leg"][str(li) + ("" if obs.get("fresh_hof", True) else "-shared-hof")] = \
                cov["leg"].get(str(li) + ("" if obs.get("fresh_hof", True) else "-shared-hof"), 0) + 1
            nontriv = leg["ngen"] > 0 and (leg["kind"] == "gu" or leg.get("n", 0) > 0)
            run.note_case(pub, nontriv, sample=pub if len(cases) % 53 == 0 else None)
            if "skipped" in obs:
                stats["skipped"] += 1
                return
            if "raised" in obs:
                run.oracle_violation("the loop raised " + obs["raised"], pub, observed=obs["raised"])
                return
            if carry is None or obs.get("fresh_hof", True):
                carry = {"shown": set(), "best_seen": []}
            bad = oracle(leg, obs, carry) if leg.get("stats", True) else oracle_nostats(leg, obs)
            if leg.get("dup_invalid"):
                # known finding: the same unevaluated object listed twice in the caller's population is
                # evaluated once per occurrence; anything else going wrong on this input is a real violation
                known = [b for b in bad if "evaluated more than once" in b]
                bad = [b for b in bad if "evaluated more than once" not in b]
                if known:
                    run.oracle_violation(known[0], pub, signature=DUP_SIG, observed=known)
            if bad:
                run.oracle_violation(bad[0], pub, observed=bad[:5])
            if corr and obs.get("fresh_hof", True) and leg.get("stats", True) and leg.get("hof", True):
                terms.append(coq_term(leg, obs))
                cases.append(pub)
                if li == 0 and obs.get("full") is not None:
                    if obs["full"]["bad"]:
                        stats["full_unsupported"] += 1      # an operator outside C02's frame: not replayed
                    else:
                        full_terms.append(coq_term_full(leg, obs))
                        full_cases.append(pub)

    # the repaired defect, replayed on every run
    do({"kind": "gu", "evp": [1, 0, 7, False], "weights": [1], "seed": 1, "ngen": 0, "n": 0, "genos": [], "preeval": [],
        "gu_sizes": []})

    # the known finding, replayed on every run (witness of known_findings/C03.json) in all four loops
    for kind in ("simple", "plus", "comma", "harm"):
        cfg = {"kind": kind, "evp": [1, 0, 7, False], "weights": [1], "seed": 3, "ngen": 0, "n": 2,
               "genos": [[1, 2], [1, 2]], "preeval": [False, False], "alias": [(0, 1)], "dup_invalid": True,
               "mu": 2, "lam": 2, "cxpb": 0.0, "mutpb": 0.0, "sel": "random",
               "alpha": 0.05, "beta": 10, "gamma": 0.25, "rho": 0.9, "nbr": 2, "mincutoff": 20}
        do(cfg)

    # ---- exhaustive small grid ----
    for kind in ("simple", "plus", "comma", "harm"):
        for ngen in (0, 1, 2):
            for n in (0, 1, 2, 3):
                for cx, mut in ((0.0, 0.0), (1.0, 0.0), (0.0, 1.0), (1.0, 1.0), (0.5, 0.5)):
                    if kind == "harm" and n == 0 and ngen > 0:
                        continue    # select(population, 1) on an empty population has no answer
                    if kind == "simple":
                        cfg = gen_simple(rng, n=n, ngen=ngen)
                    elif kind == "harm":
                        cfg = gen_harm(rng, n=n, ngen=ngen)
                    else:
                        cfg = gen_mu(rng, kind, n=n, ngen=ngen)
                    cfg["cxpb"], cfg["mutpb"] = cx, mut
                    do(fix_guards(cfg))
    for ngen in (0, 1, 2, 3):
        for _ in range(3):
            do(gen_gu(rng, ngen=ngen))

    # ---- every operator style x extreme / mid probabilities, in the four loops that vary individuals ----
    # (operators that return new objects still carrying the argument's fitness, that return their arguments
    #  swapped, that work in place, that return new unevaluated objects)
    for kind in ("simple", "plus", "comma", "harm"):
        for st in ("functional", "swapped", "inplace", "fresh"):
            for cx, mut in ((0.0, 1.0), (1.0, 0.0), (0.5, 0.5), (0.0, 0.5), (0.5, 0.0), (1.0, 1.0)):
                if kind in ("plus", "comma") and cx + mut > 1.0:
                    continue
                for rep in range(run.scale(1, 3)):
                    if kind == "simple":
                        cfg = gen_simple(rng, n=rng.randint(2, 4), ngen=2)
                    elif kind == "harm":
                        cfg = gen_harm(rng, n=rng.randint(2, 4), ngen=2)
                    else:
                        cfg = gen_mu(rng, kind, n=rng.randint(2, 4), ngen=2)
                        cfg["mu"] = max(2, cfg["mu"])
                        cfg["lam"] = max(cfg["mu"], cfg["lam"], 3)
                    cfg.update({"ops": "scripted", "opstyle": st, "cxpb": cx, "mutpb": mut,
                                "preeval": [True] * cfg["n"], "binary": False,
                                "container": "plain" if kind == "harm" else rng.choice(["plain", "creator_list"])})
                    if kind != "harm":
                        cfg["genos"] = [[rng.randint(0, 3) for _ in range(rng.randint(1, 5))] for _ in range(cfg["n"])]
                    do(fix_guards(cfg))


    # ---- the composed model also predicts WHEN the loops leave with an exception raised by varOr
    # (C02's guards) or by eaMuCommaLambda's own assertion; replayed through Corr/C03_Full.v ----
    def do_raise(cfg, want):
        cfg["full"] = True
        leg, obs = run_impl(cfg)[0]
        pub = cfg_public(leg)
        pub["expect_raise"] = want
        run.note_case(pub, True)
        if obs.get("raised_type") != want:
            run.oracle_violation("the loop was expected to leave with %s (guard of varOr / eaMuCommaLambda), observed %r"
                                 % (want, obs.get("raised", "a normal return")), pub, observed=obs.get("raised"))
            return
        full_terms.append(coq_term_full_raise(leg, obs))
        full_cases.append(pub)

    for rep in range(run.scale(2, 8)):
        for kind in ("plus", "comma"):
            base = {"evp": [1, 0, 7, False], "weights": [1], "hofsize": 1, "opstyle": rng.choice(["inplace", "functional", "fresh"]),
                    "sel": "firstk", "kind": kind}
            # random.sample(population, 2) on one individual: ValueError in generation 1
            do_raise(dict(base, seed=rng.randrange(10 ** 9), ngen=2, n=1, genos=[[1, 2]], preeval=[rng.random() < 0.5],
                          mu=1, lam=2, cxpb=1.0, mutpb=0.0), "ValueError")
            # ... and in generation 2, once mu = 1 individual is left
            do_raise(dict(base, seed=rng.randrange(10 ** 9), ngen=3, n=3, genos=[[1, 2], [0, 3], [2]], preeval=[True, False, True],
                          mu=1, lam=2, cxpb=1.0, mutpb=0.0), "ValueError")
            # random.choice on an empty population: IndexError
            do_raise(dict(base, seed=rng.randrange(10 ** 9), ngen=1, n=0, genos=[], preeval=[], mu=0, lam=2,
                          cxpb=0.0, mutpb=rng.choice([0.0, 0.5])), "IndexError")
            # the assertion of varOr
            do_raise(dict(base, seed=rng.randrange(10 ** 9), ngen=1, n=2, genos=[[1], [2]], preeval=[True, True], mu=2, lam=2,
                          cxpb=0.75, mutpb=0.5), "AssertionError")
        # eaMuCommaLambda's own assertion lambda_ >= mu
        do_raise({"evp": [1, 0, 7, False], "weights": [1], "hofsize": 1, "opstyle": "inplace", "sel": "firstk", "kind": "comma",
                  "seed": rng.randrange(10 ** 9), "ngen": 1, "n": 2, "genos": [[1], [2]], "preeval": [True, False],
                  "mu": 3, "lam": 2, "cxpb": 0.0, "mutpb": 0.0}, "AssertionError")

    # ---- probabilities whose float sum is rounded (0.1 + 0.2), draws on the comparison values ----
    for rep in range(run.scale(6, 40)):
        kind = rng.choice(["simple", "plus", "comma"])
        cfg = gen_simple(rng, n=rng.randint(2, 5), ngen=rng.randint(1, 3)) if kind == "simple" else \
            gen_mu(rng, kind, n=rng.randint(2, 5), ngen=rng.randint(1, 3))
        cfg["cxpb"], cfg["mutpb"] = rng.choice([(0.1, 0.2), (0.2, 0.1), (0.3, 0.7), (0.7, 0.1), (0.1, 0.7)])
        cfg["edge"] = [0.1, 0.2, 0.3, 0.30000000000000004, 0.7, 0.7999999999999999, 0.8, 0.1 + 0.7, 1.0 - 2 ** -53]
        cfg["alias"] = []
        if kind != "simple":
            cfg["mu"] = max(2, cfg["mu"])
            cfg["lam"] = max(cfg["mu"], cfg["lam"])
        do(cfg)

    # ---- seeded random ----
    nrand = run.scale(100, 800)

    def maybe_legs(cfg):
        return add_legs(rng, cfg) if rng.random() < 0.3 else cfg
    for i in range(nrand):
        big = run.thorough and i % 4 == 0
        do(maybe_legs(gen_simple(rng, big=big)))
        do(maybe_legs(gen_mu(rng, "plus", big=big)))
        do(maybe_legs(gen_mu(rng, "comma", big=big)))
        do(maybe_legs(gen_gu(rng, big=big)))
        do(maybe_legs(gen_harm(rng, big=big)))

    # ---- state carried between calls: every loop followed by every loop on the same population, toolbox,
    # Statistics object and (shared or fresh) hall of fame, the caller editing the population in between ----
    for first in ("simple", "plus", "comma", "harm", "gu"):
        for rep in range(run.scale(4, 16)):
            n = rng.randint(2, 4)
            cfg = gen_simple(rng, n=n) if first == "simple" else gen_harm(rng, n=n) if first == "harm" else \
                gen_gu(rng) if first == "gu" else gen_mu(rng, first, n=n)
            cfg["alias"] = []
            do(add_legs(rng, cfg, nlegs=2))
    # a map that evaluates out of submission order but returns results in order (oracle only: the
    # model's call log is in submission order, which the statement does not claim)
    for _ in range(run.scale(15, 150)):
        cfg = rng.choice([gen_simple, lambda r: gen_mu(r, "plus"), lambda r: gen_mu(r, "comma"), gen_gu, gen_harm])(rng)
        cfg["map"] = "chunked"
        do(cfg, corr=False)
    # without a Statistics object (oracle only, on what is still observable)
    for _ in range(run.scale(15, 150)):
        cfg = rng.choice([gen_simple, lambda r: gen_mu(r, "plus"), lambda r: gen_mu(r, "comma"), gen_gu, gen_harm])(rng)
        cfg["stats"] = False
        cfg["hof"] = rng.random() < 0.5
        do(cfg, corr=False)
    # without a hall of fame (oracle only: the model always carries one)
    for _ in range(run.scale(10, 100)):
        cfg = rng.choice([gen_simple, lambda r: gen_mu(r, "plus"), lambda r: gen_mu(r, "comma"), gen_gu, gen_harm])(rng)
        cfg["hof"] = False
        do(cfg, corr=False)

    # ---- real GP operator set under harm (trees; genotype = node codes) ----
    pset, codes = make_pset()
    for i in range(run.scale(12, 80)):
        cfg = gen_harm(rng, n=rng.randint(2, 5), ngen=rng.randint(1, 3))
        cfg.update({"tree": True, "_pset": pset, "_codes": codes, "grid": None, "preeval": [rng.random() < 0.5 for _ in range(cfg["n"])],
                    "nbr": rng.randint(cfg["n"], 12), "mincutoff": rng.choice([1, 2, 20]), "genos": [], "alias": []})
        do(cfg)
    # default nbrindsmodel=-1 (2000 individuals modelled per generation): oracle in both tiers; in the
    # thorough tier two of them also go through the model, each in a shard of its own (2 GB, 90 s each)
    big_terms, big_cases = [], []
    for i in range(run.scale(1, 4)):
        cfg = gen_harm(rng, n=rng.randint(2, 4), ngen=1)
        cfg.update({"nbr": -1, "mincutoff": 20})
        if run.thorough and i < 2:
            n0 = len(terms)
            do(cfg)
            big_terms += terms[n0:]
            big_cases += cases[n0:]
            del terms[n0:], cases[n0:]
        else:
            do(cfg, corr=False)

    run.extra_cov["skipped_nonterminating"] = stats["skipped"]
    run.extra_cov["dimensions"] = cov
    run.extra_cov["full_model_cases"] = len(full_terms)
    run.extra_cov["full_model_unsupported_operator"] = stats["full_unsupported"]
    run.correspond("loops", "C03", terms, cases, shard=run.scale(60, 120))
    run.correspond("full", "C03_Full", full_terms, full_cases, shard=run.scale(40, 100),
                   requires=["From Coq Require Import PrimFloat."])
    for i, (t, c) in enumerate(zip(big_terms, big_cases)):
        run.correspond("harm_default_%d" % i, "C03", [t], [c])
